import PegVerif.Spec
import PegVerif.Proofs.Plumbing
import PegVerif.Proofs.RefineRule
/-
  Property C02: when a parse succeeds, each named field of each node holds the results of exactly
  those field matches that lie on the successful path through the rule, in input order; a field that
  several rule types can fill carries the variant of the rule that actually matched; matches made
  inside an alternative, optional, closure iteration or lookahead that was subsequently abandoned
  leave no trace in the result.

  Formulation.  `PM.eval` is a second reference evaluator with the control flow of `Spec.eval` whose
  expression results are the *list of field matches on the successful path* (`List FMatch`) and
  which contains no field plumbing at all (no `mergePart` / `project` / `convertArm` / `defaults` /
  `closureInit` / `extendAll` / `postprocessField`): a rule shapes the collected matches once, at the
  end, by the rule-level descriptors (`shapeParsed`).  We prove that the reference semantics with the
  generated plumbing (`Spec.eval`) computes, construct by construct, exactly the shaping of the path
  matches (`C02_tree`), that the two semantics agree on every rule (`C02_rule`), and – through the
  refinement theorem `eval_ref` – that the model of the generated parser returns the tree `PM.eval`
  describes (`C02_parse`).
-/
namespace Peg

/-! ### path matches and their shaping -/

/-- one field match on the successful path: field key, the type (rule) that matched, the value that
    rule returned -/
structure FMatch where
  key : String
  typ : String
  val : Val
deriving Repr, Inhabited

/-- what `field.rs: generate_postprocess_calls` does to the raw value, except the final
    `Some` / `vec!` wrapping: box if that type is boxed in the rule-level descriptor, then wrap into
    the enum variant named after the type if the rule-level type set has more than one member -/
def wrapMatch (RF : List FieldDesc) (m : FMatch) : Option Val :=
  match findField RF m.key with
  | none => none
  | some f =>
    match f.types.find? (·.1 == m.typ) with
    | none => none
    | some (_, boxed) =>
      let v := if boxed then Val.boxed m.val else m.val
      some (if f.types.length > 1 then Val.variant m.typ v else v)

/-- `mapM (wrapMatch RF)` -/
def wrapAll (RF : List FieldDesc) : List FMatch → Option (List Val)
  | [] => some []
  | m :: ms =>
    match wrapMatch RF m, wrapAll RF ms with
    | some v, some vs => some (v :: vs)
    | _, _ => none

/-- the value of field `f` (rule-level descriptor) given the matches for it, in path order -/
def shapeField (RF : List FieldDesc) (f : FieldDesc) (ms : List FMatch) : Option Val :=
  match f.arity with
  | .one => (match ms with | [m] => wrapMatch RF m | _ => none)
  | .optional => (match ms with | [] => some .none | [m] => (wrapMatch RF m).map .some | _ => none)
  | .multiple => (wrapAll RF ms).map .list

/-- the matches of one field, in path order -/
def flt (ms : List FMatch) (x : String) : List FMatch := ms.filter (·.key == x)

/-- the `Parsed` of a construct with (filtered rule-level) fields `fields` whose successful path
    made the matches `ms` -/
def shapeParsed (RF : List FieldDesc) : List FieldDesc → List FMatch → Option Parsed
  | [], _ => some []
  | f :: fs, ms =>
    match shapeField RF f (flt ms f.name), shapeParsed RF fs ms with
    | some v, some p => some ((f.name, v) :: p)
    | _, _ => none

theorem wrapAll_eq_mapM (RF : List FieldDesc) (ms : List FMatch) : wrapAll RF ms = ms.mapM (wrapMatch RF) := by
  induction ms with
  | nil => rfl
  | cons m ms ih =>
    rw [List.mapM_cons, wrapAll, ih]
    cases wrapMatch RF m <;> cases List.mapM (wrapMatch RF) ms <;> rfl

/-- `shapeParsed` is the `mapM` of the informal definition -/
theorem shapeParsed_eq_mapM (RF fields : List FieldDesc) (ms : List FMatch) :
    shapeParsed RF fields ms =
      fields.mapM fun f => (shapeField RF f (ms.filter (·.key == f.name))).map (f.name, ·) := by
  induction fields with
  | nil => rfl
  | cons f fs ih =>
    rw [List.mapM_cons, shapeParsed, ih]
    unfold flt
    cases shapeField RF f (List.filter (fun x => x.key == f.name) ms) <;>
      cases List.mapM (fun f => Option.map (fun x => (f.name, x))
        (shapeField RF f (List.filter (fun x => x.key == f.name) ms))) fs <;> rfl

/-! ### `PM.eval`: the reference evaluator that collects the matches of the successful path -/

namespace PM
open Spec

structure PRec where
  expr : Ctx → Expr → St → SOut (List FMatch)
  rule : String → St → SOut Val

def withSkipWs {α} (rec : PRec) (ctx : Ctx) (s : St) (k : St → SOut α) : SOut α :=
  if ctx.skipWs then bindS (rec.rule "Whitespace" s) (fun _ s' => k s') else k s

/-- sequence: the matches of the parts, concatenated in order -/
def evalSeq (rec : PRec) (ctx : Ctx) : List Expr → List FMatch → St → SOut (List FMatch)
  | [], acc, s => some (.ok acc s)
  | p :: ps, acc, s => bindS (rec.expr ctx p s) fun ms s' => evalSeq rec ctx ps (acc ++ ms) s'

/-- choice: the matches of the first alternative that succeeds; failed alternatives contribute nothing -/
def evalAlts (rec : PRec) (ctx : Ctx) : List Expr → St → SOut (List FMatch)
  | [], _ => some (.err noErr)
  | a :: as, s =>
    match rec.expr ctx a s with
    | none => none
    | some (.ok ms s') => some (.ok ms s')
    | some (.err _) => evalAlts rec ctx as s
    | some (.panic m) => some (.panic m)

/-- closure: the matches of the successful iterations, concatenated; the failing last iteration
    contributes nothing -/
def evalLoop (body : St → SOut (List FMatch)) : Nat → Nat → List FMatch → St → SOut (Nat × List FMatch)
  | 0, _, _, _ => none
  | k+1, iters, acc, s =>
    match body s with
    | none => none
    | some (.ok ms s') => evalLoop body k (iters + 1) (acc ++ ms) s'
    | some (.err _) => some (.ok (iters, acc) s)
    | some (.panic m) => some (.panic m)

def stepExpr (env : Env) (rec : PRec) (n : Nat) (ctx : Ctx) (e : Expr) (s : St) : SOut (List FMatch) :=
  match e with
  | .choice [] => some (.panic "index out of bounds: choices[0]")
  | .choice [a] => rec.expr ctx a s
  | .choice alts => evalAlts rec ctx alts s
  | .seq [] => some (.ok [] s)
  | .seq [p] => rec.expr ctx p s
  | .seq parts => evalSeq rec ctx parts [] s
  | .group b => rec.expr ctx b s
  | .opt b =>
    match rec.expr ctx b s with
    | none => none
    | some (.ok ms s') => some (.ok ms s')
    | some (.err _) => some (.ok [] s)
    | some (.panic m) => some (.panic m)
  | .closure b atLeastOne =>
    bindS (evalLoop (rec.expr ctx b) n 0 [] s) fun (iters, acc) s' =>
      if atLeastOne && iters == 0 then some (.err noErr)
      else some (.ok acc s')
  | .neg b =>
    match rec.expr ctx b s with
    | none => none
    | some (.ok _ _) => some (.err noErr)
    | some (.err _) => some (.ok [] s)
    | some (.panic m) => some (.panic m)
  | .pos b =>
    bindS (rec.expr ctx b s) fun _ _ => some (.ok [] s)
  | .range lo hi =>
    match lo.toChar, hi.toChar with
    | .ok lo, .ok hi =>
      withSkipWs rec ctx s fun s => some (abs ((parseCharacterRange s lo hi).map (fun _ => [])))
    | _, _ => some (.panic "uncompilable: range bound")
  | .lit ins body =>
    match compileLit ins body with
    | .ok m =>
      withSkipWs rec ctx s fun s =>
        match m with
        | .charLit c => some (abs ((parseCharacterLiteral s c).map (fun _ => [])))
        | .strLit l => some (abs ((parseStringLiteral s l).map (fun _ => [])))
        | .charLitI c => some (abs ((parseCharacterLiteralInsensitive s c).map (fun _ => [])))
        | .strLitI l => some (abs ((parseStringLiteralInsensitive s l).map (fun _ => [])))
    | _ => some (.panic "uncompilable: literal")
  | .eoi => withSkipWs rec ctx s fun s => some (abs ((parseEndOfInput s).map (fun _ => [])))
  | .incl r =>
    match env.g.findRule r with
    | none => some (.panic "uncompilable: include of a missing rule")
    | some rule => rec.expr ctx rule.definition s
  | .field name _ typ =>
    withSkipWs rec ctx s fun s =>
      bindS (rec.rule typ s) fun v s' =>
        match name with
        | none => some (.ok [] s')
        | some nm => some (.ok [⟨nm.key, typ, v⟩] s')

/-- the rule wrappers of `Spec.ruleBody`; the node / override value is the shaping of the path
    matches of the rule's definition by the rule's own descriptors -/
def ruleBody (env : Env) (u : Nat) (rec : PRec) (r : Rule) (s : St) : SOut Val :=
  let flags := r.flags
  match getFields env.g env.nf r.definition with
  | .ok fields =>
    let ctx : Ctx := { skipWs := env.settings.skipWhitespace && !flags.noSkipWs, ruleFields := fields }
    if flags.string then
      bindS (rec.expr ctx r.definition s) fun _ s' =>
        let str := Val.str (s.sliceUntil s')
        let v := if flags.position then Val.node r.name [("string", str)] (some (s.off, s'.off)) else str
        Spec.runChecks env u r.checks v s'
    else if fields.length == 1 && (fields.head?.map (·.name)) == some "_override" then
      bindS (rec.expr ctx r.definition s) fun ms s' =>
        match (shapeParsed fields fields ms).bind (·.get "_override") with
        | some v => Spec.runChecks env u r.checks v s'
        | none => some (.panic "path matches do not fit the rule-level arities")
    else if hasField fields "_override" then
      some (.panic "uncompilable: Mixing simple and override fields is not allowed.")
    else
      bindS (rec.expr ctx r.definition s) fun ms s' =>
        match shapeParsed fields fields ms with
        | some fs =>
          let v := Val.node r.name fs (if flags.position then some (s.off, s'.off) else none)
          Spec.runChecks env u r.checks v s'
        | none => some (.panic "path matches do not fit the rule-level arities")
  | _ => some (.panic "uncompilable: get_fields failed")

/-- char rules only call rules -/
def PRec.toS (rec : PRec) : SRec := { expr := fun _ _ _ => none, rule := rec.rule }

def stepRule (env : Env) (u : Nat) (rec : PRec) (name : String) (s : St) : SOut Val :=
  match env.g.find name with
  | some (.rule r) => ruleBody env u rec r s
  | some (.charRule r) => Spec.charRule env rec.toS r s
  | some (.externRule r) => Spec.externRule env u r s
  | none =>
    if name == "char" then some (abs ((parseChar s).map .chr))
    else if name == "Whitespace" then some (abs ((parseWhitespace s).map (fun _ => .unit)))
    else some (.panic ("uncompilable: undefined rule " ++ name))

def step (env : Env) (u : Nat) (rec : PRec) (n : Nat) : PRec :=
  { expr := stepExpr env rec n, rule := stepRule env u rec }

def eval (env : Env) (u : Nat) : Nat → PRec
  | 0 => { expr := fun _ _ _ => none, rule := fun _ _ => none }
  | n+1 => step env u (eval env u n) n

def parse (env : Env) (u : Nat) (fuel : Nat) (rule : String) (inp : List UInt8) : SOut Val :=
  (eval env u fuel).rule rule (St.new inp)

end PM

/-! ### the path matches respect the local field analysis -/

def CountOk : Arity → Nat → Prop
  | .one, n => n = 1
  | .optional, n => n ≤ 1
  | .multiple, _ => True

theorem CountOk.mono {a b : Arity} {n : Nat} (h : CountOk a n) (hab : a ≤ b) : CountOk b n := by
  cases a <;> cases b <;> simp only [CountOk] at * <;> first | omega | exact absurd hab (by decide)

theorem CountOk.zero {a : Arity} (h : Arity.optional ≤ a) : CountOk a 0 := by
  cases a <;> simp only [CountOk] <;> first | omega | exact absurd h (by decide)

/-- the match is one of a field of `own`, by a rule listed among that field's types -/
def Declared (own : List FieldDesc) (m : FMatch) : Prop :=
  ∃ o ∈ own, o.name = m.key ∧ ∃ t ∈ o.types, t.1 = m.typ

/-- the matches `ms` fit the local analysis `own` of the construct that made them: every match is
    declared, and the number of matches of each field is the one its local arity announces -/
def PathOk (own : List FieldDesc) (ms : List FMatch) : Prop :=
  (∀ m ∈ ms, Declared own m) ∧ ∀ f ∈ own, CountOk f.arity (flt ms f.name).length

theorem Declared.hasField {own : List FieldDesc} {m : FMatch} (h : Declared own m) :
    hasField own m.key = true := by
  obtain ⟨o, ho, e, _⟩ := h
  exact e ▸ hasField_of_mem ho

theorem Declared.mono {inner outer : List FieldDesc} {m : FMatch} (hs : SubFields inner outer)
    (h : Declared inner m) : Declared outer m := by
  obtain ⟨o, ho, e, t, ht, et⟩ := h
  obtain ⟨o', ho', e', _, hty⟩ := hs o ho
  obtain ⟨t', ht', et', _⟩ := hty t ht
  exact ⟨o', ho', e'.trans e, t', ht', et'.trans et⟩

theorem flt_nil (x : String) : flt [] x = [] := rfl

theorem flt_append (a b : List FMatch) (x : String) : flt (a ++ b) x = flt a x ++ flt b x := by
  unfold flt; exact List.filter_append ..

theorem flt_eq_nil {ms : List FMatch} {x : String} (h : ∀ m ∈ ms, m.key ≠ x) : flt ms x = [] := by
  unfold flt
  exact List.filter_eq_nil_iff.mpr (fun m hm hc => h m hm (beq_iff_eq.mp hc))

theorem flt_eq_nil_of_declared {own : List FieldDesc} {ms : List FMatch} {x : String}
    (h : ∀ m ∈ ms, Declared own m) (hx : hasField own x = false) : flt ms x = [] :=
  flt_eq_nil (fun m hm e => by rw [← e, (h m hm).hasField] at hx; cases hx)

theorem PathOk.nil {own : List FieldDesc} (h : ∀ f ∈ own, Arity.optional ≤ f.arity) : PathOk own [] :=
  ⟨fun _ hm => (by cases hm), fun f hf => CountOk.zero (h f hf)⟩

theorem PathOk.nil_nil : PathOk [] [] := PathOk.nil (fun _ h => by cases h)

/-- from a sub-construct to the enclosing construct -/
theorem PathOk.mono {inner outer : List FieldDesc} {ms : List FMatch}
    (hn : (outer.map (·.name)).Nodup) (hs : SubFields inner outer)
    (habs : ∀ f ∈ outer, hasField inner f.name = false → Arity.optional ≤ f.arity)
    (h : PathOk inner ms) : PathOk outer ms := by
  refine ⟨fun m hm => (h.1 m hm).mono hs, fun f hf => ?_⟩
  by_cases hin : hasField inner f.name = true
  · obtain ⟨o, ho, e⟩ := exists_of_hasField hin
    obtain ⟨o', ho', l⟩ := hs o ho
    have : o' = f := eq_of_name_eq hn ho' hf (l.1.trans e)
    subst this
    have := h.2 o ho
    rw [e] at this
    exact this.mono l.2.1
  · have hin' : hasField inner f.name = false := by simpa using hin
    rw [flt_eq_nil_of_declared h.1 hin']
    exact CountOk.zero (habs f hf hin')

namespace PM
open Spec

theorem bindS_ok_inv {α β} {x : SOut α} {k : α → St → SOut β} {v : β} {s : St}
    (h : bindS x k = some (.ok v s)) : ∃ a s1, x = some (.ok a s1) ∧ k a s1 = some (.ok v s) := by
  cases x with
  | none => simp [bindS] at h
  | some r =>
    cases r with
    | ok a s1 => exact ⟨a, s1, rfl, h⟩
    | err e => simp [bindS] at h
    | panic m => simp [bindS] at h

theorem withSkipWs_ok_inv {α} {rec : PRec} {ctx : Ctx} {s : St} {k : St → SOut α} {v : α} {s' : St}
    (h : withSkipWs rec ctx s k = some (.ok v s')) : ∃ s1, k s1 = some (.ok v s') := by
  unfold withSkipWs at h
  split at h
  · obtain ⟨_, s1, _, h⟩ := bindS_ok_inv h
    exact ⟨s1, h⟩
  · exact ⟨s, h⟩

theorem abs_map_const_ok {α β} {r : Res α} {c v : β} {s' : St}
    (h : abs (r.map (fun _ => c)) = .ok v s') : v = c := by
  cases r with
  | ok a s1 => simp only [Res.map, abs, Res.ok.injEq] at h; exact h.1.symm
  | err e => cases h
  | panic m => cases h

/-- expressions: a successful result fits the local analysis of the expression -/
def PGoodE (env : Env) (ev : Ctx → Expr → St → SOut (List FMatch)) : Prop :=
  ∀ ctx e own s ms s', getFields env.g env.nf e = .ok own → ev ctx e s = some (.ok ms s') → PathOk own ms

section
variable {env : Env} {rec : PRec}

/-- loop invariant of a sequence w.r.t. the parts `pre` already processed -/
def SeqInv (env : Env) (own : List FieldDesc) (pre : List Expr) (acc : List FMatch) : Prop :=
  (∀ m ∈ acc, Declared own m ∧ ∃ q ∈ pre, hasField (fieldsOf env.g env.nf q) m.key = true) ∧
  ∀ f ∈ own, (∃ q ∈ pre, hasField (fieldsOf env.g env.nf q) f.name = true) →
    CountOk f.arity (flt acc f.name).length

theorem evalSeq_pgood (hg : PGoodE env rec.expr) {ctx : Ctx} {own : List FieldDesc} {parts : List Expr}
    (hn : (own.map (·.name)).Nodup)
    (hparts : ∀ p ∈ parts, getFields env.g env.nf p = .ok (fieldsOf env.g env.nf p) ∧
      SubFields (fieldsOf env.g env.nf p) own)
    (htwo : ∀ pre p post x, parts = pre ++ p :: post →
      (∃ q ∈ pre, hasField (fieldsOf env.g env.nf q) x = true) →
      hasField (fieldsOf env.g env.nf p) x = true → AllMult x own) :
    ∀ ps pre acc s ms s', parts = pre ++ ps → SeqInv env own pre acc →
      evalSeq rec ctx ps acc s = some (.ok ms s') → SeqInv env own parts ms := by
  intro ps
  induction ps with
  | nil =>
    intro pre acc s ms s' hpre hinv h
    simp only [evalSeq, Option.some.injEq, Res.ok.injEq] at h
    rw [List.append_nil] at hpre
    rw [hpre, ← h.1]; exact hinv
  | cons p ps ih =>
    intro pre acc s ms s' hpre hinv h
    have hp : p ∈ parts := by rw [hpre]; simp
    obtain ⟨hget, hsub⟩ := hparts p hp
    simp only [evalSeq] at h
    obtain ⟨mp, s1, hx, h⟩ := bindS_ok_inv h
    have hpo := hg _ _ _ _ _ _ hget hx
    refine ih (pre ++ [p]) (acc ++ mp) s1 ms s' (by rw [hpre]; simp) ⟨?_, ?_⟩ h
    · intro m hm
      rcases List.mem_append.mp hm with hm | hm
      · obtain ⟨h1, q, hq, hqx⟩ := hinv.1 m hm
        exact ⟨h1, q, List.mem_append_left _ hq, hqx⟩
      · exact ⟨(hpo.1 m hm).mono hsub, p, by simp, (hpo.1 m hm).hasField⟩
    · intro f hf hq
      rw [flt_append, List.length_append]
      by_cases hpf : hasField (fieldsOf env.g env.nf p) f.name = true
      · by_cases hpre' : ∃ q ∈ pre, hasField (fieldsOf env.g env.nf q) f.name = true
        · have := (htwo pre p ps f.name hpre hpre' hpf).2 f hf rfl
          rw [this]; trivial
        · have h0 : flt acc f.name = [] := by
            refine flt_eq_nil (fun m hm e => hpre' ?_)
            obtain ⟨_, q, hq, hqx⟩ := hinv.1 m hm
            exact ⟨q, hq, e ▸ hqx⟩
          rw [h0, List.length_nil, Nat.zero_add]
          obtain ⟨o, ho, e⟩ := exists_of_hasField hpf
          obtain ⟨o', ho', l⟩ := hsub o ho
          have : o' = f := eq_of_name_eq hn ho' hf (l.1.trans e)
          subst this
          have := hpo.2 o ho
          rw [e] at this
          exact this.mono l.2.1
      · have hpf' : hasField (fieldsOf env.g env.nf p) f.name = false := by simpa using hpf
        rw [flt_eq_nil_of_declared hpo.1 hpf', List.length_nil, Nat.add_zero]
        refine hinv.2 f hf ?_
        obtain ⟨q, hq, hqx⟩ := hq
        rcases List.mem_append.mp hq with hq | hq
        · exact ⟨q, hq, hqx⟩
        · rw [List.mem_singleton.mp hq, hpf'] at hqx; cases hqx

theorem evalAlts_pgood (hg : PGoodE env rec.expr) {ctx : Ctx} {own : List FieldDesc}
    (hn : (own.map (·.name)).Nodup) :
    ∀ as s ms s',
      (∀ a ∈ as, getFields env.g env.nf a = .ok (fieldsOf env.g env.nf a) ∧
        SubFields (fieldsOf env.g env.nf a) own ∧
        ∀ x, hasField (fieldsOf env.g env.nf a) x = false → AllOpt x own) →
      evalAlts rec ctx as s = some (.ok ms s') → PathOk own ms := by
  intro as
  induction as with
  | nil => intro s ms s' _ h; simp [evalAlts] at h
  | cons a as ih =>
    intro s ms s' has h
    obtain ⟨hget, hsub, habs⟩ := has a List.mem_cons_self
    simp only [evalAlts] at h
    split at h
    · cases h
    · rename_i ms0 s0 hx
      simp only [Option.some.injEq, Res.ok.injEq] at h
      rw [← h.1]
      exact (hg _ _ _ _ _ _ hget hx).mono hn hsub (fun f hf hin => habs f.name hin f hf rfl)
    · exact ih _ _ _ (fun a' ha' => has a' (List.mem_cons_of_mem _ ha')) h
    · cases h

theorem evalLoop_pgood {body : St → SOut (List FMatch)} {own : List FieldDesc}
    (hb : ∀ s ms s', body s = some (.ok ms s') → ∀ m ∈ ms, Declared own m) :
    ∀ k iters acc s r s', (∀ m ∈ acc, Declared own m) →
      evalLoop body k iters acc s = some (.ok r s') → ∀ m ∈ r.2, Declared own m := by
  intro k
  induction k with
  | zero => intro iters acc s r s' _ h; simp [evalLoop] at h
  | succ k ih =>
    intro iters acc s r s' hacc h
    simp only [evalLoop] at h
    split at h
    · cases h
    · rename_i ms0 s0 hx
      refine ih _ _ _ _ _ (fun m hm => ?_) h
      rcases List.mem_append.mp hm with hm | hm
      · exact hacc m hm
      · exact hb _ _ _ hx m hm
    · simp only [Option.some.injEq, Res.ok.injEq] at h
      rw [← h.1]; exact hacc
    · cases h

theorem stepExpr_pgood (hg : PGoodE env rec.expr) (n : Nat) : PGoodE env (stepExpr env rec n) := by
  intro ctx e own s ms s' hget h
  have hn := getFields_nodup hget
  cases e with
  | choice alts =>
    obtain ⟨harms, hnames, habs⟩ := getFields_choice hget
    have hall : ∀ a ∈ alts, getFields env.g env.nf a = .ok (fieldsOf env.g env.nf a) ∧
        SubFields (fieldsOf env.g env.nf a) own ∧
        ∀ x, hasField (fieldsOf env.g env.nf a) x = false → AllOpt x own :=
      fun a ha => ⟨(harms a ha).1, (harms a ha).2, habs a ha⟩
    match alts with
    | [] => simp [stepExpr] at h
    | [a] =>
      simp only [stepExpr] at h
      obtain ⟨h1, h2, h3⟩ := hall a List.mem_cons_self
      exact (hg _ _ _ _ _ _ h1 h).mono hn h2 (fun f hf hin => h3 f.name hin f hf rfl)
    | a :: b :: rest =>
      simp only [stepExpr] at h
      exact evalAlts_pgood hg hn _ _ _ _ hall h
  | seq parts =>
    obtain ⟨hps, hnames, htwo⟩ := getFields_seq hget
    match parts with
    | [] =>
      simp only [stepExpr, Option.some.injEq, Res.ok.injEq] at h
      rw [← h.1]
      refine ⟨fun _ hm => (by cases hm), fun f hf => ?_⟩
      obtain ⟨p, hp, _⟩ := (hnames f.name).mp (hasField_of_mem hf)
      cases hp
    | [a] =>
      simp only [stepExpr] at h
      obtain ⟨h1, h2⟩ := hps a List.mem_cons_self
      refine (hg _ _ _ _ _ _ h1 h).mono hn h2 (fun f hf hin => ?_)
      obtain ⟨p, hp, hpx⟩ := (hnames f.name).mp (hasField_of_mem hf)
      rw [List.mem_singleton.mp hp, hin] at hpx; cases hpx
    | a :: b :: rest =>
      simp only [stepExpr] at h
      have := evalSeq_pgood hg hn hps htwo _ [] [] s ms s' rfl
        ⟨fun _ hm => (by cases hm), fun f _ hq => (by obtain ⟨q, hq, _⟩ := hq; cases hq)⟩ h
      exact ⟨fun m hm => (this.1 m hm).1, fun f hf => this.2 f hf ((hnames f.name).mp (hasField_of_mem hf))⟩
  | group b =>
    simp only [stepExpr] at h
    exact hg _ _ _ _ _ _ (getFields_group_inv hget) h
  | opt b =>
    obtain ⟨fs, hb, rfl⟩ := getFields_opt_inv hget
    simp only [stepExpr] at h
    split at h
    · cases h
    · rename_i ms0 s0 hx
      simp only [Option.some.injEq, Res.ok.injEq] at h
      rw [← h.1]
      refine (hg _ _ _ _ _ _ hb hx).mono hn (subFields_opt fs) (fun f hf _ => opt_fields_optional fs f hf)
    · simp only [Option.some.injEq, Res.ok.injEq] at h
      rw [← h.1]
      exact PathOk.nil (opt_fields_optional fs)
    · cases h
  | closure b atLeastOne =>
    obtain ⟨fs, hb, rfl⟩ := getFields_closure_inv hget
    simp only [stepExpr] at h
    obtain ⟨⟨iters, acc⟩, s1, hx, h⟩ := bindS_ok_inv h
    simp only at h
    split at h
    · cases h
    · simp only [Option.some.injEq, Res.ok.injEq] at h
      rw [← h.1]
      have := evalLoop_pgood (own := fs.map fun f => { f with arity := Arity.multiple })
        (fun s ms s' hbs m hm => ((hg _ _ _ _ _ _ hb hbs).1 m hm).mono (subFields_closure fs))
        n 0 [] s (iters, acc) s1 (fun _ hm => by cases hm) hx
      refine ⟨this, fun f hf => ?_⟩
      rw [closure_fields_multiple fs f hf]; trivial
  | neg b =>
    obtain ⟨hb, rfl⟩ := getFields_neg_inv hget
    simp only [stepExpr] at h
    split at h
    · cases h
    · cases h
    · simp only [Option.some.injEq, Res.ok.injEq] at h
      rw [← h.1]; exact PathOk.nil_nil
    · cases h
  | pos b =>
    obtain ⟨hb, rfl⟩ := getFields_pos_inv hget
    simp only [stepExpr] at h
    obtain ⟨_, _, _, h⟩ := bindS_ok_inv h
    simp only [Option.some.injEq, Res.ok.injEq] at h
    rw [← h.1]; exact PathOk.nil_nil
  | range lo hi =>
    rw [getFields_terminal_inv (Or.inl ⟨_, _, rfl⟩) hget]
    simp only [stepExpr] at h
    split at h
    · obtain ⟨s1, h⟩ := withSkipWs_ok_inv h
      rw [abs_map_const_ok (Option.some.inj h)]; exact PathOk.nil_nil
    · cases h
  | lit ins body =>
    rw [getFields_terminal_inv (Or.inr (Or.inl ⟨_, _, rfl⟩)) hget]
    simp only [stepExpr] at h
    split at h
    · obtain ⟨s1, h⟩ := withSkipWs_ok_inv h
      split at h <;> (rw [abs_map_const_ok (Option.some.inj h)]; exact PathOk.nil_nil)
    · cases h
  | eoi =>
    rw [getFields_terminal_inv (Or.inr (Or.inr (Or.inl rfl))) hget]
    simp only [stepExpr] at h
    obtain ⟨s1, h⟩ := withSkipWs_ok_inv h
    rw [abs_map_const_ok (Option.some.inj h)]; exact PathOk.nil_nil
  | incl rn =>
    obtain ⟨rule, hr, hdef⟩ := getFields_incl_inv hget
    simp only [stepExpr, hr] at h
    exact hg _ _ _ _ _ _ hdef h
  | field name boxed typ =>
    simp only [stepExpr] at h
    obtain ⟨s1, h⟩ := withSkipWs_ok_inv h
    obtain ⟨v, s2, _, h⟩ := bindS_ok_inv h
    cases name with
    | none =>
      rw [getFields_terminal_inv (Or.inr (Or.inr (Or.inr ⟨_, _, rfl⟩))) hget]
      simp only [Option.some.injEq, Res.ok.injEq] at h
      rw [← h.1]; exact PathOk.nil_nil
    | some nm =>
      rw [getFields_field_inv hget]
      simp only [Option.some.injEq, Res.ok.injEq] at h
      rw [← h.1]
      refine ⟨fun m hm => ?_, fun f hf => ?_⟩
      · rw [List.mem_singleton.mp hm]
        exact ⟨_, List.mem_cons_self, rfl, (typ, boxed), List.mem_cons_self, rfl⟩
      · rw [List.mem_singleton.mp hf]
        simp [flt, CountOk]

end

theorem eval_pgood (env : Env) (u : Nat) : ∀ n, PGoodE env (eval env u n).expr := by
  intro n
  induction n with
  | zero => intro _ _ _ _ _ _ _ h; simp [eval] at h
  | succ n ih => exact stepExpr_pgood ih n

end PM

/-! ### the algebra of shaping: every plumbing helper computes the shaping of the path matches -/

/-- pointwise form of `shapeParsed`, with abstract per-field match lists -/
def PS (RF fields : List FieldDesc) (M : String → List FMatch) (p : Parsed) : Prop :=
  p.map (·.1) = fields.map (·.name) ∧
  ∀ f ∈ fields, ∃ v, p.get f.name = some v ∧ shapeField RF f (M f.name) = some v

theorem shapeParsed_iff {RF : List FieldDesc} {ms : List FMatch} :
    ∀ {fields : List FieldDesc} {p : Parsed}, (fields.map (·.name)).Nodup →
      (shapeParsed RF fields ms = some p ↔ PS RF fields (flt ms) p) := by
  intro fields
  induction fields with
  | nil =>
    intro p _
    simp only [shapeParsed, Option.some.injEq]
    constructor
    · intro h; subst h; exact ⟨rfl, fun _ h => by cases h⟩
    · rintro ⟨h, _⟩
      cases p with
      | nil => rfl
      | cons a p => simp at h
  | cons f fs ih =>
    intro p hn
    simp only [List.map_cons, List.nodup_cons] at hn
    constructor
    · intro h
      simp only [shapeParsed] at h
      split at h
      · rename_i v p' hv hp'
        simp only [Option.some.injEq] at h
        subst h
        obtain ⟨hk, hv'⟩ := (ih hn.2).mp hp'
        refine ⟨by simp only [List.map_cons, hk], ?_⟩
        intro g hg
        rcases List.mem_cons.mp hg with rfl | hg
        · exact ⟨v, by rw [Parsed.get_cons, if_pos rfl], hv⟩
        · have hne : f.name ≠ g.name := fun e => hn.1 (e ▸ List.mem_map.mpr ⟨g, hg, rfl⟩)
          obtain ⟨w, hw, hs⟩ := hv' g hg
          exact ⟨w, by rw [Parsed.get_cons, if_neg hne]; exact hw, hs⟩
      · cases h
    · rintro ⟨hk, hv⟩
      cases p with
      | nil => simp at hk
      | cons kv p' =>
        obtain ⟨k, v⟩ := kv
        simp only [List.map_cons, List.cons.injEq] at hk
        obtain ⟨rfl, hk'⟩ := hk
        obtain ⟨v', hg, hs⟩ := hv f List.mem_cons_self
        rw [Parsed.get_cons, if_pos rfl] at hg
        cases hg
        have htl : shapeParsed RF fs ms = some p' := by
          refine (ih hn.2).mpr ⟨hk', fun g hg => ?_⟩
          have hne : f.name ≠ g.name := fun e => hn.1 (e ▸ List.mem_map.mpr ⟨g, hg, rfl⟩)
          obtain ⟨w, hw, hs⟩ := hv g (List.mem_cons_of_mem _ hg)
          rw [Parsed.get_cons, if_neg hne] at hw
          exact ⟨w, hw, hs⟩
        simp only [shapeParsed, hs, htl]

theorem wrapAll_append {RF : List FieldDesc} : ∀ {a b : List FMatch} {l1 l2 : List Val},
    wrapAll RF a = some l1 → wrapAll RF b = some l2 → wrapAll RF (a ++ b) = some (l1 ++ l2) := by
  intro a
  induction a with
  | nil => intro b l1 l2 h1 h2; simp only [wrapAll, Option.some.injEq] at h1; subst h1; exact h2
  | cons m a ih =>
    intro b l1 l2 h1 h2
    simp only [wrapAll] at h1
    split at h1
    · rename_i v vs hv hvs
      simp only [Option.some.injEq] at h1
      subst h1
      simp only [List.cons_append, wrapAll, hv, ih hvs h2]
    · cases h1

theorem shapeField_multiple {RF : List FieldDesc} {f : FieldDesc} (hm : f.arity = .multiple)
    {ms : List FMatch} {v : Val} (h : shapeField RF f ms = some v) :
    ∃ l, v = .list l ∧ wrapAll RF ms = some l := by
  unfold shapeField at h
  rw [hm] at h
  simp only at h
  cases hw : wrapAll RF ms with
  | none => rw [hw] at h; cases h
  | some l => rw [hw] at h; simp only [Option.map_some, Option.some.injEq] at h; exact ⟨l, h.symm, rfl⟩

theorem shapeField_multiple_of {RF : List FieldDesc} {f : FieldDesc} (hm : f.arity = .multiple)
    {ms : List FMatch} {l : List Val} (h : wrapAll RF ms = some l) : shapeField RF f ms = some (.list l) := by
  unfold shapeField
  rw [hm]
  simp only [h, Option.map_some]

theorem shapeField_nil {RF : List FieldDesc} {f : FieldDesc} (h : Arity.optional ≤ f.arity) :
    ∃ v, defaultField f = .ok v ∧ shapeField RF f [] = some v := by
  unfold defaultField shapeField
  cases ha : f.arity with
  | one => rw [ha] at h; exact absurd h (by decide)
  | optional => exact ⟨_, rfl, rfl⟩
  | multiple => exact ⟨_, rfl, rfl⟩

/-- `field.rs: generate_postprocess_calls` = shaping of a single match -/
theorem postprocessField_path {RF : List FieldDesc} (hn : (RF.map (·.name)).Nodup) {f : FieldDesc}
    (hf : f ∈ RF) {typ : String} (ht : ∃ t ∈ f.types, t.1 = typ) (v : Val) :
    ∃ fv, postprocessField RF f.name typ v = .ok fv ∧ shapeField RF f [⟨f.name, typ, v⟩] = some fv := by
  unfold postprocessField shapeField wrapAll wrapMatch
  simp only [findField_of_mem hn hf, wrapAll]
  cases hfind : f.types.find? (·.1 == typ) with
  | none =>
    obtain ⟨t, htm, e⟩ := ht
    have := List.find?_eq_none.mp hfind t htm
    simp [e] at this
  | some tb =>
    obtain ⟨t1, bx⟩ := tb
    simp only
    refine ⟨_, rfl, ?_⟩
    cases f.arity <;> rfl

theorem defaults_path {RF : List FieldDesc} : ∀ (fs : List FieldDesc), (∀ f ∈ fs, Arity.optional ≤ f.arity) →
    ∃ p, defaults fs = .ok p ∧ shapeParsed RF fs [] = some p := by
  intro fs
  induction fs with
  | nil => intro _; exact ⟨[], rfl, rfl⟩
  | cons f fs ih =>
    intro h
    obtain ⟨v, hv, hs⟩ := shapeField_nil (RF := RF) (h f List.mem_cons_self)
    obtain ⟨p, hp, hsp⟩ := ih (fun f hf => h f (List.mem_cons_of_mem _ hf))
    exact ⟨(f.name, v) :: p, by simp only [defaults, hv, hp], by simp only [shapeParsed, flt_nil, hs, hsp]⟩

theorem closureInit_path {RF : List FieldDesc} : ∀ (fs : List FieldDesc), (∀ f ∈ fs, f.arity = .multiple) →
    ∃ p, closureInit fs = .ok p ∧ shapeParsed RF fs [] = some p := by
  intro fs
  induction fs with
  | nil => intro _; exact ⟨[], rfl, rfl⟩
  | cons f fs ih =>
    intro h
    have hf := h f List.mem_cons_self
    obtain ⟨p, hp, hsp⟩ := ih (fun f hf => h f (List.mem_cons_of_mem _ hf))
    refine ⟨(f.name, .list []) :: p, ?_, ?_⟩
    · simp only [closureInit, hf, hp, bne_self_eq_false, Bool.false_eq_true, if_false]
    · simp only [shapeParsed, flt_nil, shapeField_multiple_of (RF := RF) hf (ms := []) rfl, hsp]

theorem project_path {RF : List FieldDesc} {acc : Parsed} {ms : List FMatch} : ∀ (fs : List FieldDesc),
    (∀ f ∈ fs, ∃ v, acc.get f.name = some v ∧ shapeField RF f (flt ms f.name) = some v) →
    ∃ p, project fs acc = .ok p ∧ shapeParsed RF fs ms = some p := by
  intro fs
  induction fs with
  | nil => intro _; exact ⟨[], rfl, rfl⟩
  | cons f fs ih =>
    intro h
    obtain ⟨v, hv, hs⟩ := h f List.mem_cons_self
    obtain ⟨p, hp, hsp⟩ := ih (fun f hf => h f (List.mem_cons_of_mem _ hf))
    exact ⟨(f.name, v) :: p, by simp only [project, hv, hp], by simp only [shapeParsed, hs, hsp]⟩

/-- a result that is the shaping of some matches by `fields` is left alone by `project fields` -/
theorem project_self {RF fields : List FieldDesc} {ms : List FMatch} {p : Parsed}
    (hn : (fields.map (·.name)).Nodup) (h : shapeParsed RF fields ms = some p) :
    project fields p = .ok p := by
  obtain ⟨p', hp', hs⟩ := project_path (RF := RF) (acc := p) (ms := ms) fields ((shapeParsed_iff hn).mp h).2
  rw [h] at hs
  cases hs
  exact hp'

theorem convertArm_go_path {RF inner : List FieldDesc} {r : Parsed} {ms : List FMatch} :
    ∀ (fs : List FieldDesc),
    (∀ f ∈ fs, hasField inner f.name = false → Arity.optional ≤ f.arity ∧ flt ms f.name = []) →
    (∀ f ∈ fs, hasField inner f.name = true →
      ∃ v, r.get f.name = some v ∧ shapeField RF f (flt ms f.name) = some v) →
    ∃ p, convertArm.go inner r fs = .ok p ∧ shapeParsed RF fs ms = some p := by
  intro fs
  induction fs with
  | nil => intro _ _; exact ⟨[], rfl, rfl⟩
  | cons f fs ih =>
    intro habs hr
    obtain ⟨p, hp, hsp⟩ := ih (fun f hf => habs f (List.mem_cons_of_mem _ hf))
      (fun f hf => hr f (List.mem_cons_of_mem _ hf))
    by_cases hin : hasField inner f.name = true
    · obtain ⟨v, hv, hs⟩ := hr f List.mem_cons_self hin
      exact ⟨(f.name, v) :: p, by simp only [convertArm.go, hin, if_true, hv, hp],
        by simp only [shapeParsed, hs, hsp]⟩
    · have hin' : hasField inner f.name = false := by simpa using hin
      obtain ⟨ho, hnil⟩ := habs f List.mem_cons_self hin'
      obtain ⟨v, hv, hs⟩ := shapeField_nil (RF := RF) ho
      exact ⟨(f.name, v) :: p,
        by simp only [convertArm.go, hin', Bool.false_eq_true, if_false, hv, hp],
        by simp only [shapeParsed, hnil, hs, hsp]⟩

/-- `Choice::generate_result_converter` = shaping of the arm's matches by the choice's fields: the
    fields the arm lacks get no match -/
theorem convertArm_path {RF fields inner : List FieldDesc} {r : Parsed} {ms : List FMatch}
    (hsub : ∀ o ∈ inner, ∃ f ∈ fields, f.name = o.name)
    (habs : ∀ f ∈ fields, hasField inner f.name = false → Arity.optional ≤ f.arity ∧ flt ms f.name = [])
    (hr : ∀ f ∈ fields, hasField inner f.name = true →
      ∃ v, r.get f.name = some v ∧ shapeField RF f (flt ms f.name) = some v) :
    ∃ p, convertArm fields inner r = .ok p ∧ shapeParsed RF fields ms = some p := by
  match fields with
  | [] => exact ⟨[], rfl, rfl⟩
  | [f] =>
    simp only [convertArm]
    cases inner with
    | nil =>
      obtain ⟨ho, hnil⟩ := habs f List.mem_cons_self (by simp [hasField])
      obtain ⟨v, hv, hs⟩ := shapeField_nil (RF := RF) ho
      exact ⟨[(f.name, v)], by simp only [List.isEmpty_nil, if_true, hv],
        by simp only [shapeParsed, hnil, hs]⟩
    | cons o inner =>
      obtain ⟨f', hf', e⟩ := hsub o List.mem_cons_self
      rw [List.mem_singleton.mp hf'] at e
      have hin : hasField (o :: inner) f.name = true := e ▸ hasField_of_mem List.mem_cons_self
      obtain ⟨v, hv, hs⟩ := hr f List.mem_cons_self hin
      exact ⟨[(f.name, v)], by simp only [List.isEmpty_cons, Bool.false_eq_true, if_false, hv],
        by simp only [shapeParsed, hs]⟩
  | f1 :: f2 :: rest =>
    simp only [convertArm]
    exact convertArm_go_path _ habs hr

/-- the accumulator of a sequence binds every seen rule field to the shaping of its matches so far -/
def AccV (RF : List FieldDesc) (seen : List String) (acc : Parsed) (cur : String → List FMatch) : Prop :=
  ∀ f ∈ RF, f.name ∈ seen → ∃ v, acc.get f.name = some v ∧ shapeField RF f (cur f.name) = some v

theorem AccV.congr {RF : List FieldDesc} {seen : List String} {acc : Parsed} {cur cur' : String → List FMatch}
    (h : AccV RF seen acc cur) (he : ∀ f ∈ RF, f.name ∈ seen → cur f.name = cur' f.name) :
    AccV RF seen acc cur' := by
  intro f hf hs
  rw [← he f hf hs]; exact h f hf hs

/-- one part of a sequence: bind on first sight (no earlier match), `extend` afterwards = shaping of
    the concatenation -/
theorem mergePart_path {RF : List FieldDesc} (hn : (RF.map (·.name)).Nodup) {r : Parsed}
    {new : String → List FMatch} :
    ∀ (fs : List FieldDesc) (seen : List String) (acc : Parsed) (cur : String → List FMatch),
      (fs.map (·.name)).Nodup →
      (∀ f ∈ fs, f ∈ RF ∧ ∃ v, r.get f.name = some v ∧ shapeField RF f (new f.name) = some v) →
      (∀ f ∈ fs, f.name ∈ seen → f.arity = .multiple) →
      (∀ f ∈ fs, f.name ∉ seen → cur f.name = []) →
      AccV RF seen acc cur →
      ∃ seen' acc', mergePart fs seen acc r = .ok (seen', acc') ∧
        AccV RF seen' acc' (fun x => if x ∈ fs.map (·.name) then cur x ++ new x else cur x) ∧
        ∀ x, x ∈ seen' ↔ x ∈ seen ∨ x ∈ fs.map (·.name) := by
  intro fs
  induction fs with
  | nil =>
    intro seen acc cur _ _ _ _ hacc
    exact ⟨seen, acc, rfl, hacc.congr (fun _ _ _ => by simp), fun x => by simp⟩
  | cons f fs ih =>
    intro seen acc cur hnd hr hm hcur hacc
    simp only [List.map_cons, List.nodup_cons] at hnd
    obtain ⟨hfRF, v, hv, hs⟩ := hr f List.mem_cons_self
    have hr' : ∀ f' ∈ fs, f' ∈ RF ∧ ∃ v, r.get f'.name = some v ∧ shapeField RF f' (new f'.name) = some v :=
      fun f' hf' => hr f' (List.mem_cons_of_mem _ hf')
    have hne : ∀ f' ∈ fs, f'.name ≠ f.name := fun f' hf' e => hnd.1 (e ▸ List.mem_map.mpr ⟨f', hf', rfl⟩)
    -- the match lists after this field
    let cur1 : String → List FMatch := fun x => if x = f.name then cur x ++ new x else cur x
    have hfin : ∀ x, (if x ∈ fs.map (·.name) then cur1 x ++ new x else cur1 x) =
        (if x ∈ (f :: fs).map (·.name) then cur x ++ new x else cur x) := by
      intro x
      simp only [List.map_cons, List.mem_cons, cur1]
      by_cases hx : x = f.name
      · have : x ∉ fs.map (·.name) := hx ▸ hnd.1
        simp [hx, hnd.1]
      · simp [hx]
    have hcur1 : ∀ f' ∈ fs, cur1 f'.name = cur f'.name := fun f' hf' => by
      simp only [cur1, if_neg (hne f' hf')]
    simp only [mergePart, hv]
    by_cases hseen : f.name ∈ seen
    · -- seen before: the field is `multiple`, `extend` appends the new matches
      have hmul := hm f List.mem_cons_self hseen
      obtain ⟨old, hold, hso⟩ := hacc f hfRF hseen
      obtain ⟨l1, rfl, hw1⟩ := shapeField_multiple hmul hso
      obtain ⟨l2, rfl, hw2⟩ := shapeField_multiple hmul hs
      have hacc' : AccV RF seen (acc.set f.name (.list (l1 ++ l2))) cur1 := by
        intro f' hf' hs'
        rw [Parsed.get_set]
        by_cases e : f.name = f'.name
        · rw [if_pos e]
          have : f = f' := eq_of_name_eq hn hfRF hf' e
          subst this
          refine ⟨_, rfl, ?_⟩
          simp only [cur1, if_true]
          exact shapeField_multiple_of hmul (wrapAll_append hw1 hw2)
        · rw [if_neg e]
          simp only [cur1, if_neg (show ¬ f'.name = f.name from fun h => e h.symm)]
          exact hacc f' hf' hs'
      obtain ⟨seen', acc', h1, h2, h3⟩ := ih seen _ cur1 hnd.2 hr'
        (fun f' hf' hs' => hm f' (List.mem_cons_of_mem _ hf') hs')
        (fun f' hf' hs' => by rw [hcur1 f' hf']; exact hcur f' (List.mem_cons_of_mem _ hf') hs') hacc'
      refine ⟨seen', acc', ?_, h2.congr (fun g _ _ => hfin g.name), fun x => ?_⟩
      · have hc : seen.contains f.name = true := by simpa using hseen
        simp only [hc, Bool.not_true, Bool.false_eq_true, if_false, hmul, bne_self_eq_false, hold,
          extendVal_list]
        exact h1
      · rw [h3]; simp only [List.map_cons, List.mem_cons]
        constructor
        · rintro (h | h)
          · exact Or.inl h
          · exact Or.inr (Or.inr h)
        · rintro (h | h | h)
          · exact Or.inl h
          · exact Or.inl (h ▸ hseen)
          · exact Or.inr h
    · -- first sight: bind; there is no earlier match of this field
      have h0 := hcur f List.mem_cons_self hseen
      have hacc' : AccV RF (f.name :: seen) (acc.set f.name v) cur1 := by
        intro f' hf' hs'
        rw [Parsed.get_set]
        by_cases e : f.name = f'.name
        · rw [if_pos e]
          have : f = f' := eq_of_name_eq hn hfRF hf' e
          subst this
          refine ⟨_, rfl, ?_⟩
          simp only [cur1, if_true, h0, List.nil_append]
          exact hs
        · rw [if_neg e]
          simp only [cur1, if_neg (show ¬ f'.name = f.name from fun h => e h.symm)]
          rcases List.mem_cons.mp hs' with h | h
          · exact absurd h.symm e
          · exact hacc f' hf' h
      obtain ⟨seen', acc', h1, h2, h3⟩ := ih (f.name :: seen) _ cur1 hnd.2 hr'
        (fun f' hf' hs' => by
          rcases List.mem_cons.mp hs' with h | h
          · exact absurd h (hne f' hf')
          · exact hm f' (List.mem_cons_of_mem _ hf') h)
        (fun f' hf' hs' => by
          rw [hcur1 f' hf']
          exact hcur f' (List.mem_cons_of_mem _ hf') (fun h => hs' (List.mem_cons_of_mem _ h))) hacc'
      refine ⟨seen', acc', ?_, h2.congr (fun g _ _ => hfin g.name), fun x => ?_⟩
      · have hc : seen.contains f.name = false := by simpa using hseen
        simp only [hc, Bool.not_false, if_true]
        exact h1
      · rw [h3]; simp only [List.map_cons, List.mem_cons]
        constructor
        · rintro ((h | h) | h)
          · exact Or.inr (Or.inl h)
          · exact Or.inl h
          · exact Or.inr (Or.inr h)
        · rintro (h | h | h)
          · exact Or.inl (Or.inr h)
          · exact Or.inl (Or.inl h)
          · exact Or.inr h

/-- the closure's `extend` statements = shaping of the appended matches -/
theorem extendAll_path {RF fields : List FieldDesc} (hmul : ∀ f ∈ fields, f.arity = .multiple)
    {r : Parsed} {new : String → List FMatch} (hr : PS RF fields new r) :
    ∀ (fs : List FieldDesc) (acc : Parsed) (cur : String → List FMatch),
      (fs.map (·.name)).Nodup → (∀ f ∈ fs, f ∈ fields) → PS RF fields cur acc →
      ∃ acc', extendAll fs acc r = .ok acc' ∧
        PS RF fields (fun x => if x ∈ fs.map (·.name) then cur x ++ new x else cur x) acc' := by
  intro fs
  induction fs with
  | nil =>
    intro acc cur _ _ h
    exact ⟨acc, rfl, h.1, fun f hf => by simpa using h.2 f hf⟩
  | cons f fs ih =>
    intro acc cur hnd hfs hacc
    simp only [List.map_cons, List.nodup_cons] at hnd
    have hf := hfs f List.mem_cons_self
    obtain ⟨va, hva, hsa⟩ := hacc.2 f hf
    obtain ⟨vb, hvb, hsb⟩ := hr.2 f hf
    obtain ⟨l1, rfl, hw1⟩ := shapeField_multiple (hmul f hf) hsa
    obtain ⟨l2, rfl, hw2⟩ := shapeField_multiple (hmul f hf) hsb
    let cur1 : String → List FMatch := fun x => if x = f.name then cur x ++ new x else cur x
    have hacc' : PS RF fields cur1 (acc.set f.name (.list (l1 ++ l2))) := by
      refine ⟨by rw [Parsed.keys_set (Parsed.mem_keys_of_get hva)]; exact hacc.1, fun f' hf' => ?_⟩
      rw [Parsed.get_set]
      by_cases e : f.name = f'.name
      · rw [if_pos e]
        refine ⟨_, rfl, ?_⟩
        simp only [cur1, ← e, if_true]
        exact shapeField_multiple_of (hmul f' hf') (wrapAll_append hw1 hw2)
      · rw [if_neg e]
        simp only [cur1, if_neg (show ¬ f'.name = f.name from fun h => e h.symm)]
        exact hacc.2 f' hf'
    obtain ⟨acc', h1, h2⟩ := ih _ cur1 hnd.2 (fun f' hf' => hfs f' (List.mem_cons_of_mem _ hf')) hacc'
    refine ⟨acc', by simp only [extendAll, hva, hvb, extendVal_list]; exact h1, h2.1, fun g hg => ?_⟩
    obtain ⟨w, hw, hsw⟩ := h2.2 g hg
    refine ⟨w, hw, ?_⟩
    have : (if g.name ∈ (f :: fs).map (·.name) then cur g.name ++ new g.name else cur g.name) =
        (if g.name ∈ fs.map (·.name) then cur1 g.name ++ new g.name else cur1 g.name) := by
      simp only [List.map_cons, List.mem_cons, cur1]
      by_cases hx : g.name = f.name
      · have : g.name ∉ fs.map (·.name) := hx ▸ hnd.1
        simp [hx, hnd.1]
      · simp [hx]
    show shapeField RF g (if g.name ∈ (f :: fs).map (·.name) then cur g.name ++ new g.name
      else cur g.name) = some w
    rw [this]; exact hsw

/-! ### simulation: `Spec.eval` (with the plumbing) computes the shaping of what `PM.eval` collects -/

namespace PM
open Spec

/-- a result of `Spec` against the outcome of `PM`: same state / failure / panic, values related -/
def RelO {α β} (V : α → β → Prop) : Res α → SOut β → Prop
  | .ok a s, y => ∃ b, y = some (.ok b s) ∧ V a b
  | .err e, y => y = some (.err e)
  | .panic m, y => y = some (.panic m)

theorem relO_eq {α} {r : Res α} {y : SOut α} : RelO Eq r y ↔ y = some r := by
  cases r with
  | ok a s =>
    constructor
    · rintro ⟨b, hb, rfl⟩; exact hb
    · intro h; exact ⟨a, h, rfl⟩
  | err e => exact Iff.rfl
  | panic m => exact Iff.rfl

theorem bindS_rel {α β α' β'} {V : α → α' → Prop} {W : β → β' → Prop} {x : SOut α} {x' : SOut α'}
    {k : α → St → SOut β} {k' : α' → St → SOut β'} {r : Res β}
    (h : bindS x k = some r) (hx : ∀ rx, x = some rx → RelO V rx x')
    (hk : ∀ a b s1 r, x = some (.ok a s1) → x' = some (.ok b s1) → V a b → k a s1 = some r →
      RelO W r (k' b s1)) :
    RelO W r (bindS x' k') := by
  cases x with
  | none => simp [bindS] at h
  | some rx =>
    have hrx := hx rx rfl
    cases rx with
    | ok a s1 =>
      obtain ⟨b, hb, hv⟩ := hrx
      simp only [bindS] at h
      rw [hb]
      exact hk a b s1 r rfl hb hv h
    | err e =>
      have hrx : x' = some (.err e) := hrx
      simp only [bindS, Option.some.injEq] at h
      rw [hrx, ← h]; rfl
    | panic m =>
      have hrx : x' = some (.panic m) := hrx
      simp only [bindS, Option.some.injEq] at h
      rw [hrx, ← h]; rfl

def SimE (env : Env) (a : Ctx → Expr → St → SOut Parsed) (b : Ctx → Expr → St → SOut (List FMatch)) : Prop :=
  ∀ ctx e own s r, (ctx.ruleFields.map (·.name)).Nodup → getFields env.g env.nf e = .ok own →
    SubFields own ctx.ruleFields → a ctx e s = some r →
    RelO (fun p ms => shapeParsed ctx.ruleFields (filterRuleFields ctx.ruleFields own) ms = some p) r (b ctx e s)

def SimR (a b : String → St → SOut Val) : Prop := ∀ name s r, a name s = some r → b name s = some r

structure Sim (env : Env) (rec : SRec) (prec : PRec) : Prop where
  expr : SimE env rec.expr prec.expr
  rule : SimR rec.rule prec.rule

section
variable {env : Env} {rec : SRec} {prec : PRec}

theorem withSkipWs_rel {α β} {W : α → β → Prop} (hsim : Sim env rec prec) {ctx : Ctx} {s : St}
    {k : St → SOut α} {k' : St → SOut β} {r : Res α}
    (h : Spec.withSkipWs rec ctx s k = some r)
    (hk : ∀ s1 r, k s1 = some r → RelO W r (k' s1)) : RelO W r (withSkipWs prec ctx s k') := by
  unfold Spec.withSkipWs at h
  unfold withSkipWs
  split at h
  · rename_i hs
    simp only [hs, if_true]
    refine bindS_rel (V := Eq) h (fun rx hx => relO_eq.mpr (hsim.rule _ _ _ hx)) ?_
    intro _ _ s1 r _ _ _ h
    exact hk s1 r h
  · rename_i hs
    simp only [hs]
    exact hk _ _ h

theorem terminal_rel {α} (hsim : Sim env rec prec) {ctx : Ctx} {s : St} {mt : St → Res α} {RF : List FieldDesc}
    {r : Res Parsed}
    (h : Spec.withSkipWs rec ctx s (fun s => some (abs ((mt s).map (fun _ => ([] : Parsed))))) = some r) :
    RelO (fun p ms => shapeParsed RF [] ms = some p) r
      (withSkipWs prec ctx s (fun s => some (abs ((mt s).map (fun _ => ([] : List FMatch)))))) := by
  refine withSkipWs_rel hsim h ?_
  intro s1 r h
  simp only [Option.some.injEq] at h
  subst h
  cases mt s1 with
  | ok a s2 => exact ⟨[], rfl, rfl⟩
  | err e => rfl
  | panic m => rfl

theorem evalSeq_err {ctx : Ctx} : ∀ ps p seen acc s e,
    Spec.evalSeq env rec ctx (p :: ps) seen acc s = some (.err e) → e = noErr := by
  intro ps
  induction ps with
  | nil =>
    intro p seen acc s e h
    simp only [Spec.evalSeq] at h
    cases hx : rec.expr ctx p s with
    | none => rw [hx] at h; simp [bindS] at h
    | some rx =>
      rw [hx] at h
      cases rx with
      | ok v s1 => simp only [bindS] at h; split at h <;> cases h
      | err e0 => simp only [bindS, Option.some.injEq, Res.err.injEq] at h; exact h.symm
      | panic m => simp [bindS] at h
  | cons q ps ih =>
    intro p seen acc s e h
    rw [Spec.evalSeq] at h
    cases hx : rec.expr ctx p s with
    | none => rw [hx] at h; simp [bindS] at h
    | some rx =>
      rw [hx] at h
      cases rx with
      | ok v s1 =>
        simp only [bindS] at h
        split at h
        · cases h
        · exact ih _ _ _ _ _ h
      | err e0 => simp only [bindS, Option.some.injEq, Res.err.injEq] at h; exact h.symm
      | panic m => simp [bindS] at h

theorem evalSeq_sim (hsim : Sim env rec prec) (hpg : PGoodE env prec.expr) {ctx : Ctx}
    (hn : (ctx.ruleFields.map (·.name)).Nodup) {parts : List Expr}
    (hparts : ∀ p ∈ parts, getFields env.g env.nf p = .ok (ownFields env p) ∧
      SubFields (ownFields env p) ctx.ruleFields)
    (hmult : ∀ pre p post f, parts = pre ++ p :: post → f ∈ ctx.ruleFields →
      hasField (ownFields env p) f.name = true →
      (∃ q ∈ pre, hasField (ownFields env q) f.name = true) → f.arity = .multiple) :
    ∀ ps pre seen acc macc s r, parts = pre ++ ps → SeenInv env ctx.ruleFields pre seen →
      AccV ctx.ruleFields seen acc (flt macc) →
      (∀ m ∈ macc, ∃ q ∈ pre, hasField (ownFields env q) m.key = true) →
      Spec.evalSeq env rec ctx ps seen acc s = some r →
      RelO (fun sa ms => SeenInv env ctx.ruleFields parts sa.1 ∧ AccV ctx.ruleFields sa.1 sa.2 (flt ms)) r
        (evalSeq prec ctx ps macc s) := by
  intro ps
  induction ps with
  | nil =>
    intro pre seen acc macc s r hpre hseen hacc _ h
    simp only [Spec.evalSeq, Option.some.injEq] at h
    rw [List.append_nil] at hpre
    subst hpre
    subst h
    exact ⟨macc, rfl, hseen, hacc⟩
  | cons p ps ih =>
    intro pre seen acc macc s r hpre hseen hacc hkeys h
    have hp : p ∈ parts := by rw [hpre]; simp
    obtain ⟨hget, hsub⟩ := hparts p hp
    simp only [Spec.evalSeq] at h
    simp only [evalSeq]
    refine bindS_rel h (fun rx hx => hsim.expr ctx p _ s rx hn hget hsub hx) ?_
    intro v mp s1 r _ hxp hv hk
    have hpo := hpg _ _ _ _ _ _ hget hxp
    have hps := (shapeParsed_iff (filterRuleFields_nodup hn _)).mp hv
    obtain ⟨seen', acc', hmp, hacc', hseen'⟩ :=
      mergePart_path hn (r := v) (new := flt mp) (filterRuleFields ctx.ruleFields (ownFields env p))
        seen acc (flt macc) (filterRuleFields_nodup hn _)
        (fun f hf => ⟨(mem_filterRuleFields.mp hf).1, hps.2 f hf⟩)
        (fun f hf hs => hmult pre p ps f hpre (mem_filterRuleFields.mp hf).1
          (mem_filterRuleFields.mp hf).2 ((hseen f.name).mp hs).2)
        (fun f hf hs => by
          refine flt_eq_nil (fun m hm e => hs ((hseen f.name).mpr
            ⟨hasField_of_mem (mem_filterRuleFields.mp hf).1, ?_⟩))
          obtain ⟨q, hq, hqx⟩ := hkeys m hm
          exact ⟨q, hq, e ▸ hqx⟩)
        hacc
    simp only [hmp] at hk
    refine ih (pre ++ [p]) seen' acc' (macc ++ mp) s1 r (by rw [hpre]; simp) ?_ ?_ ?_ hk
    · intro x
      rw [hseen', hseen x, ← hasField_iff, hasField_filterRuleFields]
      constructor
      · rintro (⟨h1, q, hq, hqx⟩ | ⟨h1, h2⟩)
        · exact ⟨h1, q, List.mem_append_left _ hq, hqx⟩
        · exact ⟨h1, p, by simp, h2⟩
      · rintro ⟨h1, q, hq, hqx⟩
        rcases List.mem_append.mp hq with hq | hq
        · exact Or.inl ⟨h1, q, hq, hqx⟩
        · rw [List.mem_singleton.mp hq] at hqx; exact Or.inr ⟨h1, hqx⟩
    · refine hacc'.congr (fun g hg _ => ?_)
      simp only [flt_append]
      split
      · rfl
      · rename_i hnot
        have hgo : hasField (ownFields env p) g.name = false := by
          cases hh : hasField (ownFields env p) g.name with
          | false => rfl
          | true =>
            exact absurd (List.mem_map.mpr ⟨g, mem_filterRuleFields.mpr ⟨hg, hh⟩, rfl⟩) hnot
        rw [flt_eq_nil_of_declared hpo.1 hgo, List.append_nil]
    · intro m hm
      rcases List.mem_append.mp hm with hm | hm
      · obtain ⟨q, hq, hqx⟩ := hkeys m hm
        exact ⟨q, List.mem_append_left _ hq, hqx⟩
      · exact ⟨p, by simp, (hpo.1 m hm).hasField⟩

theorem evalAlts_sim (hsim : Sim env rec prec) (hpg : PGoodE env prec.expr) {ctx : Ctx}
    (hn : (ctx.ruleFields.map (·.name)).Nodup) {fields : List FieldDesc}
    (hfields : ∀ f ∈ fields, f ∈ ctx.ruleFields) :
    ∀ as s r,
      (∀ a ∈ as, getFields env.g env.nf a = .ok (ownFields env a) ∧
        SubFields (ownFields env a) ctx.ruleFields ∧
        (∀ o ∈ ownFields env a, ∃ f ∈ fields, f.name = o.name) ∧
        (∀ f ∈ fields, hasField (ownFields env a) f.name = false → Arity.optional ≤ f.arity)) →
      Spec.evalAlts env rec ctx fields as s = some r →
      RelO (fun p ms => shapeParsed ctx.ruleFields fields ms = some p) r (evalAlts prec ctx as s) := by
  intro as
  induction as with
  | nil =>
    intro s r _ h
    simp only [Spec.evalAlts, Option.some.injEq] at h
    subst h; rfl
  | cons a as ih =>
    intro s r has h
    obtain ⟨hget, hsub, hin, habs⟩ := has a List.mem_cons_self
    simp only [Spec.evalAlts] at h
    simp only [evalAlts]
    split at h
    · cases h
    · rename_i r0 s0 hx
      obtain ⟨ms, hms, hv⟩ := hsim.expr ctx a _ s _ hn hget hsub hx
      have hpo := hpg _ _ _ _ _ _ hget hms
      have hps := (shapeParsed_iff (filterRuleFields_nodup hn _)).mp hv
      obtain ⟨p, hp, hsp⟩ := convertArm_path (RF := ctx.ruleFields) (fields := fields)
        (inner := ownFields env a) (r := r0) (ms := ms) hin
        (fun f hf hi => ⟨habs f hf hi, flt_eq_nil_of_declared hpo.1 hi⟩)
        (fun f hf hi => hps.2 f (mem_filterRuleFields.mpr ⟨hfields f hf, hi⟩))
      simp only [hp, Option.some.injEq] at h
      subst h
      simp only [hms]
      exact ⟨ms, rfl, hsp⟩
    · rename_i e0 hx
      have hms : prec.expr ctx a s = some (.err e0) := hsim.expr ctx a _ s _ hn hget hsub hx
      simp only [hms]
      exact ih _ _ (fun a' ha' => has a' (List.mem_cons_of_mem _ ha')) h
    · rename_i msg hx
      have hms : prec.expr ctx a s = some (.panic msg) := hsim.expr ctx a _ s _ hn hget hsub hx
      simp only [hms, Option.some.injEq] at h ⊢
      subst h; rfl

theorem evalLoop_sim {body : St → SOut Parsed} {pbody : St → SOut (List FMatch)} {RF fields : List FieldDesc}
    (hnf : (fields.map (·.name)).Nodup) (hmul : ∀ f ∈ fields, f.arity = .multiple)
    (hb : ∀ s r, body s = some r → RelO (fun p ms => shapeParsed RF fields ms = some p) r (pbody s)) :
    ∀ k iters acc macc s r, shapeParsed RF fields macc = some acc →
      Spec.evalLoop body fields k iters acc s = some r →
      RelO (fun ia im => ia.1 = im.1 ∧ shapeParsed RF fields im.2 = some ia.2) r
        (evalLoop pbody k iters macc s) := by
  intro k
  induction k with
  | zero => intro iters acc macc s r _ h; simp [Spec.evalLoop] at h
  | succ k ih =>
    intro iters acc macc s r hacc h
    simp only [Spec.evalLoop] at h
    simp only [evalLoop]
    split at h
    · cases h
    · rename_i r0 s0 hx
      obtain ⟨ms, hms, hv⟩ := hb _ _ hx
      obtain ⟨acc', he, hacc'⟩ := extendAll_path hmul (new := flt ms) ((shapeParsed_iff hnf).mp hv)
        fields acc (flt macc) hnf (fun _ h => h) ((shapeParsed_iff hnf).mp hacc)
      simp only [he] at h
      simp only [hms]
      refine ih _ _ _ _ _ ((shapeParsed_iff hnf).mpr ⟨hacc'.1, fun f hf => ?_⟩) h
      obtain ⟨w, hw, hsw⟩ := hacc'.2 f hf
      refine ⟨w, hw, ?_⟩
      simp only [if_pos (List.mem_map.mpr ⟨f, hf, rfl⟩)] at hsw
      rw [flt_append]; exact hsw
    · rename_i e0 hx
      have hms : pbody s = some (.err e0) := hb _ _ hx
      simp only [hms, Option.some.injEq] at h ⊢
      subst h
      exact ⟨(iters, macc), rfl, rfl, hacc⟩
    · rename_i msg hx
      have hms : pbody s = some (.panic msg) := hb _ _ hx
      simp only [hms, Option.some.injEq] at h ⊢
      subst h; rfl

/-- one construct -/
theorem stepExpr_sim (hsim : Sim env rec prec) (hpg : PGoodE env prec.expr) (n : Nat) :
    SimE env (Spec.stepExpr env rec n) (stepExpr env prec n) := by
  intro ctx e own s r hn hget hsub h
  cases e with
  | choice alts =>
    obtain ⟨harms, hnames, habs⟩ := getFields_choice hget
    match alts with
    | [] =>
      simp only [Spec.stepExpr, Option.some.injEq] at h
      subst h; rfl
    | [a] =>
      simp only [Spec.stepExpr] at h
      simp only [stepExpr]
      obtain ⟨h1, h2⟩ := harms a List.mem_cons_self
      have hcongr : filterRuleFields ctx.ruleFields (fieldsOf env.g env.nf a) =
          filterRuleFields ctx.ruleFields own := by
        refine filterRuleFields_congr _ (fun x => ?_)
        rw [Bool.eq_iff_iff, hnames x]
        simp
      rw [← hcongr]
      exact hsim.expr ctx a _ s r hn h1 (h2.trans hsub) h
    | a :: b :: rest =>
      simp only [Spec.stepExpr] at h
      simp only [stepExpr]
      rw [ownFields_eq hget] at h
      refine evalAlts_sim hsim hpg hn (fields := filterRuleFields ctx.ruleFields own)
        (fun f hf => (mem_filterRuleFields.mp hf).1) _ s r ?_ h
      intro a' ha'
      rw [ownFields_eq_fieldsOf]
      obtain ⟨h1, h2⟩ := harms a' ha'
      refine ⟨h1, h2.trans hsub, ?_, ?_⟩
      · intro o ho
        obtain ⟨o', ho', l1⟩ := h2 o ho
        obtain ⟨f, hf, l2⟩ := hsub o' ho'
        refine ⟨f, mem_filterRuleFields.mpr ⟨hf, ?_⟩, l2.1.trans l1.1⟩
        rw [l2.1]; exact hasField_of_mem ho'
      · intro f hf hfa
        obtain ⟨hfRF, hfo⟩ := mem_filterRuleFields.mp hf
        obtain ⟨o, ho, e⟩ := exists_of_hasField hfo
        exact Arity.le_trans (habs a' ha' f.name hfa o ho e) (rule_field_covers hn hsub hfRF ho e).2.1
  | seq parts =>
    obtain ⟨hps, hnames, htwo⟩ := getFields_seq hget
    match parts with
    | [] =>
      simp only [Spec.stepExpr, Option.some.injEq] at h
      subst h
      have : own = [] := by
        cases hne : own with
        | nil => rfl
        | cons o os =>
          have := (hnames o.name).mp (by rw [hne]; exact hasField_of_mem List.mem_cons_self)
          obtain ⟨p, hp, _⟩ := this
          cases hp
      rw [this, filterRuleFields_nil]
      exact ⟨[], rfl, rfl⟩
    | [a] =>
      simp only [Spec.stepExpr] at h
      simp only [stepExpr]
      obtain ⟨h1, h2⟩ := hps a List.mem_cons_self
      have hcongr : filterRuleFields ctx.ruleFields (fieldsOf env.g env.nf a) =
          filterRuleFields ctx.ruleFields own := by
        refine filterRuleFields_congr _ (fun x => ?_)
        rw [Bool.eq_iff_iff, hnames x]
        simp
      rw [← hcongr]
      exact hsim.expr ctx a _ s r hn h1 (h2.trans hsub) h
    | a :: b :: rest =>
      simp only [Spec.stepExpr] at h
      simp only [stepExpr]
      rw [ownFields_eq hget] at h
      have hparts : ∀ p ∈ a :: b :: rest, getFields env.g env.nf p = .ok (ownFields env p) ∧
          SubFields (ownFields env p) ctx.ruleFields := by
        intro p hp
        rw [ownFields_eq_fieldsOf]
        exact ⟨(hps p hp).1, (hps p hp).2.trans hsub⟩
      have hmult : ∀ pre p post f, a :: b :: rest = pre ++ p :: post → f ∈ ctx.ruleFields →
          hasField (ownFields env p) f.name = true →
          (∃ q ∈ pre, hasField (ownFields env q) f.name = true) → f.arity = .multiple := by
        intro pre p post f hdec hf hp hq
        simp only [ownFields_eq_fieldsOf] at hp hq
        obtain ⟨hfo, hall⟩ := htwo pre p post f.name hdec hq hp
        obtain ⟨o, ho, e⟩ := exists_of_hasField hfo
        have hle := (rule_field_covers hn hsub hf ho e).2.1
        rw [hall o ho e] at hle
        exact Arity.eq_multiple_of_le hle
      cases hx : Spec.evalSeq env rec ctx (a :: b :: rest) [] [] s with
      | none => rw [hx] at h; simp [bindS] at h
      | some rx =>
        have hrel := evalSeq_sim hsim hpg hn hparts hmult _ [] [] [] [] s rx rfl
          (fun x => by simp) (fun _ _ hx => by cases hx) (fun _ hm => by cases hm) hx
        rw [hx] at h
        cases rx with
        | ok sa s1 =>
          obtain ⟨seen, acc⟩ := sa
          obtain ⟨ms, hms, hseen, hacc⟩ := hrel
          simp only [bindS] at h
          simp only at hseen hacc
          obtain ⟨p, hp, hsp⟩ := project_path (RF := ctx.ruleFields) (acc := acc) (ms := ms)
            (filterRuleFields ctx.ruleFields own) (by
              intro f hf
              obtain ⟨hfRF, hfo⟩ := mem_filterRuleFields.mp hf
              obtain ⟨q, hq, hqx⟩ := (hnames f.name).mp hfo
              refine hacc f hfRF ((hseen f.name).mpr ⟨hasField_of_mem hfRF, q, hq, ?_⟩)
              rw [ownFields_eq_fieldsOf]; exact hqx)
          simp only [hp, Option.some.injEq] at h
          subst h
          exact ⟨ms, hms, hsp⟩
        | err e0 =>
          have he := evalSeq_err _ _ _ _ _ _ hx
          subst he
          simp only [bindS, Option.some.injEq] at h
          subst h
          exact hrel
        | panic msg =>
          simp only [bindS, Option.some.injEq] at h
          subst h
          exact hrel
  | group b =>
    simp only [Spec.stepExpr] at h
    simp only [stepExpr]
    exact hsim.expr ctx b own s r hn (getFields_group_inv hget) hsub h
  | opt b =>
    obtain ⟨fs, hb, rfl⟩ := getFields_opt_inv hget
    have hcongr : filterRuleFields ctx.ruleFields fs = filterRuleFields ctx.ruleFields
        (fs.map fun f => { f with arity := toOptional f.arity }) :=
      filterRuleFields_congr _ (fun x => (hasField_map_arity fs toOptional x).symm)
    rw [← hcongr]
    have hsubb : SubFields fs ctx.ruleFields := (subFields_opt fs).trans hsub
    simp only [Spec.stepExpr] at h
    simp only [stepExpr]
    split at h
    · cases h
    · rename_i r0 s0 hx
      obtain ⟨ms, hms, hv⟩ := hsim.expr ctx b fs s _ hn hb hsubb hx
      simp only [Option.some.injEq] at h
      subst h
      simp only [hms]
      exact ⟨ms, rfl, hv⟩
    · rename_i e0 hx
      have hms : prec.expr ctx b s = some (.err e0) := hsim.expr ctx b fs s _ hn hb hsubb hx
      rw [ownFields_eq hb] at h
      obtain ⟨p, hp, hsp⟩ := defaults_path (RF := ctx.ruleFields) (filterRuleFields ctx.ruleFields fs) (by
        intro f hf
        obtain ⟨hfRF, hfo⟩ := mem_filterRuleFields.mp hf
        obtain ⟨o, ho, e⟩ := exists_of_hasField hfo
        have ho' : ({ o with arity := toOptional o.arity } : FieldDesc) ∈
            fs.map (fun f => { f with arity := toOptional f.arity }) := List.mem_map.mpr ⟨o, ho, rfl⟩
        exact Arity.le_trans (optional_le_toOptional o.arity) (rule_field_covers hn hsub hfRF ho' e).2.1)
      simp only [hp, Option.some.injEq] at h
      subst h
      simp only [hms]
      exact ⟨[], rfl, hsp⟩
    · rename_i msg hx
      have hms : prec.expr ctx b s = some (.panic msg) := hsim.expr ctx b fs s _ hn hb hsubb hx
      simp only [Option.some.injEq] at h
      subst h
      simp only [hms]
      rfl
  | closure b atLeastOne =>
    obtain ⟨fs, hb, rfl⟩ := getFields_closure_inv hget
    have hcongr : filterRuleFields ctx.ruleFields fs = filterRuleFields ctx.ruleFields
        (fs.map fun f => { f with arity := .multiple }) :=
      filterRuleFields_congr _ (fun x => (hasField_map_arity fs (fun _ => .multiple) x).symm)
    rw [← hcongr]
    have hsubb : SubFields fs ctx.ruleFields := (subFields_closure fs).trans hsub
    have hmul : ∀ f ∈ filterRuleFields ctx.ruleFields fs, f.arity = .multiple := by
      intro f hf
      obtain ⟨hfRF, hfo⟩ := mem_filterRuleFields.mp hf
      obtain ⟨o, ho, e⟩ := exists_of_hasField hfo
      have ho' : ({ o with arity := .multiple } : FieldDesc) ∈
          fs.map (fun f => { f with arity := .multiple }) := List.mem_map.mpr ⟨o, ho, rfl⟩
      exact Arity.eq_multiple_of_le (rule_field_covers hn hsub hfRF ho' e).2.1
    simp only [Spec.stepExpr] at h
    simp only [stepExpr]
    rw [ownFields_eq hb] at h
    obtain ⟨init, hinit, hsi⟩ := closureInit_path (RF := ctx.ruleFields) _ hmul
    simp only [hinit] at h
    refine bindS_rel h (fun rx hx =>
      evalLoop_sim (filterRuleFields_nodup hn fs) hmul
        (fun s r hbs => hsim.expr ctx b fs s r hn hb hsubb hbs) n 0 init [] s rx hsi hx) ?_
    intro ia im s1 r _ _ hv hk
    obtain ⟨iters, acc⟩ := ia
    obtain ⟨iters', macc⟩ := im
    simp only at hv hk ⊢
    obtain ⟨rfl, hv⟩ := hv
    split at hk
    · rename_i hc
      simp only [Option.some.injEq] at hk
      subst hk
      simp only [if_pos hc]
      rfl
    · rename_i hc
      simp only [Option.some.injEq] at hk
      subst hk
      simp only [if_neg hc]
      exact ⟨macc, rfl, hv⟩
  | neg b =>
    obtain ⟨hb, rfl⟩ := getFields_neg_inv hget
    rw [filterRuleFields_nil]
    simp only [Spec.stepExpr] at h
    simp only [stepExpr]
    split at h
    · cases h
    · rename_i r0 s0 hx
      obtain ⟨ms, hms, _⟩ := hsim.expr ctx b [] s _ hn hb (SubFields.nil _) hx
      simp only [Option.some.injEq] at h
      subst h
      simp only [hms]
      rfl
    · rename_i e0 hx
      have hms : prec.expr ctx b s = some (.err e0) := hsim.expr ctx b [] s _ hn hb (SubFields.nil _) hx
      simp only [Option.some.injEq] at h
      subst h
      simp only [hms]
      exact ⟨[], rfl, rfl⟩
    · rename_i msg hx
      have hms : prec.expr ctx b s = some (.panic msg) := hsim.expr ctx b [] s _ hn hb (SubFields.nil _) hx
      simp only [Option.some.injEq] at h
      subst h
      simp only [hms]
      rfl
  | pos b =>
    obtain ⟨hb, rfl⟩ := getFields_pos_inv hget
    rw [filterRuleFields_nil]
    simp only [Spec.stepExpr] at h
    simp only [stepExpr]
    refine bindS_rel h (fun rx hx => hsim.expr ctx b [] s rx hn hb (SubFields.nil _) hx) ?_
    intro _ _ s1 r _ _ _ hk
    simp only [Option.some.injEq] at hk
    subst hk
    exact ⟨[], rfl, rfl⟩
  | range lo hi =>
    rw [getFields_terminal_inv (Or.inl ⟨_, _, rfl⟩) hget, filterRuleFields_nil]
    simp only [Spec.stepExpr] at h
    simp only [stepExpr]
    split at h
    · rename_i lo' hi' hlo hhi
      simp only [hlo, hhi]
      exact terminal_rel hsim (mt := fun s => parseCharacterRange s lo' hi') h
    · rename_i hne
      simp only [Option.some.injEq] at h
      subst h
      split
      · rename_i lo' hi' hlo hhi; exact (hne _ _ hlo hhi).elim
      · rfl
  | lit ins body =>
    rw [getFields_terminal_inv (Or.inr (Or.inl ⟨_, _, rfl⟩)) hget, filterRuleFields_nil]
    simp only [Spec.stepExpr] at h
    simp only [stepExpr]
    split at h
    · rename_i m hm
      simp only [hm]
      cases m with
      | charLit c => exact terminal_rel hsim (mt := fun s => parseCharacterLiteral s c) h
      | strLit l => exact terminal_rel hsim (mt := fun s => parseStringLiteral s l) h
      | charLitI c => exact terminal_rel hsim (mt := fun s => parseCharacterLiteralInsensitive s c) h
      | strLitI l => exact terminal_rel hsim (mt := fun s => parseStringLiteralInsensitive s l) h
    · rename_i hne
      simp only [Option.some.injEq] at h
      subst h
      split
      · rename_i m hm; exact (hne _ hm).elim
      · rfl
  | eoi =>
    rw [getFields_terminal_inv (Or.inr (Or.inr (Or.inl rfl))) hget, filterRuleFields_nil]
    simp only [Spec.stepExpr] at h
    simp only [stepExpr]
    exact terminal_rel hsim (mt := parseEndOfInput) h
  | incl rn =>
    obtain ⟨rule, hr, hdef⟩ := getFields_incl_inv hget
    simp only [Spec.stepExpr, hr] at h
    simp only [stepExpr, hr]
    exact hsim.expr ctx rule.definition own s r hn hdef hsub h
  | field name boxed typ =>
    simp only [Spec.stepExpr] at h
    simp only [stepExpr]
    refine withSkipWs_rel hsim h ?_
    intro s1 r h
    refine bindS_rel (V := Eq) h (fun rx hx => relO_eq.mpr (hsim.rule _ _ _ hx)) ?_
    intro v v' s2 r _ _ hvv hk
    subst hvv
    cases name with
    | none =>
      rw [getFields_terminal_inv (Or.inr (Or.inr (Or.inr ⟨_, _, rfl⟩))) hget, filterRuleFields_nil]
      simp only [Option.some.injEq] at hk
      subst hk
      exact ⟨[], rfl, rfl⟩
    | some nm =>
      have hown := getFields_field_inv hget
      subst hown
      obtain ⟨f, hf, hname, _, hty⟩ := hsub _ List.mem_cons_self
      simp only at hname hty hk
      obtain ⟨t', ht', e', _⟩ := hty (typ, boxed) List.mem_cons_self
      rw [← hname] at hk
      obtain ⟨fv, hfv, hs⟩ := postprocessField_path hn hf ⟨t', ht', e'⟩ v
      simp only [hfv, Option.some.injEq] at hk
      subst hk
      rw [filterRuleFields_singleton hn hf (o := ⟨nm.key, [(typ, boxed)], .one⟩) hname.symm]
      refine ⟨_, rfl, ?_⟩
      have hflt : flt [(⟨nm.key, typ, v⟩ : FMatch)] f.name = [⟨f.name, typ, v⟩] := by
        simp [flt, hname]
      simp only [shapeParsed, hflt, hs]

/-! ### rule wrappers -/

theorem charParts_sim (hr : SimR rec.rule prec.rule) :
    ∀ ps s r, Spec.charParts rec ps s = some r → Spec.charParts prec.toS ps s = some r := by
  intro ps
  induction ps with
  | nil => intro s r h; simpa [Spec.charParts] using h
  | cons p ps ih =>
    intro s r h
    cases p with
    | chr item =>
      simp only [Spec.charParts] at h ⊢
      split at h
      · cases h
      · exact h
      · exact ih _ _ h
      · exact h
    | range lo hi =>
      simp only [Spec.charParts] at h ⊢
      split at h
      · cases h
      · exact h
      · exact ih _ _ h
      · exact h
    | ident id =>
      simp only [Spec.charParts] at h ⊢
      have hrule : ∀ x, rec.rule id s = some x → prec.toS.rule id s = some x := fun x hx => hr _ _ _ hx
      split at h
      · cases h
      · rename_i hx; rw [hrule _ hx]; exact h
      · rename_i hx; rw [hrule _ hx]; exact ih _ _ h
      · rename_i hx; rw [hrule _ hx]; exact h

theorem ruleBody_sim (hsim : Sim env rec prec) {u : Nat} {r0 : Rule} {s : St} {r : Res Val}
    (h : Spec.ruleBody env u rec r0 s = some r) : ruleBody env u prec r0 s = some r := by
  unfold Spec.ruleBody at h
  unfold ruleBody
  split at h
  · rename_i fields hf
    simp only [hf]
    have hn := getFields_nodup hf
    have hexpr : ∀ skip rx, rec.expr ⟨skip, fields⟩ r0.definition s = some rx →
        RelO (fun p ms => shapeParsed fields fields ms = some p) rx
          (prec.expr ⟨skip, fields⟩ r0.definition s) := by
      intro skip rx hx
      have := hsim.expr ⟨skip, fields⟩ r0.definition fields s rx hn hf (SubFields.refl _) hx
      rw [filterRuleFields_self] at this
      exact this
    simp only at h ⊢
    split at h
    · rename_i hc
      simp only [hc, if_true]
      refine relO_eq.mp (bindS_rel h (fun rx hx => hexpr _ rx hx) ?_)
      intro _ _ s1 r _ _ _ hk
      exact relO_eq.mpr hk
    · rename_i hc
      simp only [hc]
      split at h
      · rename_i hc2
        simp only [hc2, if_true]
        refine relO_eq.mp (bindS_rel h (fun rx hx => hexpr _ rx hx) ?_)
        intro p ms s1 r _ _ hv hk
        simp only [hv, Option.bind_some]
        -- the single field is `_override`, and the shaped result binds it
        have hget : ∃ v, p.get "_override" = some v := by
          have hps := (shapeParsed_iff hn).mp hv
          cases fields with
          | nil => simp at hc2
          | cons f fs =>
            simp only [List.head?_cons, Option.map_some, Bool.and_eq_true, beq_iff_eq,
              Option.some.injEq] at hc2
            obtain ⟨v, hv, _⟩ := hps.2 f List.mem_cons_self
            exact ⟨v, hc2.2 ▸ hv⟩
        obtain ⟨v, hv'⟩ := hget
        simp only [hv'] at hk ⊢
        exact relO_eq.mpr hk
      · rename_i hc2
        simp only [hc2]
        split at h
        · rename_i hc3
          simp only [hc3, if_true]
          exact h
        · rename_i hc3
          simp only [hc3]
          refine relO_eq.mp (bindS_rel h (fun rx hx => hexpr _ rx hx) ?_)
          intro p ms s1 r _ _ hv hk
          simp only [hv, project_self hn hv] at hk ⊢
          exact relO_eq.mpr hk
  · rename_i hne
    split
    · rename_i fields hf; exact absurd hf (hne fields)
    · exact h

theorem stepRule_sim (hsim : Sim env rec prec) {u : Nat} :
    SimR (Spec.stepRule env u rec) (stepRule env u prec) := by
  intro name s r h
  unfold Spec.stepRule at h
  unfold stepRule
  split at h
  · rename_i r0 heq
    simp only [heq]
    exact ruleBody_sim hsim h
  · rename_i cr heq
    simp only [heq]
    unfold Spec.charRule at h ⊢
    split at h
    · rename_i hc; rw [if_pos hc]; exact charParts_sim hsim.rule _ _ _ h
    · rename_i hc; rw [if_neg hc]
      split at h
      · exact h
      · split at h
        · rename_i hc2; rw [if_pos hc2]; exact charParts_sim hsim.rule _ _ _ h
        · rename_i hc2; rw [if_neg hc2]; exact h
  · rename_i er heq
    simp only [heq]
    exact h
  · rename_i heq
    simp only [heq]
    exact h

end

/-- the two reference semantics are in simulation, fuel by fuel -/
theorem eval_sim (env : Env) (u : Nat) : ∀ n, Sim env (Spec.eval env u n) (eval env u n) := by
  intro n
  induction n with
  | zero =>
    exact ⟨fun _ _ _ _ _ _ _ _ h => by simp [Spec.eval] at h, fun _ _ _ h => by simp [Spec.eval] at h⟩
  | succ n ih => exact ⟨stepExpr_sim ih (eval_pgood env u n) n, stepRule_sim ih⟩

end PM

/-! ### fuel monotonicity of `PM.eval`: its answer, when defined, is unique -/

namespace PM
open Spec

def LeE (a b : Ctx → Expr → St → SOut (List FMatch)) : Prop :=
  ∀ ctx e s r, a ctx e s = some r → b ctx e s = some r

structure Le (a b : PRec) : Prop where
  expr : LeE a.expr b.expr
  rule : Spec.LeR a.rule b.rule

theorem Le.toS {a b : PRec} (h : Le a b) : Spec.Le a.toS b.toS :=
  ⟨fun _ _ _ _ hx => (by cases hx), h.rule⟩

theorem withSkipWs_le {α} {rec rec' : PRec} (hle : Le rec rec') {ctx s} {k k' : St → SOut α} {r}
    (hk : ∀ s r, k s = some r → k' s = some r)
    (h : withSkipWs rec ctx s k = some r) : withSkipWs rec' ctx s k' = some r := by
  unfold withSkipWs at h ⊢
  split
  · rename_i hs
    simp only [hs, if_true] at h
    exact bindS_le (fun a ha => hle.rule _ _ _ ha) (fun _ s r h => hk s r h) h
  · rename_i hs
    simp only [hs] at h
    exact hk _ _ h

theorem evalSeq_le {rec rec' : PRec} (hle : Le rec rec') {ctx} :
    ∀ ps acc s r, evalSeq rec ctx ps acc s = some r → evalSeq rec' ctx ps acc s = some r := by
  intro ps
  induction ps with
  | nil => intro acc s r h; simpa [evalSeq] using h
  | cons p ps ih =>
    intro acc s r h
    simp only [evalSeq] at h ⊢
    exact bindS_le (fun a ha => hle.expr _ _ _ _ ha) (fun v s' r' h' => ih _ _ _ h') h

theorem evalAlts_le {rec rec' : PRec} (hle : Le rec rec') {ctx} :
    ∀ as s r, evalAlts rec ctx as s = some r → evalAlts rec' ctx as s = some r := by
  intro as
  induction as with
  | nil => intro s r h; simpa [evalAlts] using h
  | cons a as ih =>
    intro s r h
    simp only [evalAlts] at h ⊢
    split at h
    · cases h
    · rename_i r0 s0 hx; rw [hle.expr _ _ _ _ hx]; exact h
    · rename_i e0 hx; rw [hle.expr _ _ _ _ hx]; exact ih _ _ h
    · rename_i m0 hx; rw [hle.expr _ _ _ _ hx]; exact h

theorem evalLoop_le {body body' : St → SOut (List FMatch)}
    (hb : ∀ s r, body s = some r → body' s = some r) :
    ∀ k k' iters acc s r, k ≤ k' → evalLoop body k iters acc s = some r →
      evalLoop body' k' iters acc s = some r := by
  intro k
  induction k with
  | zero => intro k' iters acc s r _ h; simp [evalLoop] at h
  | succ k ih =>
    intro k' iters acc s r hk h
    obtain ⟨k'', rfl⟩ : ∃ k'', k' = k'' + 1 := ⟨k' - 1, by omega⟩
    simp only [evalLoop] at h ⊢
    split at h
    · cases h
    · rename_i r0 s0 hx
      rw [hb _ _ hx]
      exact ih _ _ _ _ _ (by omega) h
    · rename_i e0 hx; rw [hb _ _ hx]; exact h
    · rename_i m0 hx; rw [hb _ _ hx]; exact h

theorem stepExpr_le {env} {rec rec' : PRec} (hle : Le rec rec') {n m : Nat} (hnm : n ≤ m) :
    LeE (stepExpr env rec n) (stepExpr env rec' m) := by
  intro ctx e s r h
  cases e with
  | choice alts =>
    match alts with
    | [] => simpa [stepExpr] using h
    | [a] => simp only [stepExpr] at h ⊢; exact hle.expr _ _ _ _ h
    | a :: b :: rest => simp only [stepExpr] at h ⊢; exact evalAlts_le hle _ _ _ h
  | seq parts =>
    match parts with
    | [] => simpa [stepExpr] using h
    | [a] => simp only [stepExpr] at h ⊢; exact hle.expr _ _ _ _ h
    | a :: b :: rest => simp only [stepExpr] at h ⊢; exact evalSeq_le hle _ _ _ _ h
  | group b => simp only [stepExpr] at h ⊢; exact hle.expr _ _ _ _ h
  | opt b =>
    simp only [stepExpr] at h ⊢
    split at h
    · cases h
    · rename_i hx; rw [hle.expr _ _ _ _ hx]; exact h
    · rename_i hx; rw [hle.expr _ _ _ _ hx]; exact h
    · rename_i hx; rw [hle.expr _ _ _ _ hx]; exact h
  | closure b plus =>
    simp only [stepExpr] at h ⊢
    exact bindS_le (fun x hx => evalLoop_le (fun s r => hle.expr _ _ _ _) _ _ _ _ _ _ hnm hx)
      (fun _ _ _ h => h) h
  | neg b =>
    simp only [stepExpr] at h ⊢
    split at h
    · cases h
    · rename_i hx; rw [hle.expr _ _ _ _ hx]; exact h
    · rename_i hx; rw [hle.expr _ _ _ _ hx]; exact h
    · rename_i hx; rw [hle.expr _ _ _ _ hx]; exact h
  | pos b =>
    simp only [stepExpr] at h ⊢
    exact bindS_le (fun x hx => hle.expr _ _ _ _ hx) (fun _ _ _ h => h) h
  | range lo hi =>
    simp only [stepExpr] at h ⊢
    split at h
    · exact withSkipWs_le hle (fun _ _ h => h) h
    · exact h
  | lit ins body =>
    simp only [stepExpr] at h ⊢
    split at h
    · exact withSkipWs_le hle (fun _ _ h => h) h
    · exact h
  | eoi =>
    simp only [stepExpr] at h ⊢
    exact withSkipWs_le hle (fun _ _ h => h) h
  | incl r0 =>
    simp only [stepExpr] at h ⊢
    split at h
    · exact h
    · exact hle.expr _ _ _ _ h
  | field name boxed typ =>
    simp only [stepExpr] at h ⊢
    refine withSkipWs_le hle ?_ h
    intro s r h
    exact bindS_le (fun x hx => hle.rule _ _ _ hx) (fun _ _ _ h => h) h

theorem ruleBody_le {env u} {rec rec' : PRec} (hle : Le rec rec') {r0 : Rule} {s r}
    (h : ruleBody env u rec r0 s = some r) : ruleBody env u rec' r0 s = some r := by
  unfold ruleBody at h ⊢
  split at h
  · simp only
    simp only at h
    split at h
    · rename_i hc; simp only [hc, if_true]
      exact bindS_le (fun x hx => hle.expr _ _ _ _ hx) (fun _ _ _ h => h) h
    · rename_i hc; simp only [hc]
      split at h
      · rename_i hc2; simp only [hc2, if_true]
        exact bindS_le (fun x hx => hle.expr _ _ _ _ hx) (fun _ _ _ h => h) h
      · rename_i hc2; simp only [hc2]
        split at h
        · rename_i hc3; simpa [hc3] using h
        · rename_i hc3; simp only [hc3]
          exact bindS_le (fun x hx => hle.expr _ _ _ _ hx) (fun _ _ _ h => h) h
  · exact h

theorem stepRule_le {env u} {rec rec' : PRec} (hle : Le rec rec') :
    Spec.LeR (stepRule env u rec) (stepRule env u rec') := by
  intro name s r h
  unfold stepRule at h ⊢
  split at h
  · exact ruleBody_le hle h
  · rename_i cr _
    unfold Spec.charRule at h ⊢
    split at h
    · rename_i hc; rw [if_pos hc]; exact charParts_le hle.toS _ _ _ h
    · rename_i hc; rw [if_neg hc]
      split at h
      · exact h
      · split at h
        · rename_i hc2; rw [if_pos hc2]; exact charParts_le hle.toS _ _ _ h
        · rename_i hc2; rw [if_neg hc2]; exact h
  · exact h
  · exact h

theorem step_le {env u} {rec rec' : PRec} (hle : Le rec rec') {n m : Nat} (hnm : n ≤ m) :
    Le (step env u rec n) (step env u rec' m) :=
  ⟨stepExpr_le hle hnm, stepRule_le hle⟩

theorem eval_le_succ (env : Env) (u : Nat) : ∀ n, Le (eval env u n) (eval env u (n + 1)) := by
  intro n
  induction n with
  | zero => exact ⟨fun _ _ _ _ h => by simp [eval] at h, fun _ _ _ h => by simp [eval] at h⟩
  | succ n ih => exact step_le ih (Nat.le_succ n)

theorem Le.refl (a : PRec) : Le a a := ⟨fun _ _ _ _ h => h, fun _ _ _ h => h⟩
theorem Le.trans {a b c : PRec} (h1 : Le a b) (h2 : Le b c) : Le a c :=
  ⟨fun _ _ _ _ h => h2.expr _ _ _ _ (h1.expr _ _ _ _ h), fun _ _ _ h => h2.rule _ _ _ (h1.rule _ _ _ h)⟩

/-- fuel monotonicity of `PM.eval` -/
theorem eval_mono (env : Env) (u : Nat) {n m : Nat} (h : n ≤ m) : Le (eval env u n) (eval env u m) := by
  induction m with
  | zero => have : n = 0 := by omega
            subst this; exact Le.refl _
  | succ m ih =>
    by_cases hnm : n ≤ m
    · exact Le.trans (ih hnm) (eval_le_succ env u m)
    · have : n = m + 1 := by omega
      subst this; exact Le.refl _

/-- the `PM` answer is unique: two fuels that both answer give the same answer -/
theorem eval_rule_det (env : Env) (u : Nat) {n m : Nat} {name s r r'}
    (h : (eval env u n).rule name s = some r) (h' : (eval env u m).rule name s = some r') : r = r' := by
  have h1 := (eval_mono env u (Nat.le_max_left n m)).rule _ _ _ h
  have h2 := (eval_mono env u (Nat.le_max_right n m)).rule _ _ _ h'
  rw [h1] at h2
  exact Option.some.inj h2

theorem eval_expr_det (env : Env) (u : Nat) {n m : Nat} {ctx e s r r'}
    (h : (eval env u n).expr ctx e s = some r) (h' : (eval env u m).expr ctx e s = some r') : r = r' := by
  have h1 := (eval_mono env u (Nat.le_max_left n m)).expr _ _ _ _ h
  have h2 := (eval_mono env u (Nat.le_max_right n m)).expr _ _ _ _ h'
  rw [h1] at h2
  exact Option.some.inj h2

end PM

/-! ### main theorems -/

open Spec

/-- **C02, expression level.**  In a context whose rule fields are duplicate-free and cover the own
    fields of `e`, a successful evaluation of `e` by the reference semantics *with the generated field
    plumbing* returns exactly the shaping – by the rule-level descriptors – of the field matches that
    `PM.eval` collects along the successful path (same end state); moreover these matches fit the
    local analysis of `e` (`PathOk`: every match is declared, and a field of local arity `one` /
    `optional` / `multiple` has exactly one / at most one / any number of matches). -/
theorem C02_tree (env : Env) (u n : Nat) {ctx : Ctx} {e : Expr} {own : List FieldDesc} {s s' : St}
    {p : Parsed}
    (hn : (ctx.ruleFields.map (·.name)).Nodup)
    (hget : getFields env.g env.nf e = .ok own)
    (hsub : SubFields own ctx.ruleFields)
    (h : (Spec.eval env u n).expr ctx e s = some (.ok p s')) :
    ∃ ms, (PM.eval env u n).expr ctx e s = some (.ok ms s') ∧
      shapeParsed ctx.ruleFields (filterRuleFields ctx.ruleFields own) ms = some p ∧
      PathOk own ms := by
  obtain ⟨ms, hms, hv⟩ := (PM.eval_sim env u n).expr ctx e own s _ hn hget hsub h
  exact ⟨ms, hms, hv, PM.eval_pgood env u n _ _ _ _ _ _ hget hms⟩

/-- failures and panics of expressions coincide -/
theorem C02_tree_fail (env : Env) (u n : Nat) {ctx : Ctx} {e : Expr} {own : List FieldDesc} {s : St}
    (hn : (ctx.ruleFields.map (·.name)).Nodup)
    (hget : getFields env.g env.nf e = .ok own)
    (hsub : SubFields own ctx.ruleFields) :
    (∀ err, (Spec.eval env u n).expr ctx e s = some (.err err) →
      (PM.eval env u n).expr ctx e s = some (.err err)) ∧
    (∀ msg, (Spec.eval env u n).expr ctx e s = some (.panic msg) →
      (PM.eval env u n).expr ctx e s = some (.panic msg)) :=
  ⟨fun _ h => (PM.eval_sim env u n).expr ctx e own s _ hn hget hsub h,
   fun _ h => (PM.eval_sim env u n).expr ctx e own s _ hn hget hsub h⟩

/-- the hypotheses of `C02_tree` hold for the definition of a rule in the rule's own context -/
theorem C02_rule_definition (env : Env) (u n : Nat) {r0 : Rule} {fields : List FieldDesc} (skip : Bool)
    {s s' : St} {p : Parsed}
    (hget : getFields env.g env.nf r0.definition = .ok fields)
    (h : (Spec.eval env u n).expr ⟨skip, fields⟩ r0.definition s = some (.ok p s')) :
    ∃ ms, (PM.eval env u n).expr ⟨skip, fields⟩ r0.definition s = some (.ok ms s') ∧
      shapeParsed fields fields ms = some p ∧ PathOk fields ms := by
  have := C02_tree env u n (ctx := ⟨skip, fields⟩) (getFields_nodup hget) hget (SubFields.refl _) h
  rw [filterRuleFields_self] at this
  exact this

/-- **C02, rule level.**  The reference semantics with the generated plumbing and the reference
    semantics that only collects the matches of the successful path and shapes them once, by the
    rule-level arities, give the same answer on every rule, from every state, at every fuel: same
    value, same end state; failures and panics coincide.  No hypothesis on the grammar. -/
theorem C02_rule (env : Env) (u n : Nat) {name : String} {s : St} {r : Res Val}
    (h : (Spec.eval env u n).rule name s = some r) : (PM.eval env u n).rule name s = some r :=
  (PM.eval_sim env u n).rule name s r h

theorem C02_parse_spec (env : Env) (u n : Nat) {rule : String} {inp : List UInt8} {r : Res Val}
    (h : Spec.parse env u n rule inp = some r) : PM.parse env u n rule inp = some r :=
  C02_rule env u n h

/-- **C02 for the model of the generated parser.**  Whatever `parse_advanced` answers (any set of
    memoized rules; user functions that leave the user context alone; no `@leftrec`) is the answer of
    `PM.eval`: in particular a returned tree is, node by node, the shaping of the field matches on
    the successful path. -/
theorem C02_parse_res (env : Env) (hp : PureHooks env.hooks) (hnl : NoLeftrec env.g)
    (rule : String) (inp : List UInt8) (u n : Nat) {r : Res Val} {g : Global}
    (h : parseAdvanced env n rule inp u = some (r, g)) :
    ∃ m, PM.parse env u m rule inp = some (abs r) := by
  have hw : WfSt inp (St.new inp) := by simp [WfSt, St.new]
  have hg : Good env u inp (Global.init u) :=
    ⟨rfl, fun name off r hl => by simp [Global.init, Global.lookup] at hl⟩
  obtain ⟨⟨m0, h0⟩, _, _⟩ :=
    (eval_ref (inp := inp) hp hnl n).rule rule (St.new inp) (Global.init u) r g h hw hg
  exact ⟨m0, C02_rule env u m0 (h0 m0 (Nat.le_refl _))⟩

theorem C02_parse (env : Env) (hp : PureHooks env.hooks) (hnl : NoLeftrec env.g)
    (rule : String) (inp : List UInt8) (u n : Nat) {v : Val} {s : St} {g : Global}
    (h : parseAdvanced env n rule inp u = some (.ok v s, g)) :
    ∃ m, PM.parse env u m rule inp = some (.ok v (clr s)) :=
  C02_parse_res env hp hnl rule inp u n h

/-- … and since the `PM` answer is unique (`PM.eval_rule_det`), *every* answer of `PM` – at whatever
    fuel – is the answer of the generated parser -/
theorem C02_parse_unique (env : Env) (hp : PureHooks env.hooks) (hnl : NoLeftrec env.g)
    (rule : String) (inp : List UInt8) (u n m : Nat) {r r' : Res Val} {g : Global}
    (h : parseAdvanced env n rule inp u = some (r, g))
    (h' : PM.parse env u m rule inp = some r') : r' = abs r := by
  obtain ⟨m0, h0⟩ := C02_parse_res env hp hnl rule inp u n h
  exact PM.eval_rule_det env u h' h0

/-! ### reading `PM`: what the tree of a successful rule contains -/

theorem runChecks_ok_inv {env : Env} {u : Nat} : ∀ (fs : List (List String)) {v v' : Val} {s s' : St},
    Spec.runChecks env u fs v s = some (.ok v' s') → v' = v ∧ s' = s := by
  intro fs
  induction fs with
  | nil =>
    intro v v' s s' h
    simp only [Spec.runChecks, Option.some.injEq, Res.ok.injEq] at h
    exact ⟨h.1.symm, h.2.symm⟩
  | cons f fs ih =>
    intro v v' s s' h
    simp only [Spec.runChecks] at h
    split at h
    · cases h
    · exact ih h

/-- a struct rule: the node's field list is the shaping, by the rule's own descriptors, of the
    matches on the successful path through the rule's definition -/
theorem PM.ruleBody_node {env : Env} {u : Nat} {rec : PM.PRec} {r0 : Rule} {fields : List FieldDesc}
    {s s' : St} {v : Val}
    (hget : getFields env.g env.nf r0.definition = .ok fields)
    (hstr : r0.flags.string = false) (hov : hasField fields "_override" = false)
    (h : PM.ruleBody env u rec r0 s = some (.ok v s')) :
    ∃ ms fs, rec.expr ⟨env.settings.skipWhitespace && !r0.flags.noSkipWs, fields⟩ r0.definition s
        = some (.ok ms s') ∧
      shapeParsed fields fields ms = some fs ∧
      v = .node r0.name fs (if r0.flags.position then some (s.off, s'.off) else none) := by
  unfold PM.ruleBody at h
  simp only [hget, hstr, Bool.false_eq_true, if_false, hov] at h
  have hc : ¬ ((fields.length == 1 && (fields.head?.map (·.name)) == some "_override") = true) := by
    intro hc
    cases fields with
    | nil => simp at hc
    | cons f fs =>
      simp only [List.head?_cons, Option.map_some, Bool.and_eq_true, beq_iff_eq, Option.some.injEq] at hc
      have := hasField_of_mem (fs := f :: fs) List.mem_cons_self
      rw [hc.2, hov] at this
      cases this
  simp only [hc] at h
  obtain ⟨ms, s1, hx, h⟩ := PM.bindS_ok_inv h
  split at h
  · rename_i fs hfs
    obtain ⟨rfl, rfl⟩ := runChecks_ok_inv _ h
    exact ⟨ms, fs, hx, hfs, rfl⟩
  · cases h

/-- … and field by field: the node has exactly the rule's fields, in declaration order, and field
    `f` holds the shaping of the path matches whose key is `f`, in path (= input) order:
    exactly one match for arity `one`, `None` / `Some` of at most one for `optional`, the `Vec` of all of
    them for `multiple` (see `shapeField`) -/
theorem shapeParsed_fields {fields : List FieldDesc} {ms : List FMatch} {fs : Parsed}
    (hn : (fields.map (·.name)).Nodup) (h : shapeParsed fields fields ms = some fs) :
    fs.map (·.1) = fields.map (·.name) ∧
    ∀ f ∈ fields, ∃ v, fs.get f.name = some v ∧
      shapeField fields f (ms.filter (·.key == f.name)) = some v :=
  (shapeParsed_iff hn).mp h

/-- a field that several rule types can fill carries the variant of the rule that matched -/
theorem wrapMatch_variant {RF : List FieldDesc} {m : FMatch} {f : FieldDesc} {w : Val}
    (hf : findField RF m.key = some f) (hlen : f.types.length > 1) (h : wrapMatch RF m = some w) :
    ∃ x, w = .variant m.typ x ∧ (x = m.val ∨ x = .boxed m.val) := by
  unfold wrapMatch at h
  rw [hf] at h
  simp only at h
  split at h
  · cases h
  · rename_i t bx _
    simp only [if_pos hlen, Option.some.injEq] at h
    subst h
    cases bx
    · exact ⟨_, rfl, Or.inl rfl⟩
    · exact ⟨_, rfl, Or.inr rfl⟩

/-- a field with a single type holds the value the rule returned (boxed if declared so) -/
theorem wrapMatch_plain {RF : List FieldDesc} {m : FMatch} {f : FieldDesc} {w : Val}
    (hf : findField RF m.key = some f) (hlen : ¬ f.types.length > 1) (h : wrapMatch RF m = some w) :
    w = m.val ∨ w = .boxed m.val := by
  unfold wrapMatch at h
  rw [hf] at h
  simp only at h
  split at h
  · cases h
  · rename_i t bx _
    simp only [if_neg hlen, Option.some.injEq] at h
    subst h
    cases bx
    · exact Or.inl rfl
    · exact Or.inr rfl

/-! #### abandoned matches leave no trace (the defining equations of `PM`) -/

/-- a failed alternative contributes nothing: the choice continues as if it were not there -/
theorem PM.evalAlts_failed (rec : PM.PRec) (ctx : Ctx) (a : Expr) (rest : List Expr) (s : St) {e : PErr}
    (h : rec.expr ctx a s = some (.err e)) :
    PM.evalAlts rec ctx (a :: rest) s = PM.evalAlts rec ctx rest s := by
  simp [PM.evalAlts, h]

/-- the first successful alternative supplies all the matches of the choice -/
theorem PM.evalAlts_first (rec : PM.PRec) (ctx : Ctx) (a : Expr) (rest : List Expr) (s s' : St)
    {ms : List FMatch} (h : rec.expr ctx a s = some (.ok ms s')) :
    PM.evalAlts rec ctx (a :: rest) s = some (.ok ms s') := by
  simp [PM.evalAlts, h]

/-- an optional whose body fails contributes no match (whatever the body matched before failing) -/
theorem PM.opt_failed (env : Env) (rec : PM.PRec) (n : Nat) (ctx : Ctx) (b : Expr) (s : St) {e : PErr}
    (h : rec.expr ctx b s = some (.err e)) :
    PM.stepExpr env rec n ctx (.opt b) s = some (.ok [] s) := by
  simp [PM.stepExpr, h]

/-- the failing last iteration of a closure contributes no match -/
theorem PM.evalLoop_last (body : St → SOut (List FMatch)) (k iters : Nat) (acc : List FMatch) (s : St)
    {e : PErr} (h : body s = some (.err e)) :
    PM.evalLoop body (k + 1) iters acc s = some (.ok (iters, acc) s) := by
  simp [PM.evalLoop, h]

/-- a successful iteration appends its matches after those of the earlier iterations -/
theorem PM.evalLoop_iter (body : St → SOut (List FMatch)) (k iters : Nat) (acc ms : List FMatch) (s s' : St)
    (h : body s = some (.ok ms s')) :
    PM.evalLoop body (k + 1) iters acc s = PM.evalLoop body k (iters + 1) (acc ++ ms) s' := by
  simp [PM.evalLoop, h]

/-- lookaheads contribute no match -/
theorem PM.lookahead_no_match (env : Env) (rec : PM.PRec) (n : Nat) (ctx : Ctx) (b : Expr) (s s' : St)
    {ms : List FMatch} :
    (PM.stepExpr env rec n ctx (.neg b) s = some (.ok ms s') → ms = [] ∧ s' = s) ∧
    (PM.stepExpr env rec n ctx (.pos b) s = some (.ok ms s') → ms = [] ∧ s' = s) := by
  constructor
  · intro h
    simp only [PM.stepExpr] at h
    split at h <;> cases h
    exact ⟨rfl, rfl⟩
  · intro h
    simp only [PM.stepExpr] at h
    obtain ⟨_, _, _, h⟩ := PM.bindS_ok_inv h
    cases h
    exact ⟨rfl, rfl⟩

/-- a sequence concatenates the matches of its parts in order -/
theorem PM.evalSeq_cons (rec : PM.PRec) (ctx : Ctx) (p : Expr) (ps : List Expr) (acc ms : List FMatch)
    (s s' : St) (h : rec.expr ctx p s = some (.ok ms s')) :
    PM.evalSeq rec ctx (p :: ps) acc s = PM.evalSeq rec ctx ps (acc ++ ms) s' := by
  simp [PM.evalSeq, h, bindS]

/-! ### the other rule kinds (corollaries of `Spec.ruleBody` / `Spec.stepRule`) -/

/-- `@string` rules return exactly the consumed slice (wrapped with its position under `@position`) -/
theorem string_rule_value {env : Env} {u : Nat} {rec : SRec} {r0 : Rule} {s s' : St} {v : Val}
    (hstr : r0.flags.string = true)
    (h : Spec.ruleBody env u rec r0 s = some (.ok v s')) :
    v = (if r0.flags.position then
          Val.node r0.name [("string", .str (s.sliceUntil s'))] (some (s.off, s'.off))
        else .str (s.sliceUntil s')) := by
  unfold Spec.ruleBody at h
  split at h
  · simp only [hstr, if_true] at h
    obtain ⟨_, s1, _, h⟩ := PM.bindS_ok_inv h
    obtain ⟨rfl, rfl⟩ := runChecks_ok_inv _ h
    rfl
  · cases h

/-- override rules return the overridden value itself: the shaping of the `@:` matches on the
    successful path by the single descriptor `_override` (for arity `one` and a single unboxed type
    that is the value returned by the referenced rule, see `shapeField_one_plain`) -/
theorem override_rule_value {env : Env} {u : Nat} {rec : PM.PRec} {r0 : Rule} {f : FieldDesc}
    {s s' : St} {v : Val}
    (hget : getFields env.g env.nf r0.definition = .ok [f]) (hname : f.name = "_override")
    (hstr : r0.flags.string = false)
    (h : PM.ruleBody env u rec r0 s = some (.ok v s')) :
    ∃ ms, rec.expr ⟨env.settings.skipWhitespace && !r0.flags.noSkipWs, [f]⟩ r0.definition s
        = some (.ok ms s') ∧
      shapeField [f] f (ms.filter (·.key == "_override")) = some v := by
  unfold PM.ruleBody at h
  simp only [hget, hstr, Bool.false_eq_true, if_false, List.length_cons, List.length_nil,
    List.head?_cons, Option.map_some, hname, beq_self_eq_true, Bool.and_self, if_true] at h
  obtain ⟨ms, s1, hx, h⟩ := PM.bindS_ok_inv h
  split at h
  · rename_i w hw
    obtain ⟨rfl, rfl⟩ := runChecks_ok_inv _ h
    refine ⟨ms, hx, ?_⟩
    simp only [shapeParsed] at hw
    cases hsf : shapeField [f] f (flt ms f.name) with
    | none => rw [hsf] at hw; cases hw
    | some x =>
      rw [hsf] at hw
      simp only [Option.bind_some, Parsed.get_cons, hname, if_true, Option.some.injEq] at hw
      rw [← hw, ← hsf, hname]; rfl
  · cases h

theorem shapeField_one_plain {f : FieldDesc} {t : String} {ms : List FMatch} {v : Val}
    (ha : f.arity = .one) (ht : f.types = [(t, false)]) (hk : ∀ m ∈ ms, m.key = f.name)
    (h : shapeField [f] f ms = some v) : ∃ m, ms = [m] ∧ m.typ = t ∧ v = m.val := by
  unfold shapeField at h
  rw [ha] at h
  simp only at h
  split at h
  · rename_i m
    refine ⟨m, rfl, ?_⟩
    have hkm := hk m List.mem_cons_self
    unfold wrapMatch at h
    simp only [findField, List.find?_cons, hkm, beq_self_eq_true, ht] at h
    by_cases hmt : t = m.typ
    · simp [hmt] at h
      exact ⟨hmt.symm, h.symm⟩
    · have : (t == m.typ) = false := by simpa using hmt
      simp [this] at h
  · cases h

/-- the builtin `char` returns the character at the cursor and consumes its UTF-8 length -/
theorem builtin_char_value {env : Env} {u : Nat} {rec : SRec} {s s' : St} {v : Val}
    (hno : env.g.find "char" = none)
    (h : Spec.stepRule env u rec "char" s = some (.ok v s')) :
    ∃ c, decodeHead s.rest = some c ∧ v = .chr c ∧ s'.off = s.off + c.utf8Size := by
  unfold Spec.stepRule at h
  simp only [hno, beq_self_eq_true, if_true, Option.some.injEq] at h
  unfold parseChar at h
  cases hd : decodeHead s.rest with
  | none => rw [hd] at h; cases h
  | some c =>
    rw [hd] at h
    simp only [St.advance] at h
    split at h
    · cases h
    · simp only [Res.map, abs, Res.ok.injEq] at h
      exact ⟨c, rfl, h.1.symm, by rw [← h.2]; rfl⟩

/-- what a successful part of a `@char` rule returned -/
def CharPartVal (rec : SRec) (s s' : St) (v : Val) : CharRulePart → Prop
  | .chr item => ∃ c r, item.toChar = .ok c ∧ v = .chr r ∧
      abs ((parseCharacterLiteral s c).map Val.chr) = .ok (.chr r) s'
  | .range lo hi => ∃ l h r, lo.toChar = .ok l ∧ hi.toChar = .ok h ∧ v = .chr r ∧
      abs ((parseCharacterRange s l h).map Val.chr) = .ok (.chr r) s'
  | .ident id => rec.rule id s = some (.ok v s')

/-- `@char` rules return a character: the literal, a character of the range, or what the referenced
    (char) rule returned -/
theorem charParts_value {rec : SRec} : ∀ (ps : List CharRulePart) {s s' : St} {v : Val},
    Spec.charParts rec ps s = some (.ok v s') → ∃ p ∈ ps, CharPartVal rec s s' v p := by
  intro ps
  induction ps with
  | nil => intro s s' v h; simp [Spec.charParts] at h
  | cons p ps ih =>
    intro s s' v h
    have hrest : Spec.charParts rec ps s = some (.ok v s') →
        ∃ p' ∈ p :: ps, CharPartVal rec s s' v p' := fun h' => by
      obtain ⟨q, hq, hv⟩ := ih h'
      exact ⟨q, List.mem_cons_of_mem _ hq, hv⟩
    cases p with
    | chr item =>
      simp only [Spec.charParts] at h
      cases hc : item.toChar with
      | ok c =>
        simp only [hc] at h
        cases hm : parseCharacterLiteral s c with
        | ok r s0 =>
          simp only [hm, Res.map, abs, Option.some.injEq, Res.ok.injEq] at h
          refine ⟨_, List.mem_cons_self, c, r, hc, h.1.symm, ?_⟩
          simp only [hm, Res.map, abs, h.2]
        | err e => simp only [hm, Res.map, abs] at h; exact hrest h
        | panic m => simp only [hm, Res.map, abs] at h; cases h
      | err m => simp only [hc] at h; cases h
      | fuel => simp only [hc] at h; cases h
    | range lo hi =>
      simp only [Spec.charParts] at h
      cases hl : lo.toChar with
      | ok l =>
        cases hh : hi.toChar with
        | ok hc =>
          simp only [hl, hh] at h
          cases hm : parseCharacterRange s l hc with
          | ok r s0 =>
            simp only [hm, Res.map, abs, Option.some.injEq, Res.ok.injEq] at h
            refine ⟨_, List.mem_cons_self, l, hc, r, hl, hh, h.1.symm, ?_⟩
            simp only [hm, Res.map, abs, h.2]
          | err e => simp only [hm, Res.map, abs] at h; exact hrest h
          | panic m => simp only [hm, Res.map, abs] at h; cases h
        | err m => simp only [hl, hh] at h; cases h
        | fuel => simp only [hl, hh] at h; cases h
      | err m => simp only [hl] at h; cases h
      | fuel => simp only [hl] at h; cases h
    | ident id =>
      simp only [Spec.charParts] at h
      split at h
      · cases h
      · rename_i v0 s0 hx
        simp only [Option.some.injEq, Res.ok.injEq] at h
        exact ⟨_, List.mem_cons_self, by rw [← h.1, ← h.2]; exact hx⟩
      · exact hrest h
      · cases h

/-! ### a concrete instance -/

namespace PathExamples

def lx (c : Char) : Expr := .lit false [.chr c]
def fld (n t : String) : Expr := .field (some (.ident n)) false t

/-- `X = 'x';  Y = 'y';
    R = (a:X b:Y 'z' | a:X) {c:Y} [d:X 'q'] !(X 'q') {v:X | v:Y};` -/
def exG : Grammar := ⟨[
  .rule { directives := [], name := "X", definition := lx 'x' },
  .rule { directives := [], name := "Y", definition := lx 'y' },
  .rule { directives := [], name := "R", definition := .seq [
      .choice [.seq [fld "a" "X", fld "b" "Y", lx 'z'], fld "a" "X"],
      .closure (fld "c" "Y") false,
      .opt (.seq [fld "d" "X", lx 'q']),
      .neg (.seq [.field none false "X", lx 'q']),
      .closure (.choice [fld "v" "X", fld "v" "Y"]) false] }]⟩
def exEnv : Env := { g := exG, settings := { skipWhitespace := false }, hooks := default, nf := 8 }

/-- the input `xyyxyx` -/
def exInp : List UInt8 := [120, 121, 121, 120, 121, 120]

def X : Val := .node "X" [] none
def Y : Val := .node "Y" [] none

/-- the rule-level analysis of `R` -/
example : getFields exG 8 (.incl "R") = .ok
    [⟨"a", [("X", false)], .one⟩, ⟨"b", [("Y", false)], .optional⟩, ⟨"c", [("Y", false)], .multiple⟩,
     ⟨"d", [("X", false)], .optional⟩, ⟨"v", [("X", false), ("Y", false)], .multiple⟩] := by
  with_unfolding_all rfl

/-- the matches on the successful path of `R` on `xyyxyx`, in input order.  The `a:X b:Y` of the first
    alternative (abandoned at `'z'`), the `d:X` of the optional (abandoned at `'q'`), the `X` inside the
    lookahead and the failing last iterations of the closures leave no trace. -/
example : ((PM.eval exEnv 0 7).expr ⟨false, []⟩ (.incl "R") (St.new exInp)).map
      (fun r => match r with | .ok ms s => some (ms.map (fun m => (m.key, m.typ)), s.off) | _ => none) =
    some (some ([("a", "X"), ("c", "Y"), ("c", "Y"), ("v", "X"), ("v", "Y"), ("v", "X")], 6)) := by
  with_unfolding_all rfl

/-- the tree `PM` builds from these matches … -/
example : PM.parse exEnv 0 8 "R" exInp = some (.ok
    (.node "R" [("a", X), ("b", .none), ("c", .list [Y, Y]), ("d", .none),
                ("v", .list [.variant "X" X, .variant "Y" Y, .variant "X" X])] none)
    ⟨[], 6, none⟩) := by
  with_unfolding_all rfl

/-- … is the tree the reference semantics with the generated plumbing returns (instance of `C02_rule`) … -/
example : Spec.parse exEnv 0 8 "R" exInp = PM.parse exEnv 0 8 "R" exInp := by
  with_unfolding_all rfl

/-- … and the tree of the model of the generated parser (instance of `C02_parse`; its hypotheses hold:
    the default hooks are pure and the grammar has no `@leftrec` rule) -/
example : (parseAdvanced exEnv 8 "R" exInp 0).map (fun p => Spec.abs p.1) = PM.parse exEnv 0 8 "R" exInp := by
  with_unfolding_all rfl

/-- the hypothesis `SubFields own ctx.ruleFields` of `C02_tree` cannot be dropped: in a context that
    does not declare the field the plumbing panics, while `PM` (which has no plumbing) just records
    the match -/
example :
    (Spec.eval exEnv 0 3).expr ⟨false, []⟩ (fld "a" "X") (St.new exInp)
      = some (.panic ("codegen: " ++ "Field not found in rule_fields")) ∧
    ((PM.eval exEnv 0 3).expr ⟨false, []⟩ (fld "a" "X") (St.new exInp)).map
      (fun r => match r with | .ok ms s => some (ms.map (fun m => (m.key, m.typ)), s.off) | _ => none)
      = some (some ([("a", "X")], 1)) := by
  constructor <;> with_unfolding_all rfl

example : PureHooks exEnv.hooks := ⟨fun _ _ _ => rfl, fun _ _ _ => rfl⟩

example : NoLeftrec exEnv.g := by
  intro r hr
  simp only [exEnv, exG, List.mem_cons, RuleEntry.rule.injEq, List.not_mem_nil, or_false] at hr
  rcases hr with rfl | rfl | rfl <;> rfl

end PathExamples

end Peg
