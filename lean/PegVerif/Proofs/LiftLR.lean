import PegVerif.Proofs.RefineLR
import PegVerif.Proofs.Whitespace
import PegVerif.Props.C14
/-
  C14 (user check / extern functions) and C08 (whitespace desugaring) lifted from the plain reference
  semantics `Spec` / the class `NoLeftrec` to the reference semantics with left recursion `SpecLR` /
  the class `LROk`.

  Part B (first, it is the long one): `C08_desugar_exprLR`, `C08_desugar_grammarLR`.
  Part A: `C14_generated_code_refinesLR` (+ `_rec`), `C14_*LR`, the `@leftrec` + `@check` theorems.
  Part C: `LROk` of the desugared grammar – examples only (see the end of the file).
-/
namespace Peg
open Spec SpecLR WS

/-! ## B. whitespace desugaring for `SpecLR`

  `SpecLR.step` evaluates expressions with `Spec.stepExpr` (for every seed environment `σ` separately),
  so the expression-level simulation steps `WS.fwd_step` / `WS.rev_step` are reused unchanged; only the
  induction on fuel is redone, with `σ` universally quantified in the induction hypothesis (the grow
  loop evaluates the body under an extended `σ`).  `desugarG` keeps rule names and `@leftrec` flags
  (`lrRule_desugarEnv`), so the seed keys `(rule, offset)` correspond one to one: the *same* `σ` is
  used on both sides. -/

/-- `desugarG` changes neither the name nor the `@leftrec` flag of a rule: the `@leftrec` rule called
    `name` of the desugared grammar is the desugared `@leftrec` rule called `name` -/
theorem lrRule_desugarEnv (env : Env) (name : String) :
    lrRule (desugarEnv env) name = (lrRule env name).map desugarR := by
  unfold lrRule
  have hf : (desugarEnv env).g.find name = (env.g.find name).map desugarEntry := find_desugarG _ _
  rw [hf]
  cases env.g.find name with
  | none => rfl
  | some e =>
    cases e with
    | rule r =>
      simp only [Option.map_some, desugarEntry, desugarR_flags]
      split <;> rfl
    | charRule r => rfl
    | externRule r => rfl

theorem lrRule_some {env : Env} {name : String} {r : Rule} (h : lrRule env name = some r) :
    env.g.find name = some (.rule r) ∧ r.flags.leftRecursive = true := by
  unfold lrRule at h
  split at h
  · rename_i r0 hf
    split at h
    · rename_i hl; cases h; exact ⟨hf, hl⟩
    · cases h
  · cases h

theorem lrRule_mem {env : Env} {name : String} {r : Rule} (h : lrRule env name = some r) :
    RuleEntry.rule r ∈ env.g.rules := List.mem_of_find?_eq_some (lrRule_some h).1

/-- the rule wrapper, skipping ⇒ desugared (the rule case of `WS.stepRule_fwd`) -/
theorem ruleBody_fwd {env : Env} {u : Nat} {recA recB : SRec} {r0 : Rule}
    (hskip : env.settings.skipWhitespace = true) (hG : GoodG env.nf env.g)
    (hmem : RuleEntry.rule r0 ∈ env.g.rules) (hE : FwdE env.nf recA.expr recB.expr) {s : St} {r}
    (h : Spec.ruleBody env u recA r0 s = some r) :
    Spec.ruleBody (desugarEnv env) u recB (desugarR r0) s = some r := by
  refine ruleBody_sim (envA := env) (envB := desugarEnv env) rfl (desugarR_name r0)
    (by rw [desugarR_flags]) (by rw [desugarR_flags]) (desugarR_checks r0) ?_ ?_ h
  · rw [desugarR_def]
    exact getFields_ds env.g (desugarG env.g) _ (hG r0 hmem)
  · intro fields hfields s r h
    have hu := uniqueNames_getFields _ _ _ _ hfields
    have := hE (!r0.flags.noSkipWs) fields r0.definition s r (hG r0 hmem) hu (by simpa [hskip] using h)
    simpa [desugarEnv, desugarR_flags, desugarR_def] using this

/-- the rule wrapper, desugared ⇒ skipping (the rule case of `WS.stepRule_rev`) -/
theorem ruleBody_rev {env : Env} {u : Nat} {recA recB : SRec} {r0 : Rule}
    (hskip : env.settings.skipWhitespace = true) (hG : GoodG env.nf env.g)
    (hmem : RuleEntry.rule r0 ∈ env.g.rules) (hE : RevE env.nf recB.expr recA.expr) {s : St} {r}
    (h : Spec.ruleBody (desugarEnv env) u recB (desugarR r0) s = some r) :
    Spec.ruleBody env u recA r0 s = some r := by
  refine ruleBody_sim (envA := desugarEnv env) (envB := env) rfl (desugarR_name r0).symm
    (by rw [desugarR_flags]) (by rw [desugarR_flags]) (desugarR_checks r0).symm ?_ ?_ h
  · rw [desugarR_def]
    exact (getFields_ds env.g (desugarG env.g) _ (hG r0 hmem)).symm
  · intro fields hfields s r h
    rw [desugarR_def] at hfields
    have hfields' : getFields env.g env.nf r0.definition = .ok fields := by
      rw [← hfields]; exact (getFields_ds env.g (desugarG env.g) _ (hG r0 hmem)).symm
    have hu := uniqueNames_getFields _ _ _ _ hfields'
    have := hE (!r0.flags.noSkipWs) fields r0.definition s r (hG r0 hmem) hu
      (by simpa [desugarEnv, desugarR_flags, desugarR_def] using h)
    simpa [hskip] using this

/-- one rule step, skipping ⇒ desugared, for every seed environment -/
theorem stepRuleLR_fwd {env : Env} {u : Nat} {recA recB : SRecLR} {n m : Nat}
    (hskip : env.settings.skipWhitespace = true) (hG : GoodG env.nf env.g) (hnm : n ≤ m)
    (hE : ∀ σ, FwdE env.nf (recA σ).expr (recB σ).expr) (hR : ∀ σ, Spec.LeR (recA σ).rule (recB σ).rule)
    (σ : Seeds) :
    Spec.LeR (SpecLR.stepRule env u recA n σ) (SpecLR.stepRule (desugarEnv env) u recB m σ) := by
  intro name s r h
  unfold SpecLR.stepRule at h ⊢
  rw [lrRule_desugarEnv]
  cases hl : lrRule env name with
  | none =>
    simp only [hl, Option.map_none] at h ⊢
    exact stepRule_fwd hskip hG (hE σ) (hR σ) _ _ _ h
  | some r0 =>
    simp only [hl, Option.map_some, desugarR_name] at h ⊢
    cases hs : seedOf σ (r0.name, s.off) with
    | some seed => simp only [hs] at h ⊢; exact h
    | none =>
      simp only [hs] at h ⊢
      exact SpecLR.growLoop_le (fun seed r hx => ruleBody_fwd hskip hG (lrRule_mem hl) (hE _) hx) _ _ _ _ hnm h

/-- one rule step, desugared ⇒ skipping, for every seed environment -/
theorem stepRuleLR_rev {env : Env} {u : Nat} {recA recB : SRecLR} {n m : Nat}
    (hskip : env.settings.skipWhitespace = true) (hG : GoodG env.nf env.g) (hnm : n ≤ m)
    (hE : ∀ σ, RevE env.nf (recB σ).expr (recA σ).expr) (hR : ∀ σ, Spec.LeR (recB σ).rule (recA σ).rule)
    (σ : Seeds) :
    Spec.LeR (SpecLR.stepRule (desugarEnv env) u recB n σ) (SpecLR.stepRule env u recA m σ) := by
  intro name s r h
  unfold SpecLR.stepRule at h ⊢
  rw [lrRule_desugarEnv] at h
  cases hl : lrRule env name with
  | none =>
    simp only [hl, Option.map_none] at h ⊢
    exact stepRule_rev hskip hG (hE σ) (hR σ) _ _ _ h
  | some r0 =>
    simp only [hl, Option.map_some, desugarR_name] at h ⊢
    cases hs : seedOf σ (r0.name, s.off) with
    | some seed => simp only [hs] at h ⊢; exact h
    | none =>
      simp only [hs] at h ⊢
      exact SpecLR.growLoop_le (fun seed r hx => ruleBody_rev hskip hG (lrRule_mem hl) (hE _) hx) _ _ _ _ hnm h

/-- induction on fuel, skipping ⇒ desugared (abstract in the simulation of rules, as `WS.fwd_main`) -/
theorem fwd_mainLR {envA envB : Env} {u : Nat} (hnf : envA.nf = envB.nf) (hnf2 : 2 ≤ envB.nf)
    (hstepR : ∀ n, (∀ σ, FwdE envA.nf (SpecLR.eval envA u n σ).expr (SpecLR.eval envB u (2*n) σ).expr) →
      (∀ σ, Spec.LeR (SpecLR.eval envA u n σ).rule (SpecLR.eval envB u (2*n) σ).rule) →
      ∀ σ, Spec.LeR (SpecLR.stepRule envA u (SpecLR.eval envA u n) n σ)
        (SpecLR.stepRule envB u (SpecLR.eval envB u (2*n)) (2*n) σ)) :
    ∀ n σ, FwdE envA.nf (SpecLR.eval envA u n σ).expr (SpecLR.eval envB u (2*n) σ).expr ∧
      Spec.LeR (SpecLR.eval envA u n σ).rule (SpecLR.eval envB u (2*n) σ).rule := by
  intro n
  induction n with
  | zero =>
    intro σ
    exact ⟨fun _ _ _ _ _ _ _ h => by simp [SpecLR.eval] at h, fun _ _ _ h => by simp [SpecLR.eval] at h⟩
  | succ n ih =>
    intro σ
    have h2 : 2 * (n + 1) = (2 * n + 1) + 1 := by omega
    rw [h2]
    constructor
    · exact fwd_step (recA := SpecLR.eval envA u n σ) (recB := SpecLR.eval envB u (2*n) σ)
        (recB' := SpecLR.eval envB u (2*n+1) σ) (nB := 2*n)
        hnf hnf2 (ih σ).1 (ih σ).2 (fun _ _ _ => rfl) (SpecLR.eval_le_succ envB u (2*n) σ) (by omega)
    · intro name s r h
      exact SpecLR.stepRule_le (SpecLR.eval_le_succ envB u (2*n)) (by omega) σ _ _ _
        (hstepR n (fun σ => (ih σ).1) (fun σ => (ih σ).2) σ _ _ _ h)

/-- induction on fuel, desugared ⇒ skipping (as `WS.rev_main`) -/
theorem rev_mainLR {envA envB : Env} {u : Nat} (hnf : envA.nf = envB.nf) (hnf2 : 2 ≤ envB.nf)
    (hstepR : ∀ m, (∀ σ, RevE envA.nf (SpecLR.eval envB u m σ).expr (SpecLR.eval envA u m σ).expr) →
      (∀ σ, Spec.LeR (SpecLR.eval envB u m σ).rule (SpecLR.eval envA u m σ).rule) →
      ∀ σ, Spec.LeR (SpecLR.stepRule envB u (SpecLR.eval envB u m) m σ)
        (SpecLR.stepRule envA u (SpecLR.eval envA u m) m σ)) :
    ∀ m σ, RevE envA.nf (SpecLR.eval envB u m σ).expr (SpecLR.eval envA u m σ).expr ∧
      Spec.LeR (SpecLR.eval envB u m σ).rule (SpecLR.eval envA u m σ).rule := by
  intro m
  induction m with
  | zero =>
    intro σ
    exact ⟨fun _ _ _ _ _ _ _ h => by simp [SpecLR.eval] at h, fun _ _ _ h => by simp [SpecLR.eval] at h⟩
  | succ m ih =>
    intro σ
    constructor
    · refine rev_step (recA := SpecLR.eval envA u m σ) (recB := SpecLR.eval envB u m σ) hnf hnf2
        (ih σ).1 (ih σ).2 ?_
      cases m with
      | zero => left; intro _ _ _; rfl
      | succ k =>
        right
        exact ⟨SpecLR.eval envB u k σ, k, fun _ _ _ => rfl, SpecLR.eval_le_succ envB u k σ, by omega⟩
    · exact hstepR m (fun σ => (ih σ).1) (fun σ => (ih σ).2) σ

/-- **C08, expression level, with left recursion.**  As `C08_desugar_expr`, for `SpecLR.eval` under any
    seed environment `σ`. -/
theorem C08_desugar_exprLR (env : Env) (u : Nat) (σ : Seeds) (e : Expr) (ctx : Ctx) (s : St) (r : Res Parsed)
    (hg : GoodE env.nf e) (hu : UniqueNames ctx.ruleFields) :
    (∃ n, (SpecLR.eval env u n σ).expr { ctx with skipWs := true } e s = some r) ↔
    (∃ m, (SpecLR.eval env u m σ).expr { ctx with skipWs := false } (desugarE e) s = some r) := by
  have hnf2 : 2 ≤ env.nf := by have := depthE_pos e; have := hg.2.2; omega
  constructor
  · rintro ⟨n, h⟩
    refine ⟨2 * n, ?_⟩
    have := (fwd_mainLR (envA := env) (envB := env) (u := u) rfl hnf2
      (fun n _ _ σ => SpecLR.stepRule_le (SpecLR.eval_mono env u (by omega)) (by omega) σ) n σ).1
    exact this true ctx.ruleFields e s r hg hu h
  · rintro ⟨m, h⟩
    refine ⟨m, ?_⟩
    have := (rev_mainLR (envA := env) (envB := env) (u := u) rfl hnf2
      (fun m _ _ σ => fun _ _ _ h => h) m σ).1
    exact this true ctx.ruleFields e s r hg hu h

/-- both directions at once, for every seed environment (the seeds of the two sides are the same) -/
theorem C08_desugar_evalLR (env : Env) (u : Nat) (σ : Seeds) (rule : String) (s : St) (r : Res Val)
    (hskip : env.settings.skipWhitespace = true) (hG : GoodG env.nf env.g) :
    (∃ n, (SpecLR.eval env u n σ).rule rule s = some r) ↔
      (∃ m, (SpecLR.eval (desugarEnv env) u m σ).rule rule s = some r) := by
  by_cases hnf2 : 2 ≤ env.nf
  · constructor
    · rintro ⟨n, h⟩
      exact ⟨2 * n, (fwd_mainLR (envA := env) (envB := desugarEnv env) (u := u) rfl hnf2
        (fun n h1 h2 σ => stepRuleLR_fwd hskip hG (by omega) h1 h2 σ) n σ).2 _ _ _ h⟩
    · rintro ⟨m, h⟩
      exact ⟨m, (rev_mainLR (envA := env) (envB := desugarEnv env) (u := u) rfl hnf2
        (fun m h1 h2 σ => stepRuleLR_rev hskip hG (Nat.le_refl _) h1 h2 σ) m σ).2 _ _ _ h⟩
  · -- no `get_fields` fuel: `GoodG` says there is no normal rule at all, nothing is desugared
    have hmap : ∀ l : List RuleEntry, (∀ r, RuleEntry.rule r ∈ l → False) → l.map desugarEntry = l := by
      intro l
      induction l with
      | nil => intro _; rfl
      | cons x xs ih =>
        intro hl
        rw [List.map_cons, ih (fun r hr => hl r (by simp [hr]))]
        cases x with
        | rule r0 => exact (hl r0 (by simp)).elim
        | charRule c => rfl
        | externRule c => rfl
    have hno : ∀ r, RuleEntry.rule r ∈ env.g.rules → False := fun r hr => by
      have h1 := (hG r hr).2.2
      have h2 := depthE_pos r.definition
      omega
    have : desugarEnv env = env := by
      unfold desugarEnv desugarG
      rw [hmap _ hno]
    rw [this]

/-- **C08, grammar level, with left recursion.**  The reference parser with left recursion of the
    desugared grammar (every skipping rule marked `@no_skip_ws`, an explicit `Whitespace` call in front
    of every token) answers exactly as that of the original grammar – same value, failure or panic –
    for every rule and every input, up to fuel.  Same hypotheses as `C08_desugar_grammar`; no
    hypothesis on the use of `@leftrec` (`LROk` is not needed: this is a statement about `SpecLR`). -/
theorem C08_desugar_grammarLR (env : Env) (u : Nat) (rule : String) (inp : List UInt8) (r : Res Val)
    (hskip : env.settings.skipWhitespace = true) (hG : GoodG env.nf env.g) :
    (∃ n, SpecLR.parse env u n rule inp = some r) ↔
      (∃ m, SpecLR.parse (desugarEnv env) u m rule inp = some r) :=
  C08_desugar_evalLR env u [] rule (St.new inp) r hskip hG

/-! ## A. C14 (user check / extern functions) for `SpecLR`

  ### A.0 the generated code refines `SpecLR` -/

/-- the avoid sets of the class `LROk` (the `N` of RefineLR.lean) -/
abbrev avoidN (env : Env) : String → List String :=
  fun Q => LRC.avoidSet env.g env.settings Q (LRC.fuel env.g)

/-- **C14, the generated code (model) implements the check/extern predicates – evaluator level.**
    Pure user functions, grammar in `LROk`.  Any state satisfying the invariant `PreLR` of
    RefineLR.lean (ghost list `H` of the heads growing in the model), any rule reference that is in
    avoid or safe position for the heads growing at the current offset (`SafeH`): the model's answer
    abstracts to the `SpecLR` answer under every seed environment `σ` compatible with the state
    (`Compat`), for all large fuels; the invariant holds afterwards (unless the answer is a panic). -/
theorem C14_generated_code_refinesLR_rec (env : Env) (hp : PureHooks env.hooks)
    (hok : LROk env.g env.settings) (inp : List UInt8) (u n : Nat) (H : Heads) (name : String) (s : St)
    (g : Global) {r g'} (hpre : PreLR env u inp (avoidN env) H s g)
    (hsafe : SafeH H s.off (fun Q m => ChkR env (avoidN env) Q m name))
    (h : (eval env n).rule name s g = some (r, g')) :
    (∀ σ, Compat H σ g s.off (fun Q m => ChkR env (avoidN env) Q m name) →
      ∃ m0, ∀ m, m0 ≤ m → (SpecLR.eval env u m σ).rule name (clr s) = some (abs r)) ∧
    ((∀ m, r ≠ .panic m) → GoodLR env u inp (avoidN env) H g') ∧
    (∀ v s', r = .ok v s' → WfSt inp s') :=
  (eval_refLR_rec (u := u) (inp := inp) hp (lrHyp_of_LROkF hok) n).rule H name s g r g' h hpre hsafe

/-- **C14, the generated code refines `SpecLR`** (the `LROk` version of
    `Props.C14_generated_code_refines`): no head is growing (`H = []`, `σ = []`). -/
theorem C14_generated_code_refinesLR (env : Env) (hp : PureHooks env.hooks)
    (hok : LROk env.g env.settings) (inp : List UInt8) (u n : Nat) (name : String) (s : St) (g : Global)
    {r g'} (hpre : PreLR env u inp (avoidN env) [] s g)
    (h : (eval env n).rule name s g = some (r, g')) :
    ∃ m, (SpecLR.eval env u m []).rule name (clr s) = some (abs r) := by
  obtain ⟨m0, h0⟩ := (C14_generated_code_refinesLR_rec env hp hok inp u n [] name s g hpre
    (fun Q hq => by cases hq) h).1 [] (compat_init _ _ _)
  exact ⟨m0, h0 m0 (Nat.le_refl _)⟩

/-- … from the fresh state of `parse_advanced` (this is `eval_refLR`) -/
theorem C14_generated_code_refinesLR_fresh (env : Env) (hp : PureHooks env.hooks)
    (hok : LROk env.g env.settings) (inp : List UInt8) (u n : Nat) (name : String) {r g'}
    (h : parseAdvanced env n name inp u = some (r, g')) :
    ∃ m, SpecLR.parse env u m name inp = some (abs r) :=
  eval_refLR env hp hok h

/-- the fresh state satisfies the invariant -/
example (env : Env) (u : Nat) (inp : List UInt8) :
    PreLR env u inp (avoidN env) [] (St.new inp) (Global.init u) := preLR_init _ _ _ _

/-! ### A.1 rules that are not `@leftrec`: `SpecLR` is `Spec` with `SpecLR.eval env u n σ` as `rec` -/

theorem lrRule_eq_none_iff (env : Env) (name : String) :
    lrRule env name = none ↔ ∀ r, env.g.find name = some (.rule r) → r.flags.leftRecursive = false := by
  unfold lrRule
  constructor
  · intro h r hf
    simp only [hf] at h
    cases hl : r.flags.leftRecursive
    · rfl
    · simp [hl] at h
  · intro h
    split
    · rename_i r hf
      simp [h r hf]
    · rfl

/-- (i) at a name that is not a `@leftrec` rule, the rule level of `SpecLR` is that of `Spec` -/
theorem SpecLR.stepRule_of_not_leftrec {env : Env} {u : Nat} (rec : SRecLR) (n : Nat) (σ : Seeds)
    {name : String} (h : lrRule env name = none) :
    SpecLR.stepRule env u rec n σ name = Spec.stepRule env u (rec σ) name := by
  funext s
  unfold SpecLR.stepRule
  rw [h]

/-- the expression level of `SpecLR` is always that of `Spec` -/
theorem SpecLR.eval_succ_expr (env : Env) (u n : Nat) (σ : Seeds) :
    (SpecLR.eval env u (n+1) σ).expr = Spec.stepExpr env (SpecLR.eval env u n σ) n := rfl

theorem SpecLR.eval_succ_rule (env : Env) (u n : Nat) (σ : Seeds) {name : String}
    (h : lrRule env name = none) :
    (SpecLR.eval env u (n+1) σ).rule name = Spec.stepRule env u (SpecLR.eval env u n σ) name :=
  SpecLR.stepRule_of_not_leftrec _ n σ h

/-- `C14_extern` for `SpecLR`: an `@extern` rule matches exactly when its function returns Ok, yields that
    value and consumes the returned number of bytes – under every seed environment -/
theorem C14_externLR (env : Env) (u n : Nat) (σ : Seeds) (name : String) (r : ExternRule) (s : St)
    (hf : env.g.find name = some (.externRule r)) :
    (SpecLR.eval env u (n+1) σ).rule name s =
      match (env.hooks.extern ("::".intercalate r.function) s.rest u).1 with
      | .ok (v, adv) => some (abs (s.advanceSafe adv v))
      | .error _ => some (.err noErr) := by
  rw [SpecLR.eval_succ_rule env u n σ ((lrRule_eq_none_iff env name).2 (fun r0 h0 => by rw [hf] at h0; cases h0))]
  simp only [Spec.stepRule, hf]
  exact Props.C14_extern env u r s

/-- `C14_char_checks` for `SpecLR` -/
theorem C14_char_checksLR (env : Env) (u n : Nat) (σ : Seeds) (name : String) (r : CharRule) (s : St)
    (hf : env.g.find name = some (.charRule r)) (hne : r.directives.isEmpty = false) :
    (SpecLR.eval env u (n+1) σ).rule name s =
      match decodeHead s.rest with
      | none => some (.err noErr)
      | some c =>
        if Spec.charChecksOk env r.directives c then Spec.charParts (SpecLR.eval env u n σ) r.choices s
        else some (.err noErr) := by
  rw [SpecLR.eval_succ_rule env u n σ ((lrRule_eq_none_iff env name).2 (fun r0 h0 => by rw [hf] at h0; cases h0))]
  simp only [Spec.stepRule, hf]
  exact Props.C14_char_checks env _ r s hne

/-- `C14_extern_after_skip` for `SpecLR` -/
theorem C14_extern_after_skipLR (env : Env) (u n : Nat) (σ : Seeds) (ctx : Ctx) (nm : Option FieldName)
    (bx : Bool) (typ : String) (s : St) (hs : ctx.skipWs = true) :
    (SpecLR.eval env u (n+1) σ).expr ctx (.field nm bx typ) s =
      bindS ((SpecLR.eval env u n σ).rule "Whitespace" s) (fun _ s1 =>
        bindS ((SpecLR.eval env u n σ).rule typ s1) fun v s' =>
          match nm with
          | none => some (.ok [] s')
          | some nm =>
            match postprocessField ctx.ruleFields nm.key typ v with
            | .ok fv => some (.ok [(nm.key, fv)] s')
            | .error m => some (.panic ("codegen: " ++ m))) :=
  Props.C14_extern_after_skip env (SpecLR.eval env u n σ) n ctx nm bx typ s hs

/-! ### A.2 rules with `@check` functions: body first, then the checks -/

def Directive.isCheck : Directive → Bool
  | .check _ => true
  | _ => false

/-- the rule without its `@check` directives -/
def Rule.stripChecks (r : Rule) : Rule :=
  { r with directives := r.directives.filter (fun d => !d.isCheck) }

theorem foldl_add_stripChecks (ds : List Directive) (f : RuleFlags) :
    (ds.filter (fun d => !d.isCheck)).foldl RuleFlags.add f = ds.foldl RuleFlags.add f := by
  induction ds generalizing f with
  | nil => rfl
  | cons d ds ih =>
    rw [List.filter_cons]
    cases hd : d.isCheck
    · simp only [Bool.not_false, if_true, List.foldl_cons]; exact ih _
    · simp only [Bool.not_true, Bool.false_eq_true, if_false, List.foldl_cons]
      have : f.add d = f := by cases d <;> first | rfl | simp [Directive.isCheck] at hd
      rw [this]; exact ih f

theorem checks_stripChecks (ds : List Directive) :
    (ds.filter (fun d => !d.isCheck)).filterMap
      (fun d => match d with | Directive.check f => some f | _ => none) = [] := by
  induction ds with
  | nil => rfl
  | cons d ds ih =>
    rw [List.filter_cons]
    cases hd : d.isCheck
    · simp only [Bool.not_false, if_true]
      rw [List.filterMap_cons_none (by cases d <;> first | rfl | simp [Directive.isCheck] at hd)]
      exact ih
    · simp only [Bool.not_true, Bool.false_eq_true, if_false]; exact ih

@[simp] theorem Rule.stripChecks_flags (r : Rule) : r.stripChecks.flags = r.flags :=
  foldl_add_stripChecks r.directives {}
@[simp] theorem Rule.stripChecks_name (r : Rule) : r.stripChecks.name = r.name := rfl
@[simp] theorem Rule.stripChecks_definition (r : Rule) : r.stripChecks.definition = r.definition := rfl
@[simp] theorem Rule.stripChecks_checks (r : Rule) : r.stripChecks.checks = [] :=
  checks_stripChecks r.directives

theorem Spec.bindS_assoc {α β γ} (x : SOut α) (k : α → St → SOut β) (k' : β → St → SOut γ) :
    bindS (bindS x k) k' = bindS x (fun v s => bindS (k v s) k') := by
  cases x with
  | none => rfl
  | some a => cases a <;> rfl

/-- **a rule with `@check` functions is the rule without them, followed by the checks** on the value
    it produced, at the state it reached (`C14_checks` says what `Spec.runChecks` is) -/
theorem Spec.ruleBody_stripChecks (env : Env) (u : Nat) (rec : SRec) (r : Rule) (s : St) :
    Spec.ruleBody env u rec r s =
      bindS (Spec.ruleBody env u rec r.stripChecks s) (fun v s' => Spec.runChecks env u r.checks v s') := by
  unfold Spec.ruleBody
  simp only [Rule.stripChecks_flags, Rule.stripChecks_name, Rule.stripChecks_definition,
    Rule.stripChecks_checks, Spec.runChecks]
  cases getFields env.g env.nf r.definition with
  | err m => rfl
  | fuel => rfl
  | ok fields =>
    simp only
    by_cases h1 : r.flags.string = true
    · simp only [h1, if_true, Spec.bindS_assoc]; rfl
    · simp only [h1, Bool.false_eq_true, if_false]
      by_cases h2 : (fields.length == 1 && (fields.head?.map (·.name)) == some "_override") = true
      · simp only [h2, if_true, Spec.bindS_assoc]
        congr 1; funext p s'
        cases p.get "_override" <;> rfl
      · simp only [h2, Bool.false_eq_true, if_false]
        by_cases h3 : hasField fields "_override" = true
        · simp only [h3, if_true]; rfl
        · simp only [h3, Bool.false_eq_true, if_false, Spec.bindS_assoc]
          congr 1; funext p s'
          cases project fields p <;> rfl

theorem bindR_assoc {α β γ} (x : Out α) (k : α → St → Global → Out β) (k' : β → St → Global → Out γ) :
    bindR (bindR x k) k' = bindR x (fun v s g => bindR (k v s g) k') := by
  cases x with
  | none => rfl
  | some a =>
    obtain ⟨a, g⟩ := a
    cases a <;> rfl

/-- the same factorisation in the model of the generated code -/
theorem ruleBody_stripChecks (env : Env) (rec : Rec) (r : Rule) (s : St) (g : Global) :
    ruleBody env rec r s g =
      bindR (ruleBody env rec r.stripChecks s g) (fun v s' g' => runChecks env r.checks v s' g') := by
  unfold ruleBody
  simp only [Rule.stripChecks_flags, Rule.stripChecks_name, Rule.stripChecks_definition,
    Rule.stripChecks_checks, runChecks]
  cases getFields env.g env.nf r.definition with
  | err m => rfl
  | fuel => rfl
  | ok fields =>
    simp only
    by_cases h1 : r.flags.string = true
    · simp only [h1, if_true, bindR_assoc]; rfl
    · simp only [h1, Bool.false_eq_true, if_false]
      by_cases h2 : (fields.length == 1 && (fields.head?.map (·.name)) == some "_override") = true
      · simp only [h2, if_true, bindR_assoc]
        congr 1; funext p s' g'
        cases p.get "_override" <;> rfl
      · simp only [h2, Bool.false_eq_true, if_false]
        by_cases h3 : hasField fields "_override" = true
        · simp only [h3, if_true]; rfl
        · simp only [h3, Bool.false_eq_true, if_false, bindR_assoc]
          congr 1; funext p s' g'
          cases project fields p <;> rfl

/-- `C14_checks` for `SpecLR`, rule that is not `@leftrec`: the rule matches exactly when the rule
    without checks matches and every check returns true for the value it produced -/
theorem C14_checksLR (env : Env) (u n : Nat) (σ : Seeds) (name : String) (r : Rule) (s : St)
    (hf : env.g.find name = some (.rule r)) (hlr : r.flags.leftRecursive = false) :
    (SpecLR.eval env u (n+1) σ).rule name s =
      bindS (Spec.ruleBody env u (SpecLR.eval env u n σ) r.stripChecks s) (fun v s' =>
        if r.checks.all (fun f => (env.hooks.check ("::".intercalate f) v u).1) then some (.ok v s')
        else some (.err noErr)) := by
  rw [SpecLR.eval_succ_rule env u n σ ((lrRule_eq_none_iff env name).2
    (fun r0 h0 => by rw [hf] at h0; cases h0; exact hlr))]
  simp only [Spec.stepRule, hf, Spec.ruleBody_stripChecks env u _ r s, Props.C14_checks]

/-! ### A.3 `@leftrec` rules with `@check` functions: the checks are INSIDE the grown body

  In the generated code `memoBody` (the cache / grow loop) wraps the closure `ruleBody`, and `ruleBody`
  ends with `runChecks`: the checks run at the end of every body evaluation, i.e. in every growth
  iteration, on the value of that iteration.  `SpecLR.stepRule` grows `Spec.ruleBody`, which also ends
  with `Spec.runChecks`: the same. -/

/-- (ii), reference semantics: the grow loop of a `@leftrec` rule iterates "body without checks, then
    the checks" -/
theorem C14_leftrec_checks_in_body {env : Env} {u : Nat} {name : String} {r : Rule}
    (hf : env.g.find name = some (.rule r)) (hlr : r.flags.leftRecursive = true)
    (rec : SRecLR) (n : Nat) (σ : Seeds) (s : St) (hseed : seedOf σ (r.name, s.off) = none) :
    SpecLR.stepRule env u rec n σ name s =
      SpecLR.growLoop (fun seed =>
        bindS (Spec.ruleBody env u (rec (((r.name, s.off), seed) :: σ)) r.stripChecks s)
          (fun v s' => Spec.runChecks env u r.checks v s')) n (.err noErr) := by
  rw [specLR_stepRule_grow hf hlr rec n σ s hseed]
  congr 1
  funext seed
  exact Spec.ruleBody_stripChecks env u _ r s

/-- (ii), model of the generated code: the same shape – the closure handed to the grow loop is "body
    without checks, then the checks" -/
theorem C14_leftrec_checks_in_body_model (env : Env) (rec : Rec) (n : Nat) (r : Rule) (s : St) (g : Global)
    (hlr : r.flags.leftRecursive = true) :
    memoBody r.flags r.name (ruleBody env rec r) n s g =
      match g.lookup (r.name, s.off) with
      | some cached => some (cached, g.emit (.info "Cache hit (left recursive)"))
      | none =>
        Peg.growLoop (fun s g => bindR (ruleBody env rec r.stripChecks s g)
            (fun v s' g' => runChecks env r.checks v s' g'))
          (r.name, s.off) s n (.err (s.reportError .leftRecursionSentinel))
          (g.insert (r.name, s.off) (.err (s.reportError .leftRecursionSentinel))) := by
  have : ruleBody env rec r = fun s g => bindR (ruleBody env rec r.stripChecks s g)
      (fun v s' g' => runChecks env r.checks v s' g') := by
    funext s g; exact ruleBody_stripChecks env rec r s g
  rw [← this]
  unfold memoBody
  rw [if_pos hlr]
  cases g.lookup (r.name, s.off) <;> rfl

/-- consequence: **a check that rejects the value of an iteration ends the growth**; the answer is the
    previous seed (the rule fails if there is none: rejection in the first iteration) -/
theorem C14_leftrec_check_rejects (env : Env) (u : Nat) (B : Res Val → SOut Val) (fs : List (List String))
    (k : Nat) (best : Res Val) {v : Val} {ns : St} (hB : B best = some (.ok v ns))
    (hrej : fs.all (fun f => (env.hooks.check ("::".intercalate f) v u).1) = false) :
    SpecLR.growLoop (fun seed => bindS (B seed) (fun v s' => Spec.runChecks env u fs v s')) (k+1) best =
      some (match best with | .ok _ _ => best | _ => .err noErr) := by
  have hb : bindS (B best) (fun v s' => Spec.runChecks env u fs v s') = some (.err noErr) := by
    rw [hB]; simp only [bindS, Props.C14_checks, hrej, Bool.false_eq_true, if_false]
  simp only [SpecLR.growLoop, hb]
  cases best <;> rfl

/-- … and a value accepted by every check is an ordinary iteration result -/
theorem C14_leftrec_check_accepts (env : Env) (u : Nat) (B : Res Val → SOut Val) (fs : List (List String))
    (k : Nat) (best : Res Val) {v : Val} {ns : St} (hB : B best = some (.ok v ns))
    (hacc : fs.all (fun f => (env.hooks.check ("::".intercalate f) v u).1) = true) :
    SpecLR.growLoop (fun seed => bindS (B seed) (fun v s' => Spec.runChecks env u fs v s')) (k+1) best =
      (match best with
       | .ok _ bs =>
         if ns.isFurtherThan bs then
           SpecLR.growLoop (fun seed => bindS (B seed) (fun v s' => Spec.runChecks env u fs v s')) k (.ok v ns)
         else some best
       | _ => SpecLR.growLoop (fun seed => bindS (B seed) (fun v s' => Spec.runChecks env u fs v s')) k (.ok v ns)) := by
  have hb : bindS (B best) (fun v s' => Spec.runChecks env u fs v s') = some (.ok v ns) := by
    rw [hB]; simp only [bindS, Props.C14_checks, hacc, if_true]
  cases best with
  | ok bv bs => simp only [SpecLR.growLoop, hb]
  | err e => simp only [SpecLR.growLoop, hb]
  | panic m => simp only [SpecLR.growLoop, hb]

/-! ## non-vacuity and examples (all checked by the kernel) -/

namespace LiftLRExample
open Peg.NV

/-! ### A.3: a `@leftrec` rule with a `@check` function
    `@export @leftrec @check(shallow) E = l:*E '+' r:Num | b:Num;  @string Num = {'0'..'9'}+;`
    `shallow` accepts an `E` whose `l` is absent or is an `E` without `l` (at most one `+`). -/
def shallow (v : Val) : Bool :=
  match v with
  | .node _ fs _ =>
    (match Parsed.get fs "l" with
     | some (.some (.boxed (.node _ fs2 _))) =>
       (match Parsed.get fs2 "l" with | some (.some _) => false | _ => true)
     | _ => true)
  | _ => true
def hooksC : Hooks :=
  { extern := fun _ _ u => (.error "no such extern", u), check := fun f v u => (f != "shallow" || shallow v, u),
    charCheck := fun _ _ => true }
def ruleEC : Rule := ⟨[.export, .leftrec, .check ["shallow"]], "E", LeftRecExample.ruleE.definition⟩
def envC : Env :=
  { g := ⟨[.rule ruleEC, .rule LeftRecExample.ruleNum]⟩, settings := {}, hooks := hooksC, nf := 10 }
/-- `"1+2+3"` -/
def inp : List UInt8 := [49, 43, 50, 43, 51]

theorem pureC : PureHooks envC.hooks := ⟨fun _ _ _ => rfl, fun _ _ _ => rfl⟩
theorem lrokC : LROk envC.g envC.settings := by decide
example : ruleEC.checks = [["shallow"]] ∧ ruleEC.flags.leftRecursive = true ∧
    ruleEC.stripChecks.directives = [.export, .leftrec] := by decide

/-- the OTHER reading (NOT what peginator does): grow the body without the checks, then check the
    final value once -/
def checksOutside (env : Env) (u : Nat) (rec : SRecLR) (n : Nat) (σ : Seeds) (r : Rule) (s : St) : SOut Val :=
  bindS (SpecLR.growLoop
      (fun seed => Spec.ruleBody env u (rec (((r.name, s.off), seed) :: σ)) r.stripChecks s) n (.err noErr))
    (fun v s' => Spec.runChecks env u r.checks v s')

/-- **the checks are inside the loop.**  On `"1+2+3"`: the third iteration's value `(1+2)+3` is rejected by
    `shallow`, the growth stops, the answer is the seed `1+2` (3 bytes) – in the reference semantics AND
    in the model of the generated code, which called the check 3 times (once per iteration).  With the
    checks outside the loop the rule would grow to `(1+2)+3` and then fail altogether. -/
example :
    (match SpecLR.parse envC 0 20 "E" inp, parseAdvanced envC 20 "E" inp 0 with
     | some (.ok v s), some (.ok v' s', g) =>
       v.render == "E { l: Some(E { l: None, r: None, b: Some(S\"31\") }), r: Some(S\"32\"), b: None }"
       && v'.render == v.render && s.off == 3 && s'.off == 3
       && (g.log.filter (fun e => match e with | Ev.checkCall _ _ _ => true | _ => false)).length == 3
     | _, _ => false) = true ∧
    (match checksOutside envC 0 (SpecLR.eval envC 0 20) 20 [] ruleEC (St.new inp) with
     | some (.err _) => true
     | _ => false) = true := by
  decide +kernel

/-- `C14_leftrec_checks_in_body` at this rule -/
example (n : Nat) : SpecLR.parse envC 0 (n+1) "E" inp =
    SpecLR.growLoop (fun seed =>
      bindS (Spec.ruleBody envC 0 (SpecLR.eval envC 0 n [(("E", 0), seed)]) ruleEC.stripChecks (St.new inp))
        (fun v s' => Spec.runChecks envC 0 [["shallow"]] v s')) n (.err noErr) :=
  C14_leftrec_checks_in_body (env := envC) (name := "E") (r := ruleEC) rfl rfl (SpecLR.eval envC 0 n) n []
    (St.new inp) rfl

/-- `C14_generated_code_refinesLR` applied to the run of the model (from the fresh state, which
    satisfies the invariant) -/
theorem runC : ((eval envC 20).rule "E" (St.new inp) (Global.init 0)).isSome = true := by decide +kernel
example : ∃ m, (SpecLR.eval envC 0 m []).rule "E" (clr (St.new inp)) =
    some (abs (((eval envC 20).rule "E" (St.new inp) (Global.init 0)).get runC).1) :=
  C14_generated_code_refinesLR envC pureC lrokC inp 0 20 "E" (St.new inp) (Global.init 0)
    (preLR_init _ _ _ _) (run_eq runC)

/-! ### A.1/A.2: checks, a `@char` check and an extern in a grammar WITH a `@leftrec` rule
    `@export @leftrec E = l:*E '+' r:T | t:T;  T = n:Num | v:Vowel | x:Any;` and `Num`, `Vowel`, `Any`
    of Props/C14.lean (`@string @check(small) @check(m::odd) Num`, `@char @check(vowel) Vowel`,
    `@extern(any) Any`) -/
def ruleE2 : Rule := ⟨[.export, .leftrec], "E",
  .choice [.seq [.field (some (.ident "l")) true "E", lit '+', fld "r" "T"], .seq [fld "t" "T"]]⟩
open Peg.Props.C14_nv in
def envU2 : Env :=
  { g := ⟨[.rule ruleE2,
          .rule ⟨[], "T", .choice [.seq [fld "n" "Num"], .seq [fld "v" "Vowel"], .seq [fld "x" "Any"]]⟩,
          .rule (ruleNum numChecks), .charRule vowel, .externRule anyR]⟩,
    settings := {}, hooks := hooksU false, nf := 10 }

/-- `Props.C14_generated_code_refines` does not apply (`NoLeftrec` fails), the `LROk` version does -/
example : ¬ NoLeftrec envU2.g := fun h =>
  absurd (h ruleE2 (by simp [envU2])) (by decide)
theorem lrokU2 : LROk envU2.g envU2.settings := by decide
theorem pureU2 : PureHooks envU2.hooks := Props.C14_nv.hp

/-- `"1+a+?+2"`: `1` passes both checks of `Num`, `a` is a vowel, `?` is taken by the extern, `2` is
    rejected by `m::odd` and is not a vowel, so the extern takes it -/
def inpU : List UInt8 := [49, 43, 97, 43, 63, 43, 50]
theorem runU2 : (parseAdvanced envU2 30 "E" inpU 0).isSome = true := by decide +kernel
example : ∃ m, SpecLR.parse envU2 0 m "E" inpU = some (abs ((parseAdvanced envU2 30 "E" inpU 0).get runU2).1) :=
  C14_generated_code_refinesLR_fresh envU2 pureU2 lrokU2 inpU 0 30 "E" (run_eq runU2)
example :
    (match parseAdvanced envU2 30 "E" inpU 0, SpecLR.parse envU2 0 30 "E" inpU with
     | some (.ok v s, _), some (.ok v' s') => v.render == v'.render && s.off == 7 && s'.off == 7
     | _, _ => false) = true := by decide +kernel

/-- `C14_externLR`, `C14_char_checksLR`, `C14_checksLR` under an arbitrary seed environment -/
example (n : Nat) (σ : Seeds) : (SpecLR.eval envU2 0 (n+1) σ).rule "Any" Props.C14_nv.s6 =
    some (abs (Props.C14_nv.s6.advanceSafe 1 (Val.ext "any" 63))) := by
  rw [C14_externLR envU2 0 n σ "Any" Props.C14_nv.anyR _ rfl]; rfl
example (n : Nat) (σ : Seeds) : (SpecLR.eval envU2 0 (n+1) σ).rule "Vowel" (St.new [98]) = some (.err noErr) := by
  rw [C14_char_checksLR envU2 0 n σ "Vowel" Props.C14_nv.vowel _ rfl rfl]; rfl
example (n : Nat) (σ : Seeds) (s : St) : (SpecLR.eval envU2 0 (n+1) σ).rule "Num" s =
    bindS (Spec.ruleBody envU2 0 (SpecLR.eval envU2 0 n σ) (ruleNum Props.C14_nv.numChecks).stripChecks s)
      (fun v s' => if [["small"], ["m", "odd"]].all (fun f => (envU2.hooks.check ("::".intercalate f) v 0).1)
        then some (.ok v s') else some (.err noErr)) :=
  C14_checksLR envU2 0 n σ "Num" (ruleNum Props.C14_nv.numChecks) s rfl rfl

/-! ### B: the desugaring of a left-recursive grammar
    `LeftRecExample.envE` (`@export @leftrec E = l:*E '+' r:Num | b:Num;`, skipping on) on `"1 + 2 + 3"` -/
open LeftRecExample in
theorem goodE : GoodG envE.nf envE.g := by
  intro r hr
  simp only [envE, List.mem_cons, RuleEntry.rule.injEq, List.mem_nil_iff, or_false] at hr
  rcases hr with rfl | rfl <;> exact ⟨by decide, by decide, by decide⟩

def inpWs : List UInt8 := [49, 32, 43, 32, 50, 32, 43, 32, 51]
open LeftRecExample in
theorem specE_some : (SpecLR.parse envE 0 20 "E" inpWs).isSome = true := by decide +kernel
open LeftRecExample in
example : ∃ m, SpecLR.parse (desugarEnv envE) 0 m "E" inpWs = some ((SpecLR.parse envE 0 20 "E" inpWs).get specE_some) :=
  (C08_desugar_grammarLR envE 0 "E" inpWs _ rfl goodE).mp ⟨20, (Option.some_get specE_some).symm⟩
open LeftRecExample in
/-- the two runs: the same left-nested tree, all 9 bytes; the desugared `E` is still `@leftrec` (and now
    `@no_skip_ws`): `lrRule` finds it under the same name, so the seed keys are the same -/
example :
    (match SpecLR.parse envE 0 20 "E" inpWs, SpecLR.parse (desugarEnv envE) 0 30 "E" inpWs with
     | some (.ok v s), some (.ok v' s') =>
       v.render == "E { l: Some(E { l: Some(E { l: None, r: None, b: Some(S\"31\") }), r: Some(S\"32\"), b: None }), r: Some(S\"33\"), b: None }"
       && v'.render == v.render && s.off == 9 && s'.off == 9
     | _, _ => false) = true ∧
    (lrRule (desugarEnv envE) "E").map (fun r => (r.name, r.flags.leftRecursive, r.flags.noSkipWs)) =
      some ("E", true, true) := by decide +kernel

/-! ### C: is `LROk` preserved by `desugarEnv`?

  NOT in general (counterexample below: it needs an include `>R` of a skipping rule into a
  `@no_skip_ws` rule – a construct for which the desugaring is not semantics-preserving either and
  which `GoodG` excludes).  For include-free grammars the walk of the desugared grammar visits the same
  rule references in the same modes (`Whitespace` first, then the token; `prog` only gets more
  permissive), so preservation is a matter of the analysis fuel `LRC.fuel`, which grows by 2 per
  token while a path needs 1 more per token; this is NOT proved here, only checked on examples. -/
open LeftRecExample in
example : LROk (desugarEnv envE).g (desugarEnv envE).settings := by decide
example : LROk (desugarEnv LRExample.calcEnv).g (desugarEnv LRExample.calcEnv).settings := by decide
example : LROk (desugarEnv envC).g (desugarEnv envC).settings := by decide
example : LROk (desugarEnv envU2).g (desugarEnv envU2).settings := by decide
/-- grammars outside the class stay outside -/
example : ¬ LROk (desugarEnv LRExample.mutEnv).g (desugarEnv LRExample.mutEnv).settings := by decide

/-- the counterexample:
    `@leftrec @no_skip_ws Q = >R | 'y';  R = 'a';  @memoize @no_skip_ws Whitespace = {' '} !Q;`
    In `Q` (no skipping) the included body `'a'` is walked without a `Whitespace` call; after the
    desugaring `R = Whitespace 'a'` and the include brings the call of the `@memoize` rule `Whitespace`
    (which can reach `Q` before consuming input, so it is not in the avoid set) into the body of `Q`. -/
def cexC : Env :=
  { g := ⟨[.rule ⟨[.leftrec, .noSkipWs], "Q", .choice [.seq [.incl "R"], .seq [lit 'y']]⟩,
          .rule ⟨[], "R", .choice [.seq [lit 'a']]⟩,
          .rule ⟨[.memoize, .noSkipWs], "Whitespace",
            .choice [.seq [.closure (.choice [.seq [lit ' ']]) false, .neg (.field none false "Q")]]⟩]⟩,
    settings := {}, hooks := default, nf := 10 }
example : LROk cexC.g cexC.settings ∧ ¬ LROk (desugarEnv cexC).g (desugarEnv cexC).settings := by decide

end LiftLRExample

end Peg
