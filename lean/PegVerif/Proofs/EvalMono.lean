import PegVerif.Eval
/-
  Fuel monotonicity of the implementation model `eval`: an answer (result *and* final global
  state), once produced, is the answer for every larger fuel.  Same structure as `SpecMono.lean`.
-/
namespace Peg

def LeE (a b : Ctx → Expr → St → Global → Out Parsed) : Prop :=
  ∀ ctx e s g r, a ctx e s g = some r → b ctx e s g = some r
def LeR (a b : String → St → Global → Out Val) : Prop :=
  ∀ n s g r, a n s g = some r → b n s g = some r

structure RLe (a b : Rec) : Prop where
  expr : LeE a.expr b.expr
  rule : LeR a.rule b.rule

theorem bindR_le {α β} {x x' : Out α} {k k' : α → St → Global → Out β} {r : Res β × Global}
    (hx : ∀ a, x = some a → x' = some a)
    (hk : ∀ v s g r, k v s g = some r → k' v s g = some r)
    (h : bindR x k = some r) : bindR x' k' = some r := by
  cases x with
  | none => simp [bindR] at h
  | some a =>
    rw [hx a rfl]
    obtain ⟨ra, ga⟩ := a
    cases ra with
    | ok v s => simp only [bindR] at h ⊢; exact hk _ _ _ _ h
    | err e => simpa [bindR] using h
    | panic m => simpa [bindR] using h

theorem withSkipWs_le {α} {rec rec' : Rec} (hle : RLe rec rec') {ctx s g}
    {k k' : St → Global → Out α} {r}
    (hk : ∀ s g r, k s g = some r → k' s g = some r)
    (h : withSkipWs rec ctx s g k = some r) : withSkipWs rec' ctx s g k' = some r := by
  unfold withSkipWs at h ⊢
  split
  · rename_i hs
    simp only [hs, if_true] at h
    exact bindR_le (fun a ha => hle.rule _ _ _ _ ha) (fun _ s g r h => hk s g r h) h
  · rename_i hs
    simp only [hs] at h
    exact hk _ _ _ h

theorem evalSeq_le {env} {rec rec' : Rec} (hle : RLe rec rec') {ctx} :
    ∀ ps seen acc s g r, evalSeq env rec ctx ps seen acc s g = some r →
      evalSeq env rec' ctx ps seen acc s g = some r := by
  intro ps
  induction ps with
  | nil => intro seen acc s g r h; simpa [evalSeq] using h
  | cons p ps ih =>
    intro seen acc s g r h
    simp only [evalSeq] at h ⊢
    refine bindR_le (fun a ha => hle.expr _ _ _ _ _ ha) ?_ h
    intro v s' g' r' h'
    split at h'
    · exact h'
    · exact ih _ _ _ _ _ h'

theorem evalAlts_le {env} {rec rec' : Rec} (hle : RLe rec rec') {ctx fields} :
    ∀ as s g r, evalAlts env rec ctx fields as s g = some r →
      evalAlts env rec' ctx fields as s g = some r := by
  intro as
  induction as with
  | nil => intro s g r h; simpa [evalAlts] using h
  | cons a as ih =>
    intro s g r h
    simp only [evalAlts] at h ⊢
    split at h
    · cases h
    · rename_i hx; rw [hle.expr _ _ _ _ _ hx]; exact h
    · rename_i hx; rw [hle.expr _ _ _ _ _ hx]; exact ih _ _ _ h
    · rename_i hx; rw [hle.expr _ _ _ _ _ hx]; exact h

theorem evalLoop_le {body body' : St → Global → Out Parsed} {fields}
    (hb : ∀ s g r, body s g = some r → body' s g = some r) :
    ∀ k k' iters acc s g r, k ≤ k' → evalLoop body fields k iters acc s g = some r →
      evalLoop body' fields k' iters acc s g = some r := by
  intro k
  induction k with
  | zero => intro k' iters acc s g r _ h; simp [evalLoop] at h
  | succ k ih =>
    intro k' iters acc s g r hk h
    obtain ⟨k'', rfl⟩ : ∃ k'', k' = k'' + 1 := ⟨k' - 1, by omega⟩
    simp only [evalLoop] at h ⊢
    split at h
    · cases h
    · rename_i hx
      rw [hb _ _ _ hx]
      simp only
      split at h
      · exact ih _ _ _ _ _ _ (by omega) h
      · exact h
    · rename_i hx; rw [hb _ _ _ hx]; exact h
    · rename_i hx; rw [hb _ _ _ hx]; exact h

theorem stepExpr_le {env} {rec rec' : Rec} (hle : RLe rec rec') {n m : Nat} (hnm : n ≤ m) :
    LeE (stepExpr env rec n) (stepExpr env rec' m) := by
  intro ctx e s g r h
  cases e with
  | choice alts =>
    match alts with
    | [] => simpa [stepExpr] using h
    | [a] => simp only [stepExpr] at h ⊢; exact hle.expr _ _ _ _ _ h
    | a :: b :: rest => simp only [stepExpr] at h ⊢; exact evalAlts_le hle _ _ _ _ h
  | seq parts =>
    match parts with
    | [] => simpa [stepExpr] using h
    | [a] => simp only [stepExpr] at h ⊢; exact hle.expr _ _ _ _ _ h
    | a :: b :: rest =>
      simp only [stepExpr] at h ⊢
      exact bindR_le (fun x hx => evalSeq_le hle _ _ _ _ _ _ hx) (fun _ _ _ _ h => h) h
  | group b => simp only [stepExpr] at h ⊢; exact hle.expr _ _ _ _ _ h
  | opt b =>
    simp only [stepExpr] at h ⊢
    split at h
    · cases h
    · rename_i hx; rw [hle.expr _ _ _ _ _ hx]; exact h
    · rename_i hx; rw [hle.expr _ _ _ _ _ hx]; exact h
    · rename_i hx; rw [hle.expr _ _ _ _ _ hx]; exact h
  | closure b plus =>
    simp only [stepExpr] at h ⊢
    split at h
    · exact h
    · rename_i init hinit
      exact bindR_le (fun x hx => evalLoop_le (fun s g r => hle.expr _ _ _ _ _) _ _ _ _ _ _ _ hnm hx)
        (fun _ _ _ _ h => h) h
  | neg b =>
    simp only [stepExpr] at h ⊢
    split at h
    · cases h
    · rename_i hx; rw [hle.expr _ _ _ _ _ hx]; exact h
    · rename_i hx; rw [hle.expr _ _ _ _ _ hx]; exact h
    · rename_i hx; rw [hle.expr _ _ _ _ _ hx]; exact h
  | pos b =>
    simp only [stepExpr] at h ⊢
    exact bindR_le (fun x hx => hle.expr _ _ _ _ _ hx) (fun _ _ _ _ h => h) h
  | range lo hi =>
    simp only [stepExpr] at h ⊢
    split at h
    · exact withSkipWs_le hle (fun _ _ _ h => h) h
    · exact h
  | lit ins body =>
    simp only [stepExpr] at h ⊢
    split at h
    · exact withSkipWs_le hle (fun _ _ _ h => h) h
    · exact h
  | eoi =>
    simp only [stepExpr] at h ⊢
    exact withSkipWs_le hle (fun _ _ _ h => h) h
  | incl r0 =>
    simp only [stepExpr] at h ⊢
    split at h
    · exact h
    · exact hle.expr _ _ _ _ _ h
  | field name boxed typ =>
    simp only [stepExpr] at h ⊢
    refine withSkipWs_le hle ?_ h
    intro s g r h
    exact bindR_le (fun x hx => hle.rule _ _ _ _ hx) (fun _ _ _ _ h => h) h

theorem charParts_le {rec rec' : Rec} (hle : RLe rec rec') {name} :
    ∀ ps s g r, charParts rec name ps s g = some r → charParts rec' name ps s g = some r := by
  intro ps
  induction ps with
  | nil => intro s g r h; simpa [charParts] using h
  | cons p ps ih =>
    intro s g r h
    cases p with
    | chr item =>
      simp only [charParts] at h ⊢
      split at h
      · cases h
      · exact h
      · exact ih _ _ _ h
      · exact h
    | range lo hi =>
      simp only [charParts] at h ⊢
      split at h
      · cases h
      · exact h
      · exact ih _ _ _ h
      · exact h
    | ident id =>
      simp only [charParts] at h ⊢
      split at h
      · cases h
      · rename_i hx; rw [hle.rule _ _ _ _ hx]; exact h
      · rename_i hx; rw [hle.rule _ _ _ _ hx]; exact ih _ _ _ h
      · rename_i hx; rw [hle.rule _ _ _ _ hx]; exact h

theorem ruleBody_le {env} {rec rec' : Rec} (hle : RLe rec rec') {r0 : Rule} {s g r}
    (h : ruleBody env rec r0 s g = some r) : ruleBody env rec' r0 s g = some r := by
  unfold ruleBody at h ⊢
  split at h
  · simp only
    simp only at h
    split at h
    · rename_i hc; simp only [hc, if_true]
      exact bindR_le (fun x hx => hle.expr _ _ _ _ _ hx) (fun _ _ _ _ h => h) h
    · rename_i hc; simp only [hc]
      split at h
      · rename_i hc2; simp only [hc2, if_true]
        exact bindR_le (fun x hx => hle.expr _ _ _ _ _ hx) (fun _ _ _ _ h => h) h
      · rename_i hc2; simp only [hc2]
        split at h
        · rename_i hc3; simpa [hc3] using h
        · rename_i hc3; simp only [hc3]
          exact bindR_le (fun x hx => hle.expr _ _ _ _ _ hx) (fun _ _ _ _ h => h) h
  · exact h

theorem growLoop_le {body body' : St → Global → Out Val} {key s}
    (hb : ∀ s g r, body s g = some r → body' s g = some r) :
    ∀ k k' best g r, k ≤ k' → growLoop body key s k best g = some r →
      growLoop body' key s k' best g = some r := by
  intro k
  induction k with
  | zero => intro k' best g r _ h; simp [growLoop] at h
  | succ k ih =>
    intro k' best g r hk h
    obtain ⟨k'', rfl⟩ : ∃ k'', k' = k'' + 1 := ⟨k' - 1, by omega⟩
    simp only [growLoop] at h ⊢
    split at h
    · cases h
    · rename_i hx; rw [hb _ _ _ hx]; exact h
    · rename_i hx
      rw [hb _ _ _ hx]
      simp only
      split at h
      · split at h
        · rename_i hc; rw [if_pos hc]; exact ih _ _ _ _ (by omega) h
        · rename_i hc; rw [if_neg hc]; exact h
      · exact ih _ _ _ _ (by omega) h
    · rename_i hx; rw [hb _ _ _ hx]; exact h

theorem memoBody_le {flags name} {body body' : St → Global → Out Val}
    (hb : ∀ s g r, body s g = some r → body' s g = some r) {n m : Nat} (hnm : n ≤ m) {s g r}
    (h : memoBody flags name body n s g = some r) : memoBody flags name body' m s g = some r := by
  unfold memoBody at h ⊢
  simp only at h ⊢
  split at h
  · rename_i hc
    rw [if_pos hc]
    split at h
    · exact h
    · exact growLoop_le hb _ _ _ _ _ hnm h
  · rename_i hc
    rw [if_neg hc]
    split at h
    · rename_i hc2
      rw [if_pos hc2]
      split at h
      · exact h
      · split at h
        · cases h
        · rename_i hx; rw [hb _ _ _ hx]; exact h
        · rename_i hne hx; rw [hb _ _ _ hx]; simp only; exact h
    · rename_i hc2
      rw [if_neg hc2]
      exact hb _ _ _ h

theorem normalRule_le {env} {rec rec' : Rec} (hle : RLe rec rec') {n m : Nat} (hnm : n ≤ m)
    {r0 : Rule} {s g r} (h : normalRule env rec n r0 s g = some r) :
    normalRule env rec' m r0 s g = some r := by
  unfold normalRule at h ⊢
  simp only at h ⊢
  split at h
  · cases h
  · rename_i hx
    rw [memoBody_le (fun s g r hb => ruleBody_le hle hb) hnm hx]
    exact h

theorem stepRule_le {env} {rec rec' : Rec} (hle : RLe rec rec') {n m : Nat} (hnm : n ≤ m) :
    LeR (stepRule env rec n) (stepRule env rec' m) := by
  intro name s g r h
  unfold stepRule at h ⊢
  split at h
  · exact normalRule_le hle hnm h
  · rename_i cr _
    unfold charRule at h ⊢
    split at h
    · rename_i hc; rw [if_pos hc]; exact charParts_le hle _ _ _ _ h
    · rename_i hc; rw [if_neg hc]
      split at h
      · exact h
      · split at h
        · exact h
        · exact charParts_le hle _ _ _ _ h
  · exact h
  · exact h

theorem step_le {env} {rec rec' : Rec} (hle : RLe rec rec') {n m : Nat} (hnm : n ≤ m) :
    RLe (step env rec n) (step env rec' m) :=
  ⟨stepExpr_le hle hnm, stepRule_le hle hnm⟩

theorem eval_le_succ (env : Env) : ∀ n, RLe (eval env n) (eval env (n + 1)) := by
  intro n
  induction n with
  | zero => exact ⟨fun _ _ _ _ _ h => by simp [eval] at h, fun _ _ _ _ h => by simp [eval] at h⟩
  | succ n ih => exact step_le ih (Nat.le_succ n)

theorem RLe.refl (a : Rec) : RLe a a := ⟨fun _ _ _ _ _ h => h, fun _ _ _ _ h => h⟩
theorem RLe.trans {a b c : Rec} (h1 : RLe a b) (h2 : RLe b c) : RLe a c :=
  ⟨fun _ _ _ _ _ h => h2.expr _ _ _ _ _ (h1.expr _ _ _ _ _ h),
   fun _ _ _ _ h => h2.rule _ _ _ _ (h1.rule _ _ _ _ h)⟩

/-- fuel monotonicity of the implementation model -/
theorem eval_mono (env : Env) {n m : Nat} (h : n ≤ m) : RLe (eval env n) (eval env m) := by
  induction m with
  | zero => have : n = 0 := by omega
            subst this; exact RLe.refl _
  | succ m ih =>
    by_cases hnm : n ≤ m
    · exact RLe.trans (ih hnm) (eval_le_succ env m)
    · have : n = m + 1 := by omega
      subst this; exact RLe.refl _

/-- the implementation's answer (result and final global state) is unique across fuels -/
theorem eval_rule_det (env : Env) {n m : Nat} {name s g r r'}
    (h : (eval env n).rule name s g = some r) (h' : (eval env m).rule name s g = some r') : r = r' := by
  have h1 := (eval_mono env (Nat.le_max_left n m)).rule _ _ _ _ h
  have h2 := (eval_mono env (Nat.le_max_right n m)).rule _ _ _ _ h'
  rw [h1] at h2
  exact Option.some.inj h2

end Peg
