import PegVerif.BuildFmt
import PegVerif.Proofs.BuildProofs
/-
  Property C18 with `.format()` (model: `PegVerif/BuildFmt.lean`; `fmt` = the external program rustfmt).

  * `runOnceF_false`, `stepF_false`, `runOpsF_false`, `fullHeader_eq_headerLines` – conservativity: without formatting
    the model is `Build.lean`, so every theorem of `BuildProofs.lean` is the `format = false` instance;
  * `KeepsHeaderLines k fmt` – the assumption about rustfmt (the four `//` lines at the start of a produced
    destination survive formatting); `KeepsHeaderLinesAll`, `keepsHeaderLines_keepLines` – stronger, more natural
    forms implying it; non-identity instances;
  * `runOnceF_*`, `runOnceF_cases` – one run with formatting, case by case;
  * `C18F_failure_preserves`, `C18F_untouched`, `C18F_rewrite_only_when_needed`;
  * `ProducedOnF`, `InvOnF`, `C18F_fresh_core`, `C18F_fresh_partial`, `C18F_fresh_partial_history` – freshness over
    histories, under "CRC-32 does not collide on the texts of the history";
  * `C18F_prefix_collision_witness` – with formatting ANY two prefixes with the same CRC-32 are indistinguishable;
  * `runOnceOld`, `C18F_old_untouched_fails`, `C18F_old_untouched_false` – the behaviour before fix F8 (formatting,
    but the full header including the prefix text is compared): "untouched" fails.
-/
namespace Peg
open Build

variable {k : Consts} {compile : List UInt8 → Option (List UInt8)} {fmt : List UInt8 → List UInt8}

/-! ### 1. Conservativity -/

theorem runOnceF_false (k : Consts) (compile : List UInt8 → Option (List UInt8)) (fmt : List UInt8 → List UInt8)
    (fs : FS) : runOnceF k compile fmt false fs = runOnce k compile fs := rfl

theorem stepF_false (k : Consts) (compile : List UInt8 → Option (List UInt8)) (fmt : List UInt8 → List UInt8)
    (fs : FS) (op : Op) : stepF k compile fmt false fs op = Build.step k compile fs op := by
  cases op with
  | editGrammar t => rfl
  | setPrefix p => rfl
  | deleteDest => rfl
  | run => exact runOnceF_false k compile fmt fs

theorem runOpsF_false_apply (k : Consts) (compile : List UInt8 → Option (List UInt8))
    (fmt : List UInt8 → List UInt8) (fs : FS) (ops : List Op) :
    runOpsF k compile fmt false fs ops = runOps k compile fs ops := by
  induction ops generalizing fs with
  | nil => rfl
  | cons op ops ih => simp only [runOpsF, runOps, stepF_false, ih]

theorem runOpsF_false (k : Consts) (compile : List UInt8 → Option (List UInt8)) (fmt : List UInt8 → List UInt8) :
    runOpsF k compile fmt false = runOps k compile := by
  funext fs ops
  exact runOpsF_false_apply k compile fmt fs ops

theorem str_nl_nl : str "\n\n" = str "\n" ++ str "\n" := by decide +kernel

/-- the full header is the header lines, a blank line, and the prefix text -/
theorem fullHeader_eq_headerLines (k : Consts) (g pfx : List UInt8) :
    fullHeader k g pfx = headerLines k g pfx ++ str "\n" ++ pfx := by
  simp only [fullHeader, headerLines, str_nl_nl, List.append_assoc]

/-- a produced destination: the header lines, a blank line, the prefix text, a newline, the code -/
theorem output_eq_headerLines (k : Consts) (g pfx code : List UInt8) :
    output k g pfx code = headerLines k g pfx ++ (str "\n" ++ (pfx ++ (str "\n" ++ code))) := by
  simp only [output, fullHeader_eq_headerLines, List.append_assoc]

/-! ### 2. The assumption about rustfmt -/

/-- **The assumption about rustfmt**, in the weakest form the proofs below need: formatting a destination produced by
    the helper (for the build constants `k`) leaves its header lines – the four `//` comment lines at the very start
    of the file – in place.  Nothing is assumed about what rustfmt does to the prefix text or to the code, nor about
    other inputs. -/
def KeepsHeaderLines (k : Consts) (fmt : List UInt8 → List UInt8) : Prop :=
  ∀ g pfx code : List UInt8,
    (fmt (output k g pfx code)).take (headerLines k g pfx).length = headerLines k g pfx

/-- the more natural (stronger) form: whatever follows the header lines, for any build constants -/
def KeepsHeaderLinesAll (fmt : List UInt8 → List UInt8) : Prop :=
  ∀ (k : Consts) (g pfx rest : List UInt8),
    (fmt (headerLines k g pfx ++ rest)).take (headerLines k g pfx).length = headerLines k g pfx

theorem KeepsHeaderLinesAll.keeps (h : KeepsHeaderLinesAll fmt) (k : Consts) : KeepsHeaderLines k fmt := by
  intro g pfx code
  rw [output_eq_headerLines]
  exact h k g pfx _

/-- no formatting at all satisfies the assumption … -/
theorem keepsHeaderLinesAll_id : KeepsHeaderLinesAll id := by
  intro k g pfx rest
  exact take_length_append _ _

/-- … and so does a formatter that only makes sure the file ends with a newline (non-identity, all `k`) -/
def fmtFinalNewline (xs : List UInt8) : List UInt8 := if xs.getLast? = some 10 then xs else xs ++ [10]

theorem keepsHeaderLinesAll_fmtFinalNewline : KeepsHeaderLinesAll fmtFinalNewline := by
  intro k g pfx rest
  unfold fmtFinalNewline
  split
  · exact take_length_append _ _
  · rw [List.append_assoc]; exact take_length_append _ _

example : fmtFinalNewline [1] ≠ id [1] := by decide +kernel

/-! #### A family of formatters: anything that leaves the first four lines alone -/

/-- copy the first `n` lines (up to and including the `n`-th newline), apply `f` to what follows -/
def keepLines (f : List UInt8 → List UInt8) : Nat → List UInt8 → List UInt8
  | 0, xs => f xs
  | _ + 1, [] => []
  | n + 1, b :: xs => b :: keepLines f (if b = 10 then n else n + 1) xs

theorem keepLines_line (f : List UInt8 → List UInt8) (n : Nat) (l xs : List UInt8) (hl : ∀ b ∈ l, b ≠ 10) :
    keepLines f (n + 1) (l ++ 10 :: xs) = l ++ 10 :: keepLines f n xs := by
  induction l with
  | nil => simp only [List.nil_append, keepLines, if_true]
  | cons b l ih =>
    have hb : b ≠ 10 := hl b List.mem_cons_self
    simp only [List.cons_append, keepLines, if_neg hb, List.cons.injEq, true_and]
    exact ih (fun c hc => hl c (List.mem_cons_of_mem _ hc))

theorem hexDigitU8_ne_nl : ∀ n, n < 16 → hexDigitU8 n ≠ 10 := by decide +kernel

theorem hex8_no_nl (x : UInt32) : ∀ b ∈ hex8 x, b ≠ 10 := by
  intro b hb
  simp only [hex8, List.mem_map] at hb
  obtain ⟨i, _, rfl⟩ := hb
  exact hexDigitU8_ne_nl _ (Nat.mod_lt _ (by decide))

/-- the four header lines, without their newlines -/
def line1 (k : Consts) : List UInt8 :=
  str "// This file was generated by Peginator v" ++ (k.version ++ (str " built at " ++ k.buildTime))
def line2 (g : List UInt8) : List UInt8 := str "// CRC-32/ISO-HDLC of the grammar file: " ++ hex8 (crc32 g)
def line3 : List UInt8 := str "// Any changes to it will be lost on regeneration"
def line4 (p : List UInt8) : List UInt8 := str "// CRC-32/ISO-HDLC of the prefix: " ++ hex8 (crc32 p)

theorem str_nl : str "\n" = [10] := by decide +kernel
theorem str_line3 : str "// Any changes to it will be lost on regeneration\n" = line3 ++ [10] := by decide +kernel

theorem headerLines_lines (k : Consts) (g p : List UInt8) :
    headerLines k g p = line1 k ++ 10 :: (line2 g ++ 10 :: (line3 ++ 10 :: (line4 p ++ 10 :: []))) := by
  simp only [headerLines, sourceHeader, line1, line2, line4, str_nl, str_line3, List.append_assoc,
    List.cons_append, List.nil_append]

theorem line1_no_nl (hv : ∀ b ∈ k.version, b ≠ 10) (ht : ∀ b ∈ k.buildTime, b ≠ 10) : ∀ b ∈ line1 k, b ≠ 10 := by
  have h1 : ∀ b ∈ str "// This file was generated by Peginator v", b ≠ 10 := by decide +kernel
  have h2 : ∀ b ∈ str " built at ", b ≠ 10 := by decide +kernel
  intro b hb
  simp only [line1, List.mem_append] at hb
  rcases hb with hb | hb | hb | hb
  · exact h1 b hb
  · exact hv b hb
  · exact h2 b hb
  · exact ht b hb

theorem line2_no_nl (g : List UInt8) : ∀ b ∈ line2 g, b ≠ 10 := by
  have h1 : ∀ b ∈ str "// CRC-32/ISO-HDLC of the grammar file: ", b ≠ 10 := by decide +kernel
  intro b hb
  simp only [line2, List.mem_append] at hb
  rcases hb with hb | hb
  · exact h1 b hb
  · exact hex8_no_nl _ b hb

theorem line3_no_nl : ∀ b ∈ line3, b ≠ 10 := by decide +kernel

theorem line4_no_nl (p : List UInt8) : ∀ b ∈ line4 p, b ≠ 10 := by
  have h1 : ∀ b ∈ str "// CRC-32/ISO-HDLC of the prefix: ", b ≠ 10 := by decide +kernel
  intro b hb
  simp only [line4, List.mem_append] at hb
  rcases hb with hb | hb
  · exact h1 b hb
  · exact hex8_no_nl _ b hb

/-- a formatter that leaves the first four lines alone, applied to "header lines, anything": the header lines, then
    `f` of the rest (version and build time contain no newline) -/
theorem keepLines_headerLines (f : List UInt8 → List UInt8) (hv : ∀ b ∈ k.version, b ≠ 10)
    (ht : ∀ b ∈ k.buildTime, b ≠ 10) (g p rest : List UInt8) :
    keepLines f 4 (headerLines k g p ++ rest) = headerLines k g p ++ f rest := by
  rw [headerLines_lines]
  simp only [List.append_assoc, List.cons_append, List.nil_append]
  rw [keepLines_line f 3 _ _ (line1_no_nl hv ht), keepLines_line f 2 _ _ (line2_no_nl g),
    keepLines_line f 1 _ _ line3_no_nl, keepLines_line f 0 _ _ (line4_no_nl p)]
  simp only [keepLines]

/-- **every formatter that leaves the first four lines alone satisfies the assumption** – whatever it does (`f`) to
    the rest of the file – provided the version and the build time contain no newline -/
theorem keepsHeaderLines_keepLines (f : List UInt8 → List UInt8) (hv : ∀ b ∈ k.version, b ≠ 10)
    (ht : ∀ b ∈ k.buildTime, b ≠ 10) : KeepsHeaderLines k (keepLines f 4) := by
  intro g pfx code
  rw [output_eq_headerLines, keepLines_headerLines f hv ht]
  exact take_length_append _ _

/-! ### 3. One run with formatting, case by case -/

/-- the destination starts with the header lines of grammar `g` and the current prefix (the Prop reading of the
    `upToDate` test of `runOnceF … true`) -/
def UpToDateF (k : Consts) (fs : FS) (g : List UInt8) : Prop :=
  ∃ d, fs.dest = some d ∧ d.take (headerLines k g fs.pfx).length = headerLines k g fs.pfx

/-- the `upToDate` test of `runOnceF … true` as a function -/
def upToDateFB (k : Consts) (fs : FS) (g : List UInt8) : Bool :=
  match fs.dest with
  | some d => d.take (headerLines k g fs.pfx).length == headerLines k g fs.pfx
  | none => false

theorem runOnceF_true_eq (k : Consts) (compile : List UInt8 → Option (List UInt8)) (fmt : List UInt8 → List UInt8)
    (fs : FS) :
    runOnceF k compile fmt true fs =
      match fs.grammar with
      | none => (fs, .err)
      | some g =>
        if upToDateFB k fs g then (fs, .ok false)
        else match compile g with
          | none => (fs, .err)
          | some code => ({ fs with dest := some (fmt (output k g fs.pfx code)) }, .ok true) := rfl

theorem upToDateFB_iff {fs : FS} {g : List UInt8} : upToDateFB k fs g = true ↔ UpToDateF k fs g := by
  unfold upToDateFB UpToDateF
  constructor
  · intro h
    split at h
    · rename_i d hd
      exact ⟨d, hd, by simpa using h⟩
    · cases h
  · rintro ⟨d, hd, ht⟩
    simp only [hd, ht, beq_self_eq_true]

theorem runOnceF_unreadable {fs : FS} (hg : fs.grammar = none) :
    runOnceF k compile fmt true fs = (fs, .err) := by
  rw [runOnceF_true_eq]; simp only [hg]

theorem runOnceF_upToDate {fs : FS} {g : List UInt8} (hg : fs.grammar = some g) (hu : UpToDateF k fs g) :
    runOnceF k compile fmt true fs = (fs, .ok false) := by
  rw [runOnceF_true_eq]
  simp only [hg, upToDateFB_iff.mpr hu, if_true]

theorem runOnceF_invalid {fs : FS} {g : List UInt8} (hg : fs.grammar = some g) (hu : ¬ UpToDateF k fs g)
    (hc : compile g = none) : runOnceF k compile fmt true fs = (fs, .err) := by
  rw [runOnceF_true_eq]
  simp only [hg, if_neg (mt upToDateFB_iff.mp hu), hc]

theorem runOnceF_write {fs : FS} {g code : List UInt8} (hg : fs.grammar = some g) (hu : ¬ UpToDateF k fs g)
    (hc : compile g = some code) :
    runOnceF k compile fmt true fs = ({ fs with dest := some (fmt (output k g fs.pfx code)) }, .ok true) := by
  rw [runOnceF_true_eq]
  simp only [hg, if_neg (mt upToDateFB_iff.mp hu), hc]

/-- complete case analysis of one run with formatting -/
theorem runOnceF_cases (k : Consts) (compile : List UInt8 → Option (List UInt8)) (fmt : List UInt8 → List UInt8)
    (fs : FS) :
    (fs.grammar = none ∧ runOnceF k compile fmt true fs = (fs, .err)) ∨
    (∃ g, fs.grammar = some g ∧ UpToDateF k fs g ∧ runOnceF k compile fmt true fs = (fs, .ok false)) ∨
    (∃ g, fs.grammar = some g ∧ ¬ UpToDateF k fs g ∧ compile g = none ∧
      runOnceF k compile fmt true fs = (fs, .err)) ∨
    (∃ g code, fs.grammar = some g ∧ ¬ UpToDateF k fs g ∧ compile g = some code ∧
      runOnceF k compile fmt true fs = ({ fs with dest := some (fmt (output k g fs.pfx code)) }, .ok true)) := by
  rcases Option.eq_none_or_eq_some fs.grammar with hg | ⟨g, hg⟩
  · exact .inl ⟨hg, runOnceF_unreadable hg⟩
  · by_cases hu : UpToDateF k fs g
    · exact .inr (.inl ⟨g, hg, hu, runOnceF_upToDate hg hu⟩)
    · cases hc : compile g with
      | none => exact .inr (.inr (.inl ⟨g, hg, hu, hc, runOnceF_invalid hg hu hc⟩))
      | some code => exact .inr (.inr (.inr ⟨g, code, hg, hu, hc, runOnceF_write hg hu hc⟩))

/-! ### C18 with formatting, part 1: failure (no assumption on `fmt`) -/

/-- a failing run leaves the file system exactly as it was; `fmt` is arbitrary (rustfmt is not even started) -/
theorem C18F_failure_preserves (k : Consts) (compile : List UInt8 → Option (List UInt8))
    (fmt : List UInt8 → List UInt8) (fs : FS)
    (h : (stepF k compile fmt true fs .run).2 = .err) : (stepF k compile fmt true fs .run).1 = fs := by
  simp only [stepF] at h ⊢
  rcases runOnceF_cases k compile fmt fs with ⟨_, hr⟩ | ⟨_, _, _, hr⟩ | ⟨_, _, _, _, hr⟩ | ⟨_, _, _, _, _, hr⟩
  · rw [hr]
  · rw [hr]
  · rw [hr]
  · rw [hr] at h; cases h

/-- … for either mode -/
theorem C18F_failure_preserves_any (k : Consts) (compile : List UInt8 → Option (List UInt8))
    (fmt : List UInt8 → List UInt8) (format : Bool) (fs : FS)
    (h : (stepF k compile fmt format fs .run).2 = .err) : (stepF k compile fmt format fs .run).1 = fs := by
  cases format with
  | true => exact C18F_failure_preserves k compile fmt fs h
  | false =>
    rw [stepF_false] at h ⊢
    exact C18_failure_preserves k compile fs h

/-! ### C18 with formatting, part 2: a destination just produced is left untouched -/

/-- the formatted output as destination is up to date for grammar `g` -/
theorem upToDateF_of_output (hk : KeepsHeaderLines k fmt) {fs : FS} {g code : List UInt8}
    (hd : fs.dest = some (fmt (output k g fs.pfx code))) : UpToDateF k fs g :=
  ⟨_, hd, hk g fs.pfx code⟩

/-- what a successful run establishes: the grammar is readable and the destination is up to date -/
theorem runF_ok_upToDate (hk : KeepsHeaderLines k fmt) {fs fs' : FS} {w : Bool}
    (h : stepF k compile fmt true fs .run = (fs', .ok w)) :
    fs'.grammar = fs.grammar ∧ fs'.pfx = fs.pfx ∧ ∃ g, fs'.grammar = some g ∧ UpToDateF k fs' g := by
  simp only [stepF] at h
  rcases runOnceF_cases k compile fmt fs with ⟨_, hr⟩ | ⟨g, hg, hu, hr⟩ | ⟨_, _, _, _, hr⟩ | ⟨g, code, hg, hu, hc, hr⟩
  · rw [hr] at h; cases h
  · rw [hr] at h; cases h; exact ⟨rfl, rfl, g, hg, hu⟩
  · rw [hr] at h; cases h
  · rw [hr] at h; cases h
    exact ⟨rfl, rfl, g, hg,
      upToDateF_of_output hk (fs := { fs with dest := some (fmt (output k g fs.pfx code)) }) rfl⟩

/-- **untouched**: a second run directly after a successful run is the identity and reports "not written" – whatever
    rustfmt did to the prefix text and the code, as long as it kept the header lines.  (This is the statement that
    was false for the real code before fix F8, see `C18F_old_untouched_fails`.) -/
theorem C18F_untouched (k : Consts) (compile : List UInt8 → Option (List UInt8)) (fmt : List UInt8 → List UInt8)
    (hk : KeepsHeaderLines k fmt) (fs fs' : FS) (w : Bool)
    (h : stepF k compile fmt true fs .run = (fs', .ok w)) :
    stepF k compile fmt true fs' .run = (fs', .ok false) := by
  obtain ⟨_, _, g, hg, hu⟩ := runF_ok_upToDate hk h
  exact runOnceF_upToDate hg hu

/-- **rewrite only when needed**: a destination that already is the formatted compilation of the current grammar with
    the current prefix is left untouched (whatever the compiler would answer now) -/
theorem C18F_rewrite_only_when_needed (k : Consts) (compile : List UInt8 → Option (List UInt8))
    (fmt : List UInt8 → List UInt8) (hk : KeepsHeaderLines k fmt) (fs : FS)
    (g code : List UInt8) (hg : fs.grammar = some g) (hd : fs.dest = some (fmt (output k g fs.pfx code))) :
    stepF k compile fmt true fs .run = (fs, .ok false) :=
  runOnceF_upToDate hg (upToDateF_of_output hk hd)

/-! ### The header lines determine the two CRCs -/

theorem headerLines_eq (k : Consts) (g p : List UInt8) :
    headerLines k g p = hdrA k ++ (hex8 (crc32 g) ++ (hdrB ++ (hex8 (crc32 p) ++ str "\n"))) := by
  simp only [headerLines, sourceHeader, hdrA, hdrB, List.append_assoc]

theorem headerLines_length (k : Consts) (g p g' p' : List UInt8) :
    (headerLines k g p).length = (headerLines k g' p').length := by
  simp only [headerLines_eq, List.length_append, hex8_length]

theorem headerLines_inj {k : Consts} {g p g' p' : List UInt8} (h : headerLines k g p = headerLines k g' p') :
    crc32 g = crc32 g' ∧ crc32 p = crc32 p' := by
  simp only [headerLines_eq] at h
  have h2 := List.append_cancel_left h
  obtain ⟨e1, h3⟩ := List.append_inj h2 (by simp only [hex8_length])
  have h4 := List.append_cancel_left h3
  obtain ⟨e2, _⟩ := List.append_inj h4 (by simp only [hex8_length])
  exact ⟨hex8_inj e1, hex8_inj e2⟩

/-- if a formatted produced destination starts with the header lines for `(g, p)`, it was produced from a grammar and
    a prefix with the same CRCs.  (Unlike `header_prefix_crc` there is no third conjunct: nothing relates the prefix
    texts.) -/
theorem header_lines_crc (hk : KeepsHeaderLines k fmt) {g p g' p' code' : List UInt8}
    (h : (fmt (output k g' p' code')).take (headerLines k g p).length = headerLines k g p) :
    crc32 g = crc32 g' ∧ crc32 p = crc32 p' := by
  rw [headerLines_length k g p g' p', hk g' p' code'] at h
  exact headerLines_inj h.symm

/-! ### The destinations the helper can have produced, with formatting -/

/-- `d` is the formatted compilation of a grammar text in `G` with a prefix in `P` -/
def ProducedOnF (k : Consts) (compile : List UInt8 → Option (List UInt8)) (fmt : List UInt8 → List UInt8)
    (G P : List UInt8 → Prop) (d : List UInt8) : Prop :=
  ∃ g p code, G g ∧ P p ∧ compile g = some code ∧ d = fmt (output k g p code)

/-- the current grammar text is in `G`, the current prefix in `P`, and an existing destination is the formatted
    compilation of a grammar text in `G` with a prefix in `P` -/
def InvOnF (k : Consts) (compile : List UInt8 → Option (List UInt8)) (fmt : List UInt8 → List UInt8)
    (G P : List UInt8 → Prop) (fs : FS) : Prop :=
  (∀ g, fs.grammar = some g → G g) ∧ P fs.pfx ∧ ∀ d, fs.dest = some d → ProducedOnF k compile fmt G P d

theorem invOnF_step {G P : List UInt8 → Prop} {fs : FS} (op : Op) (hop : OpOn G P op)
    (h : InvOnF k compile fmt G P fs) : InvOnF k compile fmt G P (stepF k compile fmt true fs op).1 := by
  obtain ⟨hG, hP, hD⟩ := h
  cases op with
  | editGrammar t =>
    refine ⟨?_, hP, hD⟩
    intro g hg
    cases t with
    | none => cases hg
    | some t => cases hg; exact hop
  | setPrefix p => exact ⟨hG, hop, hD⟩
  | deleteDest => exact ⟨hG, hP, fun d hd => by cases hd⟩
  | run =>
    simp only [stepF]
    rcases runOnceF_cases k compile fmt fs with ⟨_, hr⟩ | ⟨_, _, _, hr⟩ | ⟨_, _, _, _, hr⟩ | ⟨g, code, hg, hu, hc, hr⟩
    · rw [hr]; exact ⟨hG, hP, hD⟩
    · rw [hr]; exact ⟨hG, hP, hD⟩
    · rw [hr]; exact ⟨hG, hP, hD⟩
    · rw [hr]
      refine ⟨hG, hP, ?_⟩
      intro d hd; cases hd; exact ⟨g, fs.pfx, code, hG g hg, hP, hc, rfl⟩

theorem invOnF_runOps {G P : List UInt8 → Prop} (ops : List Op) {fs : FS} (hops : ∀ op ∈ ops, OpOn G P op)
    (h : InvOnF k compile fmt G P fs) : InvOnF k compile fmt G P (runOpsF k compile fmt true fs ops) := by
  induction ops generalizing fs with
  | nil => exact h
  | cons op ops ih =>
    exact ih (fun o ho => hops o (List.mem_cons_of_mem _ ho)) (invOnF_step op (hops op List.mem_cons_self) h)

/-! ### C18 with formatting, part 3: the history statement -/

/-- the conclusion: the destination is the formatted compilation of the grammar file as it is now, with the prefix as
    it is now -/
def FreshF (k : Consts) (compile : List UInt8 → Option (List UInt8)) (fmt : List UInt8 → List UInt8) (fs : FS) :
    Prop :=
  ∃ g code, fs.grammar = some g ∧ compile g = some code ∧ fs.dest = some (fmt (output k g fs.pfx code))

/-- single-state core, with the weakest collision hypothesis the proof needs (cf. `C18_fresh_core`) -/
theorem C18F_fresh_core (hk : KeepsHeaderLines k fmt) {G P : List UInt8 → Prop} {fs fs' : FS} {w : Bool}
    (hinv : ∀ d, fs.dest = some d → ProducedOnF k compile fmt G P d)
    (hG : ∀ g g', fs.grammar = some g → G g' → crc32 g = crc32 g' → g = g')
    (hP : ∀ p', P p' → crc32 fs.pfx = crc32 p' → fs.pfx = p')
    (h : stepF k compile fmt true fs .run = (fs', .ok w)) : FreshF k compile fmt fs' := by
  simp only [stepF] at h
  rcases runOnceF_cases k compile fmt fs with ⟨_, hr⟩ | ⟨g, hg, hu, hr⟩ | ⟨_, _, _, _, hr⟩ | ⟨g, code, hg, hu, hc, hr⟩
  · rw [hr] at h; cases h
  · rw [hr] at h; cases h
    obtain ⟨d, hd, ht⟩ := hu
    obtain ⟨g', p', code', hg', hp', hc', e⟩ := hinv d hd
    subst e
    obtain ⟨eg, ep⟩ := header_lines_crc hk ht
    have e1 : g = g' := hG g g' hg hg' eg
    have e2 : fs.pfx = p' := hP p' hp' ep
    subst e1
    exact ⟨g, code', hg, hc', by rw [hd, e2]⟩
  · rw [hr] at h; cases h
  · rw [hr] at h; cases h
    exact ⟨g, code, hg, hc, rfl⟩

/-- **C18 with formatting (history statement), conditional on CRC-32 not colliding on the texts involved.**
    `G` / `P` are any sets containing the grammar texts / prefixes of the initial state and of the operations of the
    history; CRC-32 must be injective on `G` and on `P`. -/
theorem C18F_fresh_partial (k : Consts) (compile : List UInt8 → Option (List UInt8)) (fmt : List UInt8 → List UInt8)
    (hk : KeepsHeaderLines k fmt) (G P : List UInt8 → Prop)
    (hcG : CrcInjOn G) (hcP : CrcInjOn P)
    (fs0 : FS) (ops : List Op) (fs' : FS) (w : Bool)
    (h0 : InvOnF k compile fmt G P fs0) (hops : ∀ op ∈ ops, OpOn G P op)
    (h : stepF k compile fmt true (runOpsF k compile fmt true fs0 ops) .run = (fs', .ok w)) :
    ∃ g code, fs'.grammar = some g ∧ compile g = some code ∧ fs'.dest = some (fmt (output k g fs'.pfx code)) := by
  obtain ⟨iG, iP, iD⟩ := invOnF_runOps ops hops h0
  exact C18F_fresh_core hk iD (fun g g' hg hg' => hcG g (iG g hg) g' hg') (fun p' hp' => hcP _ iP p' hp') h

/-- **Freshness over histories with formatting** (finite form, like `C18_fresh_partial_history`): after any history
    that started without a destination, under CRC-32 non-collision on the grammar texts and on the prefixes of the
    history, a successful run leaves the formatted compilation of the current grammar with the current prefix.

    Difference to the mode without formatting: there the prefix *text* is compared as well, so of two prefixes with
    the same CRC-32 only an initial-segment pair (more precisely: the new prefix an initial segment of "old prefix,
    newline, code") goes unnoticed; with formatting the prefix text cannot be compared (rustfmt rewrites it), so ANY
    two distinct prefixes with the same CRC-32 are indistinguishable – `C18F_prefix_collision_witness`.  The
    hypothesis `hcP` excludes both. -/
theorem C18F_fresh_partial_history (k : Consts) (compile : List UInt8 → Option (List UInt8))
    (fmt : List UInt8 → List UInt8) (hk : KeepsHeaderLines k fmt)
    (fs0 : FS) (ops : List Op) (fs' : FS) (w : Bool)
    (h0 : fs0.dest = none)
    (hcG : CrcInjOn (· ∈ grammarTexts fs0 ops)) (hcP : CrcInjOn (· ∈ prefixTexts fs0 ops))
    (h : stepF k compile fmt true (runOpsF k compile fmt true fs0 ops) .run = (fs', .ok w)) :
    ∃ g code, fs'.grammar = some g ∧ compile g = some code ∧ fs'.dest = some (fmt (output k g fs'.pfx code)) := by
  refine C18F_fresh_partial k compile fmt hk _ _ hcG hcP fs0 ops fs' w ⟨?_, ?_, ?_⟩ ?_ h
  · intro g hg
    simp only [grammarTexts, hg, Option.toList_some, List.mem_append, List.mem_singleton, true_or]
  · simp only [prefixTexts, List.mem_cons, true_or]
  · intro d hd; rw [h0] at hd; cases hd
  · intro op hop
    cases op with
    | editGrammar t =>
      cases t with
      | none => trivial
      | some t =>
        simp only [OpOn, grammarTexts, List.mem_append, List.mem_filterMap]
        exact .inr ⟨_, hop, rfl⟩
    | setPrefix p =>
      simp only [OpOn, prefixTexts, List.mem_cons, List.mem_filterMap]
      exact .inr ⟨_, hop, rfl⟩
    | deleteDest => trivial
    | run => trivial

/-! ### Concrete instances -/

namespace FmtWitness
open Witness

/-- a small stand-in for rustfmt: leaves the first four lines alone and squeezes runs of spaces in the rest of the
    file to one space -/
def squeeze : List UInt8 → List UInt8
  | [] => []
  | b :: xs => if b = 32 ∧ xs.head? = some 32 then squeeze xs else b :: squeeze xs

def fmtSq : List UInt8 → List UInt8 := keepLines squeeze 4

/-- `fmtSq` satisfies the assumption (for the constants `k0` of `Witness`) and is not the identity -/
theorem keeps_fmtSq : KeepsHeaderLines k0 fmtSq :=
  keepsHeaderLines_keepLines squeeze (by decide +kernel) (by decide +kernel)

def gW : List UInt8 := str "A='x';"
/-- a prefix that the formatter rewrites (two spaces) -/
def pW : List UInt8 := str "use  a;"
def fsW : FS := ⟨some gW, none, pW⟩
/-- the destination after the first run: the prefix text now reads `use a;` -/
def dW : List UInt8 := headerLines k0 gW pW ++ str "\nuse a;\n" ++ [99]
def fsW' : FS := ⟨some gW, some dW, pW⟩

theorem fmtSq_rewrites : fmtSq (output k0 gW pW [99]) = dW ∧ dW ≠ output k0 gW pW [99] := by decide +kernel

end FmtWitness

/-! #### With formatting, any two prefixes with the same CRC-32 are indistinguishable

    `Witness.g1` / `Witness.g2` are two texts with the same CRC-32 (`fd872ce9`), neither an initial segment of the
    other; used as *prefixes* here.  Without formatting the change of the prefix from the one to the other is
    noticed (the prefix text is compared: the run rewrites the destination); with formatting it is not. -/

namespace FmtWitness
open Witness

def opsPF : List Op := [.editGrammar (some gP), .setPrefix g1, .run, .setPrefix g2]
def fsEndPF : FS := ⟨some gP, some (fmtSq (output k0 gP g1 [99])), g2⟩

theorem second_runPF :
    stepF k0 compP fmtSq true (runOpsF k0 compP fmtSq true fs0 opsPF) .run = (fsEndPF, .ok false) := by
  decide +kernel

theorem second_runP_noformat :
    Build.step k0 compP (runOps k0 compP fs0 opsPF) .run =
      (⟨some gP, some (output k0 gP g2 [99]), g2⟩, .ok true) := by
  decide +kernel

theorem outputs_differPF : fmtSq (output k0 gP g1 [99]) ≠ fmtSq (output k0 gP g2 [99]) := by decide +kernel

end FmtWitness

open Witness FmtWitness in
/-- two prefixes with the same CRC-32, neither an initial segment of the other, a single grammar text, a constant
    compiler, a formatter satisfying `KeepsHeaderLines`: with formatting the second run reports "not written" and
    keeps the destination made with the old prefix; without formatting the same history ends in a rewrite. -/
theorem C18F_prefix_collision_witness :
    g1 ≠ g2 ∧ crc32 g1 = crc32 g2 ∧ KeepsHeaderLines k0 fmtSq ∧ fs0.dest = none ∧
    stepF k0 compP fmtSq true (runOpsF k0 compP fmtSq true fs0 opsPF) .run = (fsEndPF, .ok false) ∧
    (¬ ∃ g code, fsEndPF.grammar = some g ∧ compP g = some code ∧
        fsEndPF.dest = some (fmtSq (output k0 g fsEndPF.pfx code))) ∧
    Build.step k0 compP (runOps k0 compP fs0 opsPF) .run = (⟨some gP, some (output k0 gP g2 [99]), g2⟩, .ok true) := by
  refine ⟨g1_ne_g2, crc_collision, keeps_fmtSq, rfl, second_runPF, ?_, second_runP_noformat⟩
  rintro ⟨g, code, hg, hc, hd⟩
  have e : g = gP := by
    simp only [fsEndPF, Option.some.injEq] at hg; exact hg.symm
  subst e
  have e2 : code = [99] := by
    simp only [compP, Option.some.injEq] at hc; exact hc.symm
  subst e2
  simp only [fsEndPF, Option.some.injEq] at hd
  exact outputs_differPF hd

/-- hence the hypothesis on the prefixes cannot be dropped from `C18F_fresh_partial_history`, nor weakened to
    "no initial-segment pair" -/
theorem C18F_fresh_needs_prefix_hypothesis :
    ¬ ∀ (k : Consts) (compile : List UInt8 → Option (List UInt8)) (fmt : List UInt8 → List UInt8),
      KeepsHeaderLines k fmt → ∀ (fs0 : FS) (ops : List Op) (fs' : FS) (w : Bool), fs0.dest = none →
      CrcInjOn (· ∈ grammarTexts fs0 ops) →
      stepF k compile fmt true (runOpsF k compile fmt true fs0 ops) .run = (fs', .ok w) →
      ∃ g code, fs'.grammar = some g ∧ compile g = some code ∧ fs'.dest = some (fmt (output k g fs'.pfx code)) := by
  intro h
  obtain ⟨_, _, hk, h0, hrun, hn, _⟩ := C18F_prefix_collision_witness
  refine hn (h _ _ _ hk _ _ _ _ h0 ?_ hrun)
  have hl : ∀ a ∈ grammarTexts Witness.fs0 FmtWitness.opsPF, ∀ b ∈ grammarTexts Witness.fs0 FmtWitness.opsPF,
      crc32 a = crc32 b → a = b := by decide +kernel
  exact hl

/-! ### 4. Necessity: the behaviour before fix F8

    Before the fix the helper with `.format()` compared the *full* header – header lines, blank line and the prefix
    text – with the start of the destination, although the destination had been rewritten by rustfmt. -/

/-- the OLD `Compile::run` with `.format()`: `runOnceF … true` with `cmp := hdr` -/
def runOnceOld (k : Consts) (compile : List UInt8 → Option (List UInt8)) (fmt : List UInt8 → List UInt8)
    (fs : FS) : FS × Out :=
  match fs.grammar with
  | none => (fs, .err)
  | some g =>
    let hdr := fullHeader k g fs.pfx
    let upToDate := match fs.dest with
      | some d => d.take hdr.length == hdr
      | none => false
    if upToDate then (fs, .ok false)
    else match compile g with
      | none => (fs, .err)
      | some code => ({ fs with dest := some (fmt (hdr ++ str "\n" ++ code)) }, .ok true)

/-- with the identity as formatter the old behaviour is the behaviour without formatting (the defect only shows with
    a prefix text that rustfmt rewrites) -/
theorem runOnceOld_id (k : Consts) (compile : List UInt8 → Option (List UInt8)) (fs : FS) :
    runOnceOld k compile id fs = runOnce k compile fs := rfl

open Witness FmtWitness in
/-- **"untouched" fails for the old behaviour**: the prefix `use  a;` (two spaces), a formatter that keeps the header
    lines and squeezes the two spaces: the first run writes, the second run – nothing has changed in between – does
    not recognise its own output and writes again (and so would every further run: the state is a fixed point). -/
theorem C18F_old_untouched_fails :
    KeepsHeaderLines k0 fmtSq ∧
    runOnceOld k0 compP fmtSq fsW = (fsW', .ok true) ∧
    runOnceOld k0 compP fmtSq fsW' = (fsW', .ok true) := by
  exact ⟨keeps_fmtSq, by decide +kernel, by decide +kernel⟩

open Witness FmtWitness in
/-- the same instance with the repaired comparison: the second run leaves the destination alone -/
theorem C18F_new_untouched_instance :
    stepF k0 compP fmtSq true fsW .run = (fsW', .ok true) ∧
    stepF k0 compP fmtSq true fsW' .run = (fsW', .ok false) := by
  have h1 : stepF k0 compP fmtSq true fsW .run = (fsW', .ok true) := by decide +kernel
  exact ⟨h1, C18F_untouched k0 compP fmtSq keeps_fmtSq fsW fsW' true h1⟩

/-- the statement of `C18F_untouched` for the old behaviour, as a `Prop` … -/
def C18F_old_untouched_statement : Prop :=
  ∀ (k : Consts) (compile : List UInt8 → Option (List UInt8)) (fmt : List UInt8 → List UInt8),
    KeepsHeaderLines k fmt → ∀ (fs fs' : FS) (w : Bool),
    runOnceOld k compile fmt fs = (fs', .ok w) → runOnceOld k compile fmt fs' = (fs', .ok false)

/-- … is false -/
theorem C18F_old_untouched_false : ¬ C18F_old_untouched_statement := by
  intro h
  obtain ⟨hk, h1, h2⟩ := C18F_old_untouched_fails
  have h3 := h _ _ _ hk _ _ _ h1
  rw [h2] at h3
  cases h3

/-! ### Non-vacuity of the history theorem with formatting -/

section Examples
open Witness FmtWitness

/-- a history with two grammar texts and two prefixes (one of which the formatter rewrites) whose CRC-32 values are
    pairwise different -/
def exOpsF : List Op :=
  [.editGrammar (some (str "A = 'x';")), .setPrefix (str "use  a;"), .run,
   .editGrammar (some (str "A = 'y';")), .run, .setPrefix (str "use  b;")]

def exEndF : FS :=
  ⟨some (str "A = 'y';"), some (fmtSq (output k0 (str "A = 'y';") (str "use  b;") [99])), str "use  b;"⟩

theorem exF_hcG : CrcInjOn (· ∈ grammarTexts fs0 exOpsF) := by
  have h : ∀ a ∈ grammarTexts fs0 exOpsF, ∀ b ∈ grammarTexts fs0 exOpsF, crc32 a = crc32 b → a = b := by
    decide +kernel
  exact h

theorem exF_hcP : CrcInjOn (· ∈ prefixTexts fs0 exOpsF) := by
  have h : ∀ a ∈ prefixTexts fs0 exOpsF, ∀ b ∈ prefixTexts fs0 exOpsF, crc32 a = crc32 b → a = b := by
    decide +kernel
  exact h

theorem exF_last_run :
    stepF k0 compP fmtSq true (runOpsF k0 compP fmtSq true fs0 exOpsF) .run = (exEndF, .ok true) := by
  decide +kernel

example : ∃ g code, exEndF.grammar = some g ∧ compP g = some code ∧
    exEndF.dest = some (fmtSq (output k0 g exEndF.pfx code)) :=
  C18F_fresh_partial_history k0 compP fmtSq keeps_fmtSq fs0 exOpsF exEndF true rfl exF_hcG exF_hcP exF_last_run

/-- the formatted destination differs from the unformatted one (the formatter really rewrote the prefix) … -/
example : fmtSq (output k0 (str "A = 'y';") (str "use  b;") [99]) ≠ output k0 (str "A = 'y';") (str "use  b;") [99] := by
  decide +kernel

/-- … and the next run leaves it alone -/
example : stepF k0 compP fmtSq true exEndF .run = (exEndF, .ok false) :=
  C18F_untouched k0 compP fmtSq keeps_fmtSq _ exEndF true exF_last_run

/-- `C18F_rewrite_only_when_needed` at `exEndF` -/
example : stepF k0 compP fmtSq true exEndF .run = (exEndF, .ok false) :=
  C18F_rewrite_only_when_needed k0 compP fmtSq keeps_fmtSq exEndF (str "A = 'y';") [99] rfl rfl

/-- `C18F_failure_preserves`: unreadable grammar file, existing destination -/
example : (stepF k0 compP fmtSq true ⟨none, some [1, 2, 3], []⟩ .run).2 = .err ∧
    (stepF k0 compP fmtSq true ⟨none, some [1, 2, 3], []⟩ .run).1 = ⟨none, some [1, 2, 3], []⟩ :=
  ⟨rfl, C18F_failure_preserves k0 compP fmtSq _ rfl⟩

end Examples

end Peg
