import PegVerif.Build
/-
  Property C18 – freshness of the build-script helper `Compile` (model: `PegVerif/Build.lean`).

  * `runOnce_*`                    – the four cases of one run, as equations;
  * `C18_failure_preserves`, `C18_err_iff` – a failing run changes nothing; exact characterisation of failure;
  * `C18_untouched`                – a run directly after a successful run is the identity and reports "not written";
  * `hex8_length`, `hex8_inj`, `header_prefix_crc` – the up-to-date test compares exactly the two CRCs (and the prefix text);
  * `Produced`, `Inv`, `inv_step`, `inv_runOps` – the destinations the helper can have produced;
  * `ProducedOn`, `InvOn`, `invOn_step`, `invOn_runOps` – the same, tracking which grammar texts / prefixes occurred;
  * `C18_fresh_core`, `C18_fresh_partial`, `C18_fresh_partial_global`, `C18_fresh_partial_history` – the history
    statement under "CRC-32 does not collide on the texts involved";
  * `C18_fresh_statement`, `C18_crc_collision_witness`, `C18_fresh_false` – the unconditional statement is false;
  * `C18_rewrite_only_when_needed` – an up-to-date destination is left untouched;
  * concrete examples.
-/
namespace Peg
open Build

variable {k : Consts} {compile : List UInt8 → Option (List UInt8)}

/-! ### One run, case by case -/

/-- the destination starts with the full header of grammar `g` and the current prefix (the Prop reading of the
    `upToDate` test of `runOnce`) -/
def UpToDate (k : Consts) (fs : FS) (g : List UInt8) : Prop :=
  ∃ d, fs.dest = some d ∧ d.take (fullHeader k g fs.pfx).length = fullHeader k g fs.pfx

theorem runOnce_unreadable {fs : FS} (hg : fs.grammar = none) :
    runOnce k compile fs = (fs, .err) := by
  simp only [runOnce, hg]

theorem runOnce_upToDate {fs : FS} {g : List UInt8} (hg : fs.grammar = some g) (hu : UpToDate k fs g) :
    runOnce k compile fs = (fs, .ok false) := by
  obtain ⟨d, hd, ht⟩ := hu
  simp only [runOnce, hg, hd, ht, beq_self_eq_true, if_true]

/-- the `upToDate` test of `runOnce` as a function -/
def upToDateB (k : Consts) (fs : FS) (g : List UInt8) : Bool :=
  match fs.dest with
  | some d => d.take (fullHeader k g fs.pfx).length == fullHeader k g fs.pfx
  | none => false

theorem runOnce_eq (k : Consts) (compile : List UInt8 → Option (List UInt8)) (fs : FS) :
    runOnce k compile fs =
      match fs.grammar with
      | none => (fs, .err)
      | some g =>
        if upToDateB k fs g then (fs, .ok false)
        else match compile g with
          | none => (fs, .err)
          | some code => ({ fs with dest := some (output k g fs.pfx code) }, .ok true) := rfl

theorem upToDateB_iff {fs : FS} {g : List UInt8} : upToDateB k fs g = true ↔ UpToDate k fs g := by
  unfold upToDateB UpToDate
  constructor
  · intro h
    split at h
    · rename_i d hd
      exact ⟨d, hd, by simpa using h⟩
    · cases h
  · rintro ⟨d, hd, ht⟩
    simp only [hd, ht, beq_self_eq_true]

theorem runOnce_invalid {fs : FS} {g : List UInt8} (hg : fs.grammar = some g) (hu : ¬ UpToDate k fs g)
    (hc : compile g = none) : runOnce k compile fs = (fs, .err) := by
  rw [runOnce_eq]
  simp only [hg, if_neg (mt upToDateB_iff.mp hu), hc]

theorem runOnce_write {fs : FS} {g code : List UInt8} (hg : fs.grammar = some g) (hu : ¬ UpToDate k fs g)
    (hc : compile g = some code) :
    runOnce k compile fs = ({ fs with dest := some (output k g fs.pfx code) }, .ok true) := by
  rw [runOnce_eq]
  simp only [hg, if_neg (mt upToDateB_iff.mp hu), hc]

/-- complete case analysis of one run -/
theorem runOnce_cases (k : Consts) (compile : List UInt8 → Option (List UInt8)) (fs : FS) :
    (fs.grammar = none ∧ runOnce k compile fs = (fs, .err)) ∨
    (∃ g, fs.grammar = some g ∧ UpToDate k fs g ∧ runOnce k compile fs = (fs, .ok false)) ∨
    (∃ g, fs.grammar = some g ∧ ¬ UpToDate k fs g ∧ compile g = none ∧ runOnce k compile fs = (fs, .err)) ∨
    (∃ g code, fs.grammar = some g ∧ ¬ UpToDate k fs g ∧ compile g = some code ∧
      runOnce k compile fs = ({ fs with dest := some (output k g fs.pfx code) }, .ok true)) := by
  rcases Option.eq_none_or_eq_some fs.grammar with hg | ⟨g, hg⟩
  · exact .inl ⟨hg, runOnce_unreadable hg⟩
  · by_cases hu : UpToDate k fs g
    · exact .inr (.inl ⟨g, hg, hu, runOnce_upToDate hg hu⟩)
    · cases hc : compile g with
      | none => exact .inr (.inr (.inl ⟨g, hg, hu, hc, runOnce_invalid hg hu hc⟩))
      | some code => exact .inr (.inr (.inr ⟨g, code, hg, hu, hc, runOnce_write hg hu hc⟩))

/-! ### C18, part 1: failure -/

/-- a failing run leaves the file system (in particular an existing destination) exactly as it was -/
theorem C18_failure_preserves (k : Consts) (compile : List UInt8 → Option (List UInt8)) (fs : FS)
    (h : (Build.step k compile fs .run).2 = .err) : (Build.step k compile fs .run).1 = fs := by
  simp only [Build.step] at h ⊢
  rcases runOnce_cases k compile fs with ⟨_, hr⟩ | ⟨_, _, _, hr⟩ | ⟨_, _, _, _, hr⟩ | ⟨_, _, _, _, _, hr⟩
  · rw [hr]
  · rw [hr]
  · rw [hr]
  · rw [hr] at h; cases h

/-- a run fails exactly when the grammar is unreadable, or it does not compile and the destination is not already
    up to date -/
theorem C18_err_iff (k : Consts) (compile : List UInt8 → Option (List UInt8)) (fs : FS) :
    (Build.step k compile fs .run).2 = .err ↔
      (fs.grammar = none ∨ ∃ g, fs.grammar = some g ∧ compile g = none ∧ ¬ UpToDate k fs g) := by
  simp only [Build.step]
  rcases runOnce_cases k compile fs with ⟨hg, hr⟩ | ⟨g, hg, hu, hr⟩ | ⟨g, hg, hu, hc, hr⟩ | ⟨g, code, hg, hu, hc, hr⟩
  · rw [hr]; exact ⟨fun _ => .inl hg, fun _ => rfl⟩
  · rw [hr]
    refine ⟨fun h => (by cases h), ?_⟩
    rintro (h | ⟨g', hg', _, hu'⟩)
    · rw [hg] at h; cases h
    · rw [hg] at hg'; cases hg'; exact absurd hu hu'
  · rw [hr]; exact ⟨fun _ => .inr ⟨g, hg, hc, hu⟩, fun _ => rfl⟩
  · rw [hr]
    refine ⟨fun h => (by cases h), ?_⟩
    rintro (h | ⟨g', hg', hc', _⟩)
    · rw [hg] at h; cases h
    · rw [hg] at hg'; cases hg'; rw [hc] at hc'; cases hc'

/-- a failing run reports `.err`, a non-failing one `.ok _`; a run never reports `.none` -/
theorem run_out_ne_none (k : Consts) (compile : List UInt8 → Option (List UInt8)) (fs : FS) :
    (Build.step k compile fs .run).2 ≠ .none := by
  simp only [Build.step]
  rcases runOnce_cases k compile fs with ⟨_, hr⟩ | ⟨_, _, _, hr⟩ | ⟨_, _, _, _, hr⟩ | ⟨_, _, _, _, _, hr⟩ <;>
    rw [hr] <;> intro h <;> cases h

/-! ### C18, part 2: a destination just produced is left untouched -/

theorem take_length_append {α : Type} (hdr rest : List α) : (hdr ++ rest).take hdr.length = hdr := by
  simp

theorem output_take_header (k : Consts) (g p code : List UInt8) :
    (output k g p code).take (fullHeader k g p).length = fullHeader k g p := by
  simp only [output, List.append_assoc]
  exact take_length_append _ _

/-- `output k g fs.pfx code` as destination is up to date for grammar `g` -/
theorem upToDate_of_output {fs : FS} {g code : List UInt8} (hd : fs.dest = some (output k g fs.pfx code)) :
    UpToDate k fs g := ⟨_, hd, output_take_header k g fs.pfx code⟩

/-- what a successful run establishes: the grammar is readable and the destination is up to date -/
theorem run_ok_upToDate {fs fs' : FS} {w : Bool} (h : Build.step k compile fs .run = (fs', .ok w)) :
    fs'.grammar = fs.grammar ∧ fs'.pfx = fs.pfx ∧ ∃ g, fs'.grammar = some g ∧ UpToDate k fs' g := by
  simp only [Build.step] at h
  rcases runOnce_cases k compile fs with ⟨_, hr⟩ | ⟨g, hg, hu, hr⟩ | ⟨_, _, _, _, hr⟩ | ⟨g, code, hg, hu, hc, hr⟩
  · rw [hr] at h; cases h
  · rw [hr] at h; cases h; exact ⟨rfl, rfl, g, hg, hu⟩
  · rw [hr] at h; cases h
  · rw [hr] at h; cases h
    exact ⟨rfl, rfl, g, hg, upToDate_of_output (fs := { fs with dest := some (output k g fs.pfx code) }) rfl⟩

/-- a second run directly after a successful run is the identity and reports "not written" -/
theorem C18_untouched (k : Consts) (compile : List UInt8 → Option (List UInt8)) (fs fs' : FS) (w : Bool)
    (h : Build.step k compile fs .run = (fs', .ok w)) :
    Build.step k compile fs' .run = (fs', .ok false) := by
  obtain ⟨_, _, g, hg, hu⟩ := run_ok_upToDate h
  exact runOnce_upToDate hg hu

/-! ### `hex8` -/

theorem hexDigitU8_inj : ∀ a, a < 16 → ∀ b, b < 16 → hexDigitU8 a = hexDigitU8 b → a = b := by decide

theorem hex8_length (x : UInt32) : (hex8 x).length = 8 := by simp [hex8]

theorem hex8_inj {x y : UInt32} (h : hex8 x = hex8 y) : x = y := by
  have hx : x.toNat < 4294967296 := x.toNat_lt
  have hy : y.toNat < 4294967296 := y.toNat_lt
  apply UInt32.toNat_inj.mp
  simp only [hex8, show List.range 8 = [0, 1, 2, 3, 4, 5, 6, 7] from rfl, List.map, List.cons.injEq,
    Nat.reduceSub, Nat.reducePow, and_true, Nat.div_one] at h
  generalize x.toNat = n at *
  generalize y.toNat = m at *
  obtain ⟨h0, h1, h2, h3, h4, h5, h6, h7⟩ := h
  have d := fun (a b : Nat) (h : hexDigitU8 (a % 16) = hexDigitU8 (b % 16)) =>
    hexDigitU8_inj (a % 16) (Nat.mod_lt _ (by decide)) (b % 16) (Nat.mod_lt _ (by decide)) h
  have e0 := d _ _ h0
  have e1 := d _ _ h1
  have e2 := d _ _ h2
  have e3 := d _ _ h3
  have e4 := d _ _ h4
  have e5 := d _ _ h5
  have e6 := d _ _ h6
  have e7 := d _ _ h7
  omega

/-! ### The shape of the header -/

/-- fixed text in front of the grammar CRC -/
def hdrA (k : Consts) : List UInt8 :=
  str "// This file was generated by Peginator v" ++ (k.version ++ (str " built at " ++ (k.buildTime ++ (str "\n" ++
  str "// CRC-32/ISO-HDLC of the grammar file: "))))

/-- fixed text between the grammar CRC and the prefix CRC -/
def hdrB : List UInt8 :=
  str "\n" ++ (str "// Any changes to it will be lost on regeneration\n" ++ str "// CRC-32/ISO-HDLC of the prefix: ")

theorem fullHeader_eq (k : Consts) (g p : List UInt8) :
    fullHeader k g p = hdrA k ++ (hex8 (crc32 g) ++ (hdrB ++ (hex8 (crc32 p) ++ (str "\n\n" ++ p)))) := by
  simp only [fullHeader, sourceHeader, hdrA, hdrB, List.append_assoc]

/-- if a produced destination starts with the header for `(g, p)`, it was produced from a grammar and a prefix with
    the same CRCs, and `p` is an initial segment of "producing prefix, newline, code" -/
theorem header_prefix_crc {k : Consts} {g p g' p' code' : List UInt8}
    (h : (output k g' p' code').take (fullHeader k g p).length = fullHeader k g p) :
    crc32 g = crc32 g' ∧ crc32 p = crc32 p' ∧ ∃ t, p' ++ (str "\n" ++ code') = p ++ t := by
  have h1 : output k g' p' code' = fullHeader k g p ++ (output k g' p' code').drop (fullHeader k g p).length := by
    conv => lhs; rw [← List.take_append_drop (fullHeader k g p).length (output k g' p' code')]
    rw [h]
  generalize (output k g' p' code').drop (fullHeader k g p).length = t at h1
  simp only [output, fullHeader_eq, List.append_assoc] at h1
  have h2 := List.append_cancel_left h1
  obtain ⟨e1, h3⟩ := List.append_inj h2 (by simp only [hex8_length])
  have h4 := List.append_cancel_left h3
  obtain ⟨e2, h5⟩ := List.append_inj h4 (by simp only [hex8_length])
  have h6 := List.append_cancel_left h5
  exact ⟨(hex8_inj e1).symm, (hex8_inj e2).symm, t, h6⟩

/-! ### The destinations the helper can have produced -/

/-- `d` is the compilation of some grammar text with some prefix -/
def Produced (k : Consts) (compile : List UInt8 → Option (List UInt8)) (d : List UInt8) : Prop :=
  ∃ g p code, compile g = some code ∧ d = output k g p code

/-- an existing destination was produced by the helper -/
def Inv (k : Consts) (compile : List UInt8 → Option (List UInt8)) (fs : FS) : Prop :=
  ∀ d, fs.dest = some d → Produced k compile d

theorem inv_of_no_dest {fs : FS} (h : fs.dest = none) : Inv k compile fs := by
  intro d hd; rw [h] at hd; cases hd

theorem inv_step {fs : FS} (op : Op) (h : Inv k compile fs) : Inv k compile (Build.step k compile fs op).1 := by
  cases op with
  | editGrammar t => exact h
  | setPrefix p => exact h
  | deleteDest => intro d hd; cases hd
  | run =>
    simp only [Build.step]
    rcases runOnce_cases k compile fs with ⟨_, hr⟩ | ⟨_, _, _, hr⟩ | ⟨_, _, _, _, hr⟩ | ⟨g, code, hg, hu, hc, hr⟩
    · rw [hr]; exact h
    · rw [hr]; exact h
    · rw [hr]; exact h
    · rw [hr]; intro d hd; cases hd; exact ⟨g, fs.pfx, code, hc, rfl⟩

theorem inv_runOps (ops : List Op) {fs : FS} (h : Inv k compile fs) : Inv k compile (runOps k compile fs ops) := by
  induction ops generalizing fs with
  | nil => exact h
  | cons op ops ih => exact ih (inv_step op h)

/-! #### … tracking which grammar texts and prefixes occurred -/

/-- `d` is the compilation of a grammar text in `G` with a prefix in `P` -/
def ProducedOn (k : Consts) (compile : List UInt8 → Option (List UInt8)) (G P : List UInt8 → Prop)
    (d : List UInt8) : Prop :=
  ∃ g p code, G g ∧ P p ∧ compile g = some code ∧ d = output k g p code

/-- the current grammar text is in `G`, the current prefix in `P`, and an existing destination was produced from a
    grammar text in `G` and a prefix in `P` -/
def InvOn (k : Consts) (compile : List UInt8 → Option (List UInt8)) (G P : List UInt8 → Prop) (fs : FS) : Prop :=
  (∀ g, fs.grammar = some g → G g) ∧ P fs.pfx ∧ ∀ d, fs.dest = some d → ProducedOn k compile G P d

/-- the texts an operation introduces are in `G` / `P` -/
def OpOn (G P : List UInt8 → Prop) : Op → Prop
  | .editGrammar (some t) => G t
  | .setPrefix p => P p
  | _ => True

theorem invOn_step {G P : List UInt8 → Prop} {fs : FS} (op : Op) (hop : OpOn G P op)
    (h : InvOn k compile G P fs) : InvOn k compile G P (Build.step k compile fs op).1 := by
  obtain ⟨hG, hP, hD⟩ := h
  cases op with
  | editGrammar t =>
    refine ⟨?_, hP, hD⟩
    intro g hg
    cases t with
    | none => cases hg
    | some t => cases hg; exact hop
  | setPrefix p => exact ⟨hG, hop, hD⟩
  | deleteDest => exact ⟨hG, hP, fun d hd => by cases hd⟩
  | run =>
    simp only [Build.step]
    rcases runOnce_cases k compile fs with ⟨_, hr⟩ | ⟨_, _, _, hr⟩ | ⟨_, _, _, _, hr⟩ | ⟨g, code, hg, hu, hc, hr⟩
    · rw [hr]; exact ⟨hG, hP, hD⟩
    · rw [hr]; exact ⟨hG, hP, hD⟩
    · rw [hr]; exact ⟨hG, hP, hD⟩
    · rw [hr]
      refine ⟨hG, hP, ?_⟩
      intro d hd; cases hd; exact ⟨g, fs.pfx, code, hG g hg, hP, hc, rfl⟩

theorem invOn_runOps {G P : List UInt8 → Prop} (ops : List Op) {fs : FS} (hops : ∀ op ∈ ops, OpOn G P op)
    (h : InvOn k compile G P fs) : InvOn k compile G P (runOps k compile fs ops) := by
  induction ops generalizing fs with
  | nil => exact h
  | cons op ops ih =>
    exact ih (fun o ho => hops o (List.mem_cons_of_mem _ ho)) (invOn_step op (hops op List.mem_cons_self) h)

theorem inv_of_invOn {G P : List UInt8 → Prop} {fs : FS} (h : InvOn k compile G P fs) : Inv k compile fs := by
  intro d hd
  obtain ⟨g, p, code, _, _, hc, e⟩ := h.2.2 d hd
  exact ⟨g, p, code, hc, e⟩

theorem invOn_of_inv {fs : FS} (h : Inv k compile fs) : InvOn k compile (fun _ => True) (fun _ => True) fs := by
  refine ⟨fun _ _ => trivial, trivial, ?_⟩
  intro d hd
  obtain ⟨g, p, code, hc, e⟩ := h d hd
  exact ⟨g, p, code, trivial, trivial, hc, e⟩

/-! ### C18, part 3: the history statement -/

/-- CRC-32 is injective on the texts satisfying `S` -/
def CrcInjOn (S : List UInt8 → Prop) : Prop := ∀ a, S a → ∀ b, S b → crc32 a = crc32 b → a = b

/-- the conclusion of C18: the destination is the compilation of the grammar file as it is now, with the prefix as
    it is now -/
def Fresh (k : Consts) (compile : List UInt8 → Option (List UInt8)) (fs : FS) : Prop :=
  ∃ g code, fs.grammar = some g ∧ compile g = some code ∧ fs.dest = some (output k g fs.pfx code)

/-- Single-state core, with the weakest collision hypothesis the proof needs: the *current* grammar text does not
    share its CRC-32 with a *different* grammar text in `G`, and the *current* prefix does not share its CRC-32 with
    a different prefix in `P`, where `G` / `P` contain the texts the existing destination was produced from. -/
theorem C18_fresh_core {G P : List UInt8 → Prop} {fs fs' : FS} {w : Bool}
    (hinv : ∀ d, fs.dest = some d → ProducedOn k compile G P d)
    (hG : ∀ g g', fs.grammar = some g → G g' → crc32 g = crc32 g' → g = g')
    (hP : ∀ p', P p' → crc32 fs.pfx = crc32 p' → fs.pfx = p')
    (h : Build.step k compile fs .run = (fs', .ok w)) : Fresh k compile fs' := by
  simp only [Build.step] at h
  rcases runOnce_cases k compile fs with ⟨_, hr⟩ | ⟨g, hg, hu, hr⟩ | ⟨_, _, _, _, hr⟩ | ⟨g, code, hg, hu, hc, hr⟩
  · rw [hr] at h; cases h
  · rw [hr] at h; cases h
    obtain ⟨d, hd, ht⟩ := hu
    obtain ⟨g', p', code', hg', hp', hc', e⟩ := hinv d hd
    subst e
    obtain ⟨eg, ep, _⟩ := header_prefix_crc ht
    have e1 : g = g' := hG g g' hg hg' eg
    have e2 : fs.pfx = p' := hP p' hp' ep
    subst e1
    exact ⟨g, code', hg, hc', by rw [hd, e2]⟩
  · rw [hr] at h; cases h
  · rw [hr] at h; cases h
    exact ⟨g, code, hg, hc, rfl⟩

/-- **C18 (history statement), conditional on CRC-32 not colliding on the texts involved.**
    `G` / `P` are any sets containing the grammar texts / prefixes of the initial state and of the operations of the
    history; CRC-32 must be injective on `G` and on `P` (nothing is assumed about other texts, nor about the compiler).
    After any history, if the final run succeeds, the destination is the compilation of the grammar file as it is
    now, with the prefix as it is now. -/
theorem C18_fresh_partial (k : Consts) (compile : List UInt8 → Option (List UInt8)) (G P : List UInt8 → Prop)
    (hcG : CrcInjOn G) (hcP : CrcInjOn P)
    (fs0 : FS) (ops : List Op) (fs' : FS) (w : Bool)
    (h0 : InvOn k compile G P fs0) (hops : ∀ op ∈ ops, OpOn G P op)
    (h : Build.step k compile (runOps k compile fs0 ops) .run = (fs', .ok w)) :
    ∃ g code, fs'.grammar = some g ∧ compile g = some code ∧ fs'.dest = some (output k g fs'.pfx code) := by
  obtain ⟨iG, iP, iD⟩ := invOn_runOps ops hops h0
  exact C18_fresh_core iD (fun g g' hg hg' => hcG g (iG g hg) g' hg') (fun p' hp' => hcP _ iP p' hp') h

/-- global form: initial state satisfying `Inv`, CRC-32 assumed injective outright (NB: this hypothesis is false for
    the real CRC-32 – see `C18_crc_collision_witness`; the usable forms are `C18_fresh_partial` and
    `C18_fresh_partial_history`) -/
theorem C18_fresh_partial_global (k : Consts) (compile : List UInt8 → Option (List UInt8))
    (hcrc : ∀ a b : List UInt8, crc32 a = crc32 b → a = b)
    (fs0 : FS) (ops : List Op) (fs' : FS) (w : Bool)
    (h0 : Inv k compile fs0)
    (h : Build.step k compile (runOps k compile fs0 ops) .run = (fs', .ok w)) :
    ∃ g code, fs'.grammar = some g ∧ compile g = some code ∧ fs'.dest = some (output k g fs'.pfx code) := by
  refine C18_fresh_partial k compile (fun _ => True) (fun _ => True) (fun a _ b _ => hcrc a b)
    (fun a _ b _ => hcrc a b) fs0 ops fs' w (invOn_of_inv h0) ?_ h
  intro op _
  cases op with
  | editGrammar t => cases t <;> trivial
  | setPrefix p => trivial
  | deleteDest => trivial
  | run => trivial

/-- the grammar texts occurring in a history: the initial one and every edit -/
def grammarTexts (fs0 : FS) (ops : List Op) : List (List UInt8) :=
  fs0.grammar.toList ++ ops.filterMap fun | .editGrammar (some t) => some t | _ => none

/-- the prefixes occurring in a history: the initial one and every change -/
def prefixTexts (fs0 : FS) (ops : List Op) : List (List UInt8) :=
  fs0.pfx :: ops.filterMap fun | .setPrefix p => some p | _ => none

/-- finite form: starting without destination, the hypothesis only concerns the (finitely many, computable) grammar
    texts and prefixes that occur in the history -/
theorem C18_fresh_partial_history (k : Consts) (compile : List UInt8 → Option (List UInt8))
    (fs0 : FS) (ops : List Op) (fs' : FS) (w : Bool)
    (h0 : fs0.dest = none)
    (hcG : CrcInjOn (· ∈ grammarTexts fs0 ops)) (hcP : CrcInjOn (· ∈ prefixTexts fs0 ops))
    (h : Build.step k compile (runOps k compile fs0 ops) .run = (fs', .ok w)) :
    ∃ g code, fs'.grammar = some g ∧ compile g = some code ∧ fs'.dest = some (output k g fs'.pfx code) := by
  refine C18_fresh_partial k compile _ _ hcG hcP fs0 ops fs' w ⟨?_, ?_, ?_⟩ ?_ h
  · intro g hg
    simp only [grammarTexts, hg, Option.toList_some, List.mem_append, List.mem_singleton, true_or]
  · simp only [prefixTexts, List.mem_cons, true_or]
  · intro d hd; rw [h0] at hd; cases hd
  · intro op hop
    cases op with
    | editGrammar t =>
      cases t with
      | none => trivial
      | some t =>
        simp only [OpOn, grammarTexts, List.mem_append, List.mem_filterMap]
        exact .inr ⟨_, hop, rfl⟩
    | setPrefix p =>
      simp only [OpOn, prefixTexts, List.mem_cons, List.mem_filterMap]
      exact .inr ⟨_, hop, rfl⟩
    | deleteDest => trivial
    | run => trivial

/-! ### C18, part 4 -/

/-- a destination that already is the compilation of the current grammar with the current prefix is left untouched
    (whatever the compiler would answer now) -/
theorem C18_rewrite_only_when_needed (k : Consts) (compile : List UInt8 → Option (List UInt8)) (fs : FS)
    (g code : List UInt8) (hg : fs.grammar = some g) (hd : fs.dest = some (output k g fs.pfx code)) :
    Build.step k compile fs .run = (fs, .ok false) :=
  runOnce_upToDate hg (upToDate_of_output hd)

/-! ### The unconditional history statement is false

    ```
    theorem C18_fresh (k compile fs0 ops fs' w) (h0 : Inv k compile fs0)
        (h : Build.step k compile (runOps k compile fs0 ops) .run = (fs', .ok w)) :
        ∃ g code, fs'.grammar = some g ∧ compile g = some code ∧ fs'.dest = some (output k g fs'.pfx code)
    ```
    is FALSE: the up-to-date shortcut of `runOnce` compares only the header (the two CRC-32 values) and the prefix
    text with the start of the destination, so a grammar edit that keeps the CRC-32 of the grammar file – or a prefix
    change to an initial segment with the same CRC-32 – is not noticed.  `C18_fresh_statement` is that statement as a
    `Prop`; `C18_fresh_false` is its negation, via the concrete history `C18_crc_collision_witness`. -/

/-- the unconditional C18 history statement (false, see `C18_fresh_false`) -/
def C18_fresh_statement : Prop :=
  ∀ (k : Consts) (compile : List UInt8 → Option (List UInt8)) (fs0 : FS) (ops : List Op) (fs' : FS) (w : Bool),
    Inv k compile fs0 →
    Build.step k compile (runOps k compile fs0 ops) .run = (fs', .ok w) →
    ∃ g code, fs'.grammar = some g ∧ compile g = some code ∧ fs'.dest = some (output k g fs'.pfx code)

namespace Witness

def g1 : List UInt8 := str "@export\nA = 'x';\n# mv48hbz4\n"
def g2 : List UInt8 := str "@export\nA = 'y';\n# pxz11qsd\n"

/-- a compiler that distinguishes the two grammar texts -/
def comp (g : List UInt8) : Option (List UInt8) :=
  if g = g1 then some [1] else if g = g2 then some [2] else none

def k0 : Consts := ⟨str "0.7.0", str "2026-01-01"⟩
def fs0 : FS := ⟨none, none, []⟩

/-- edit g1, run, edit g2 (the second run is the final operation of the statement) -/
def ops : List Op := [.editGrammar (some g1), .run, .editGrammar (some g2)]

/-- the state after the second run: grammar `g2`, destination compiled from `g1` -/
def fsEnd : FS := ⟨some g2, some (output k0 g1 [] [1]), []⟩

theorem g1_ne_g2 : g1 ≠ g2 := by decide +kernel

theorem crc_g1 : hex8 (crc32 g1) = str "fd872ce9" := by decide +kernel
theorem crc_g2 : hex8 (crc32 g2) = str "fd872ce9" := by decide +kernel
theorem crc_collision : crc32 g1 = crc32 g2 := by decide +kernel

theorem first_run : Build.step k0 comp (runOps k0 comp fs0 [.editGrammar (some g1)]) .run =
    (⟨some g1, some (output k0 g1 [] [1]), []⟩, .ok true) := by decide +kernel

theorem second_run : Build.step k0 comp (runOps k0 comp fs0 ops) .run = (fsEnd, .ok false) := by decide +kernel

theorem outputs_differ : output k0 g1 [] [1] ≠ output k0 g2 [] [2] := by decide +kernel

end Witness

open Witness in
/-- Two grammar texts with the same CRC-32 (`fd872ce9`) and a compiler mapping them to different codes: after
    "edit g1, run, edit g2, run" the second run succeeds (reporting "not written") although the destination is the
    compilation of `g1`, not of the current grammar `g2`. -/
theorem C18_crc_collision_witness :
    g1 ≠ g2 ∧ crc32 g1 = crc32 g2 ∧ comp g1 = some [1] ∧ comp g2 = some [2] ∧
    Inv k0 comp fs0 ∧
    Build.step k0 comp (runOps k0 comp fs0 ops) .run = (fsEnd, .ok false) ∧
    fsEnd.grammar = some g2 ∧ fsEnd.dest = some (output k0 g1 fsEnd.pfx [1]) ∧
    ¬ ∃ g code, fsEnd.grammar = some g ∧ comp g = some code ∧ fsEnd.dest = some (output k0 g fsEnd.pfx code) := by
  refine ⟨g1_ne_g2, crc_collision, by decide +kernel, by decide +kernel, inv_of_no_dest rfl, second_run, rfl, rfl, ?_⟩
  rintro ⟨g, code, hg, hc, hd⟩
  have e : g = g2 := by
    simp only [fsEnd, Option.some.injEq] at hg; exact hg.symm
  subst e
  have e2 : code = [2] := by
    have : comp g2 = some [2] := by decide +kernel
    rw [this] at hc; simp only [Option.some.injEq] at hc; exact hc.symm
  subst e2
  simp only [fsEnd, Option.some.injEq] at hd
  exact outputs_differ hd

theorem C18_fresh_false : ¬ C18_fresh_statement := by
  intro h
  obtain ⟨_, _, _, _, hinv, hrun, _, _, hn⟩ := C18_crc_collision_witness
  exact hn (h _ _ _ _ _ _ hinv hrun)

/-! #### The hypothesis on prefixes is needed as well

    The prefix `"use a;\n"` is an initial segment of `"use a;\n// kpe7aavz\n"` and has the same CRC-32 (`ca18afaf`):
    shrinking the prefix from the long to the short one is not noticed. -/

namespace Witness

def p1 : List UInt8 := str "use a;\n// kpe7aavz\n"
def p2 : List UInt8 := str "use a;\n"
def gP : List UInt8 := str "@export\nA = 'x';\n"
def compP (_ : List UInt8) : Option (List UInt8) := some [99]
def opsP : List Op := [.editGrammar (some gP), .setPrefix p1, .run, .setPrefix p2]
def fsEndP : FS := ⟨some gP, some (output k0 gP p1 [99]), p2⟩

theorem crc_p : crc32 p1 = crc32 p2 := by decide +kernel
theorem second_runP : Build.step k0 compP (runOps k0 compP fs0 opsP) .run = (fsEndP, .ok false) := by decide +kernel
theorem outputs_differP : output k0 gP p1 [99] ≠ output k0 gP p2 [99] := by decide +kernel

end Witness

open Witness in
/-- the same defect through the prefix: a single grammar text, a constant compiler, two prefixes with the same CRC-32
    of which the second is an initial segment of the first -/
theorem C18_prefix_collision_witness :
    p1 ≠ p2 ∧ crc32 p1 = crc32 p2 ∧ Inv k0 compP fs0 ∧
    Build.step k0 compP (runOps k0 compP fs0 opsP) .run = (fsEndP, .ok false) ∧
    ¬ ∃ g code, fsEndP.grammar = some g ∧ compP g = some code ∧ fsEndP.dest = some (output k0 g fsEndP.pfx code) := by
  refine ⟨by decide +kernel, crc_p, inv_of_no_dest rfl, second_runP, ?_⟩
  rintro ⟨g, code, hg, hc, hd⟩
  have e : g = gP := by
    simp only [fsEndP, Option.some.injEq] at hg; exact hg.symm
  subst e
  have e2 : code = [99] := by
    simp only [compP, Option.some.injEq] at hc; exact hc.symm
  subst e2
  simp only [fsEndP, Option.some.injEq] at hd
  exact outputs_differP hd

/-! ### Concrete instances -/

section Examples
open Witness

/-- the hypotheses of `C18_fresh_partial_history` are satisfiable: a history with two grammar texts and two prefixes
    whose CRC-32 values are pairwise different -/
def exOps : List Op :=
  [.editGrammar (some (str "A = 'x';")), .setPrefix (str "use a;\nuse b;"), .run,
   .editGrammar (some (str "A = 'y';")), .setPrefix (str "use a;"), .deleteDest]

example : CrcInjOn (· ∈ grammarTexts fs0 exOps) := by
  have h : ∀ a ∈ grammarTexts fs0 exOps, ∀ b ∈ grammarTexts fs0 exOps, crc32 a = crc32 b → a = b := by
    decide +kernel
  exact h

example : CrcInjOn (· ∈ prefixTexts fs0 exOps) := by
  have h : ∀ a ∈ prefixTexts fs0 exOps, ∀ b ∈ prefixTexts fs0 exOps, crc32 a = crc32 b → a = b := by
    decide +kernel
  exact h

example : Build.step k0 compP (runOps k0 compP fs0 exOps) .run =
    (⟨some (str "A = 'y';"), some (output k0 (str "A = 'y';") (str "use a;") [99]), str "use a;"⟩, .ok true) := by
  decide +kernel

/-- prefix shrink (the defect repaired by putting the prefix CRC into the header, F6): run with prefix
    "use a;\nuse b;", change the prefix to "use a;", run again ⇒ the destination is rewritten and carries the new
    prefix -/
example :
    Build.step k0 compP
      (runOps k0 compP ⟨some (str "A = 'x';"), none, str "use a;\nuse b;"⟩ [.run, .setPrefix (str "use a;")]) .run =
    (⟨some (str "A = 'x';"), some (output k0 (str "A = 'x';") (str "use a;") [99]), str "use a;"⟩, .ok true) := by
  decide +kernel

/-- … and a third run leaves it alone -/
example :
    Build.step k0 compP
      (runOps k0 compP ⟨some (str "A = 'x';"), none, str "use a;\nuse b;"⟩ [.run, .setPrefix (str "use a;"), .run])
      .run =
    (⟨some (str "A = 'x';"), some (output k0 (str "A = 'x';") (str "use a;") [99]), str "use a;"⟩, .ok false) := by
  decide +kernel

/-- a failing run (grammar made invalid) keeps the old destination -/
example :
    Build.step k0 comp (runOps k0 comp fs0 [.editGrammar (some g1), .run, .editGrammar (some [0])]) .run =
    (⟨some [0], some (output k0 g1 [] [1]), []⟩, .err) := by
  decide +kernel

/-- deleting the destination forces a rewrite even with colliding grammar texts -/
example :
    Build.step k0 comp (runOps k0 comp fs0 [.editGrammar (some g1), .run, .editGrammar (some g2), .deleteDest]) .run =
    (⟨some g2, some (output k0 g2 [] [2]), []⟩, .ok true) := by
  decide +kernel

end Examples

end Peg
