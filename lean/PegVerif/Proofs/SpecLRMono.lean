import PegVerif.SpecLR
import PegVerif.Proofs.SpecMono
import PegVerif.Proofs.Refine
/-
  Sanity facts about the reference semantics with left recursion (`SpecLR.eval`, SpecLR.lean):

  * fuel monotonicity (`SpecLR.eval_mono`): an answer at fuel `n` is the answer at every larger fuel
    (for every seed environment) – hence the answer is unique (`SpecLR.eval_rule_det`,
    `SpecLR.parse_det`);
  * conservativity (`SpecLR.eval_eq_spec`, `SpecLR.parse_eq_spec`): for a grammar without `@leftrec`
    rules, `SpecLR.eval` *is* `Spec.eval` (same fuel, any seed environment).
-/
namespace Peg
namespace SpecLR
open Spec

/-- pointwise (in the seed environment) information order -/
def LeLR (a b : SRecLR) : Prop := ∀ σ, Spec.Le (a σ) (b σ)

theorem growLoop_le {body body' : Res Val → SOut Val}
    (hb : ∀ seed r, body seed = some r → body' seed = some r) :
    ∀ k k' best r, k ≤ k' → growLoop body k best = some r → growLoop body' k' best = some r := by
  intro k
  induction k with
  | zero => intro k' best r _ h; simp [growLoop] at h
  | succ k ih =>
    intro k' best r hk h
    obtain ⟨k'', rfl⟩ : ∃ k'', k' = k'' + 1 := ⟨k' - 1, by omega⟩
    simp only [growLoop] at h ⊢
    split at h
    · cases h
    · rename_i m hx; rw [hb _ _ hx]; exact h
    · rename_i v ns hx
      rw [hb _ _ hx]
      simp only
      split at h
      · split at h
        · rename_i hc; simp only [hc, if_true]; exact ih _ _ _ (by omega) h
        · rename_i hc; simp only [hc]; exact h
      · exact ih _ _ _ (by omega) h
    · rename_i e hx; rw [hb _ _ hx]; exact h

theorem stepRule_le {env u} {rec rec' : SRecLR} (hle : LeLR rec rec') {n m : Nat} (hnm : n ≤ m)
    (σ : Seeds) : Spec.LeR (stepRule env u rec n σ) (stepRule env u rec' m σ) := by
  intro name s r h
  unfold stepRule at h ⊢
  split at h
  · split at h
    · exact h
    · exact growLoop_le (fun seed r hx => Spec.ruleBody_le (hle _) hx) _ _ _ _ hnm h
  · exact Spec.stepRule_le (hle σ) _ _ _ h

theorem step_le {env u} {rec rec' : SRecLR} (hle : LeLR rec rec') {n m : Nat} (hnm : n ≤ m) :
    LeLR (step env u rec n) (step env u rec' m) :=
  fun σ => ⟨Spec.stepExpr_le (hle σ) hnm, stepRule_le hle hnm σ⟩

theorem eval_le_succ (env : Env) (u : Nat) : ∀ n, LeLR (eval env u n) (eval env u (n + 1)) := by
  intro n
  induction n with
  | zero => exact fun σ => ⟨fun _ _ _ _ h => by simp [eval] at h, fun _ _ _ h => by simp [eval] at h⟩
  | succ n ih => exact step_le ih (Nat.le_succ n)

/-- **fuel monotonicity** -/
theorem eval_mono (env : Env) (u : Nat) {n m : Nat} (h : n ≤ m) : LeLR (eval env u n) (eval env u m) := by
  induction m with
  | zero => have : n = 0 := by omega
            subst this; exact fun σ => Spec.Le.refl _
  | succ m ih =>
    by_cases hnm : n ≤ m
    · exact fun σ => Spec.Le.trans (ih hnm σ) (eval_le_succ env u m σ)
    · have : n = m + 1 := by omega
      subst this; exact fun σ => Spec.Le.refl _

/-- the answer is unique: two fuels that both answer give the same answer -/
theorem eval_rule_det (env : Env) (u : Nat) {n m : Nat} {σ name s r r'}
    (h : (eval env u n σ).rule name s = some r) (h' : (eval env u m σ).rule name s = some r') : r = r' := by
  have h1 := (eval_mono env u (Nat.le_max_left n m) σ).rule _ _ _ h
  have h2 := (eval_mono env u (Nat.le_max_right n m) σ).rule _ _ _ h'
  rw [h1] at h2
  exact Option.some.inj h2

theorem eval_expr_det (env : Env) (u : Nat) {n m : Nat} {σ ctx e s r r'}
    (h : (eval env u n σ).expr ctx e s = some r) (h' : (eval env u m σ).expr ctx e s = some r') : r = r' := by
  have h1 := (eval_mono env u (Nat.le_max_left n m) σ).expr _ _ _ _ h
  have h2 := (eval_mono env u (Nat.le_max_right n m) σ).expr _ _ _ _ h'
  rw [h1] at h2
  exact Option.some.inj h2

theorem parse_mono (env : Env) (u : Nat) {n m : Nat} (hnm : n ≤ m) {rule inp r}
    (h : parse env u n rule inp = some r) : parse env u m rule inp = some r :=
  (eval_mono env u hnm []).rule _ _ _ h

/-- **determinism** of the reference answer -/
theorem parse_det (env : Env) (u : Nat) {n m : Nat} {rule inp r r'}
    (h : parse env u n rule inp = some r) (h' : parse env u m rule inp = some r') : r = r' :=
  eval_rule_det env u h h'

/-! ### conservativity -/

theorem lrRule_none_of_noLeftrec {env : Env} (hnl : NoLeftrec env.g) (name : String) :
    lrRule env name = none := by
  unfold lrRule
  split
  · rename_i r hf
    have hmem : RuleEntry.rule r ∈ env.g.rules := List.mem_of_find?_eq_some hf
    simp [hnl r hmem]
  · rfl

/-- **conservativity**: without `@leftrec` rules, `SpecLR.eval` is `Spec.eval` -/
theorem eval_eq_spec {env : Env} (hnl : NoLeftrec env.g) (u : Nat) :
    ∀ n σ, eval env u n σ = Spec.eval env u n := by
  intro n
  induction n with
  | zero => intro σ; rfl
  | succ n ih =>
    intro σ
    show step env u (eval env u n) n σ = Spec.step env u (Spec.eval env u n) n
    unfold step Spec.step
    congr 1
    · rw [ih]
    · funext name s
      unfold stepRule
      rw [lrRule_none_of_noLeftrec hnl, ih]

theorem parse_eq_spec {env : Env} (hnl : NoLeftrec env.g) (u fuel : Nat) (rule : String) (inp : List UInt8) :
    parse env u fuel rule inp = Spec.parse env u fuel rule inp := by
  unfold parse Spec.parse
  rw [eval_eq_spec hnl]

end SpecLR
end Peg
