import PegVerif.Eval
import PegVerif.Spec
import PegVerif.Proofs.Basics
import PegVerif.Proofs.EvalMono
import PegVerif.Proofs.Refine
import PegVerif.Proofs.RefineRule
import PegVerif.Proofs.Complete
import PegVerif.Proofs.LeftRec
/-
  C07, the usual shape, *syntactically*:  `@leftrec A = l:*A x… | b…`.

  LeftRec.lean proves `C07_direct_memoBody` under the *semantic* hypothesis `DirectLeftRec` ("with
  the failing seed the body gives `b0`; with seed `v_i` it gives `ext i v_i`, strictly further; with
  seed `v_m` it fails or does not get further").  This file discharges that hypothesis for a whole
  class of grammars, from
    * a *syntactic* description of the rule (`LeftRecShape`: decidable clauses + `PureHooks`), and
    * the greedy iteration `b x*` computed in the *reference semantics* `Spec.eval` (`Greedy`).

  Main results
    * `eval_sim`        cache independence: on a set `R` of rules closed under references and free of
                        `@memoize`/`@leftrec`, the model's result (incl. `far`) does not depend on the
                        global state, and is the result in the grammar without `@leftrec` directives;
    * `shape_direct`    the shape theorem (relative to a set `P` of user contexts: `DirectLeftRecOn`);
      `shape_direct_at` for pure hooks, `shape_DirectLeftRec` = the original `DirectLeftRec` when the
                        hooks' answers do not depend on the user context;
    * `shape_memoBody`, `shape_rule`, `shape_parse`  the rule returns the left-nested tree and ends
                        where the greedy iteration ends, after exactly `m + 2` body evaluations;
    * `shape_reject`    no base match ⇒ the rule fails;
    * `Greedy.rec_field` each extension holds the previous result in its recursive field;
    * `ShapeExample`, `ShapeExample2`  non-vacuity (all hypotheses by `rfl` / `decide`).

  Why `DirectLeftRecOn` and `∃ st`:
    * `DirectLeftRec` quantifies over every global state, hence every user context; hooks may read
      the context, so with `PureHooks` alone only the variant restricted to one context is true.
    * the cached end states `st i` carry the implementation's error bookkeeping `far`, which the
      reference semantics does not have; the theorem gives `st` with `clr (st i) = pos i`.
    * `@memoize` rules reachable from `x…`/`b…` are excluded: `DirectLeftRec` quantifies over
      arbitrary caches, and a cached entry of a memoized rule is returned as is.
    * the recursive call `l:*A` is preceded by whitespace skipping: if that consumes something, the
      call is at another offset and is *not* a hit on the seed (`NoLeadWs` excludes this).
-/
namespace Peg
namespace LRS
open Spec

/-! ## 1. rule sets closed under "calls", without `@memoize` / `@leftrec` -/

mutual
/-- every rule referenced by the expression (fields, includes) is in `R` -/
def okE (R : List String) : Expr → Bool
  | .choice alts => okL R alts
  | .seq parts => okL R parts
  | .group b => okE R b
  | .opt b => okE R b
  | .closure b _ => okE R b
  | .neg b => okE R b
  | .pos b => okE R b
  | .incl r => R.contains r
  | .field _ _ typ => R.contains typ
  | _ => true
def okL (R : List String) : List Expr → Bool
  | [] => true
  | e :: es => okE R e && okL R es
end

/-- the entries named `n` are fine: a normal rule is neither `@memoize` nor `@leftrec` and its body
    only references rules of `R`; the identifier parts of a `@char` rule are in `R`; the body
    found by an include of `n` only references rules of `R` -/
def entryOk (g : Grammar) (R : List String) (n : String) : Bool :=
  (match g.find n with
   | some (.rule r) => !r.flags.leftRecursive && !r.flags.memoize && okE R r.definition
   | some (.charRule r) => r.choices.all (fun p => match p with | .ident id => R.contains id | _ => true)
   | _ => true) &&
  (match g.findRule n with
   | some r => okE R r.definition
   | none => true)

/-- `R` is closed under references, contains the whitespace rule, and none of its rules is
    `@memoize` or `@leftrec` -/
def closedB (g : Grammar) (R : List String) : Bool :=
  R.contains "Whitespace" && R.all (entryOk g R)

theorem okL_cons {R : List String} {e : Expr} {es : List Expr} :
    okL R (e :: es) = true ↔ okE R e = true ∧ okL R es = true := by
  simp [okL]

theorem okL_mem {R : List String} : ∀ {es : List Expr}, okL R es = true → ∀ e ∈ es, okE R e = true
  | [], _, e, he => by cases he
  | x :: xs, h, e, he => by
    obtain ⟨h1, h2⟩ := okL_cons.1 h
    rcases List.mem_cons.1 he with rfl | he
    · exact h1
    · exact okL_mem h2 e he

theorem closedB_ws {g : Grammar} {R : List String} (h : closedB g R = true) :
    R.contains "Whitespace" = true := by
  unfold closedB at h
  simp only [Bool.and_eq_true] at h
  exact h.1

theorem closedB_entry {g : Grammar} {R : List String} (h : closedB g R = true) {n : String}
    (hn : R.contains n = true) : entryOk g R n = true := by
  unfold closedB at h
  simp only [Bool.and_eq_true, List.all_eq_true] at h
  exact h.2 n (by simpa using hn)

/-! ## 2. simulation: on `R`, the evaluator does not look at the cache

  `Rel u u2 f f2`: whatever `f2` answers from a global state with user context `u2`, `f` answers
  from *any* global state with user context `u` – same result (value, end state including `far`,
  error), the user contexts stay put.  Used with `f2` = evaluation in the grammar without
  `@leftrec` from a clean global state, `f` = evaluation in the original grammar from the global
  state the grow loop hands to the body (seeded cache). -/

/-- the hooks answer alike at the two user contexts -/
def HookAgree (H : Hooks) (u u2 : Nat) : Prop :=
  (∀ f bs, (H.extern f bs u).1 = (H.extern f bs u2).1) ∧ (∀ f v, (H.check f v u).1 = (H.check f v u2).1)

theorem HookAgree.refl (H : Hooks) (u : Nat) : HookAgree H u u := ⟨fun _ _ => rfl, fun _ _ => rfl⟩

def Rel (u u2 : Nat) {α} (f f2 : Global → Out α) : Prop :=
  ∀ g g2 r g2', f2 g2 = some (r, g2') → g.uctx = u → g2.uctx = u2 →
    ∃ g', f g = some (r, g') ∧ g'.uctx = u ∧ g2'.uctx = u2

structure RSim (R : List String) (u u2 : Nat) (rec rec2 : Rec) : Prop where
  expr : ∀ ctx e s, okE R e = true → Rel u u2 (rec.expr ctx e s) (rec2.expr ctx e s)
  rule : ∀ name s, R.contains name = true → Rel u u2 (rec.rule name s) (rec2.rule name s)

section Sim
variable {u u2 : Nat}

theorem Rel.pure {α} (r : Res α) : Rel u u2 (fun g => some (r, g)) (fun g => some (r, g)) := by
  intro g g2 r' g2' h hg hg2
  cases h
  exact ⟨g, rfl, hg, hg2⟩

theorem Rel.congr {α} {f f' f2 f2' : Global → Out α} (he : ∀ g, f g = f' g) (he2 : ∀ g, f2 g = f2' g)
    (h : Rel u u2 f' f2') : Rel u u2 f f2 := by
  have e1 : f = f' := funext he
  have e2 : f2 = f2' := funext he2
  rw [e1, e2]; exact h

theorem Rel.ite {α} {c : Prop} [Decidable c] {f f' f2 f2' : Global → Out α} (h1 : Rel u u2 f f2)
    (h2 : Rel u u2 f' f2') :
    Rel u u2 (fun g => if c then f g else f' g) (fun g => if c then f2 g else f2' g) := by
  by_cases hc : c
  · simp only [hc, if_true]; exact h1
  · simp only [hc, if_false]; exact h2

theorem Rel.bind {α β} {f f2 : Global → Out α} {k k2 : α → St → Global → Out β}
    (hf : Rel u u2 f f2) (hk : ∀ v s1, Rel u u2 (k v s1) (k2 v s1)) :
    Rel u u2 (fun g => bindR (f g) k) (fun g => bindR (f2 g) k2) := by
  intro g g2 r g2' h hg hg2
  simp only [bindR] at h
  split at h
  · cases h
  · rename_i v s1 g12 heq
    obtain ⟨g1, h1, hg1, hg12⟩ := hf g g2 _ _ heq hg hg2
    obtain ⟨g', h', hg', hg2'⟩ := hk v s1 g1 g12 _ _ h hg1 hg12
    exact ⟨g', by simp only [h1, bindR]; exact h', hg', hg2'⟩
  · rename_i e g12 heq
    obtain ⟨g1, h1, hg1, hg12⟩ := hf g g2 _ _ heq hg hg2
    cases h
    exact ⟨g1, by simp only [h1, bindR], hg1, hg12⟩
  · rename_i m g12 heq
    obtain ⟨g1, h1, hg1, hg12⟩ := hf g g2 _ _ heq hg hg2
    cases h
    exact ⟨g1, by simp only [h1, bindR], hg1, hg12⟩

variable {env : Env} {R : List String} {rec rec2 : Rec}

theorem withSkipWs_sim {α} (hws : R.contains "Whitespace" = true) (hrec : RSim R u u2 rec rec2)
    {ctx : Ctx} {s : St} {k k2 : St → Global → Out α} (hk : ∀ s, Rel u u2 (k s) (k2 s)) :
    Rel u u2 (fun g => withSkipWs rec ctx s g k) (fun g => withSkipWs rec2 ctx s g k2) := by
  unfold withSkipWs
  split
  · exact Rel.bind (hrec.rule _ _ hws) (fun _ s => hk s)
  · exact hk s

theorem evalSeq_sim (hrec : RSim R u u2 rec rec2) {ctx : Ctx} :
    ∀ ps seen acc s, okL R ps = true →
      Rel u u2 (evalSeq env rec ctx ps seen acc s) (evalSeq env rec2 ctx ps seen acc s) := by
  intro ps
  induction ps with
  | nil => intro seen acc s _; exact Rel.pure _
  | cons p ps ih =>
    intro seen acc s hok
    obtain ⟨h1, h2⟩ := okL_cons.1 hok
    refine Rel.congr (fun g => by rw [evalSeq]) (fun g => by rw [evalSeq])
      (Rel.bind (hrec.expr ctx p s h1) (fun r s' => ?_))
    cases hm : mergePart (filterRuleFields ctx.ruleFields (ownFields env p)) seen acc r with
    | error m => simp only [hm]; exact Rel.pure _
    | ok v => simp only [hm]; exact ih _ _ _ h2

theorem evalAlts_sim (hrec : RSim R u u2 rec rec2) {ctx : Ctx} {fields} :
    ∀ as s, okL R as = true →
      Rel u u2 (evalAlts env rec ctx fields as s) (evalAlts env rec2 ctx fields as s) := by
  intro as
  induction as with
  | nil => intro s _; exact Rel.pure _
  | cons a as ih =>
    intro s hok g g2 r g2' h hg hg2
    obtain ⟨h1, h2⟩ := okL_cons.1 hok
    simp only [evalAlts] at h ⊢
    split at h
    · cases h
    · rename_i r0 s0 g12 hx
      obtain ⟨g1, e1, hg1, hg12⟩ := hrec.expr ctx a s h1 g g2 _ _ hx hg hg2
      simp only [e1]
      split at h
      · cases h; exact ⟨g1, rfl, hg1, hg12⟩
      · cases h; exact ⟨g1, rfl, hg1, hg12⟩
    · rename_i e0 g12 hx
      obtain ⟨g1, e1, hg1, hg12⟩ := hrec.expr ctx a s h1 g g2 _ _ hx hg hg2
      simp only [e1]
      exact ih _ h2 g1 g12 _ _ h hg1 hg12
    · rename_i m g12 hx
      obtain ⟨g1, e1, hg1, hg12⟩ := hrec.expr ctx a s h1 g g2 _ _ hx hg hg2
      simp only [e1]
      cases h
      exact ⟨g1, rfl, hg1, hg12⟩

theorem evalLoop_sim {body body2 : St → Global → Out Parsed} (hb : ∀ s, Rel u u2 (body s) (body2 s))
    {fields} : ∀ k iters acc s,
      Rel u u2 (evalLoop body fields k iters acc s) (evalLoop body2 fields k iters acc s) := by
  intro k
  induction k with
  | zero => intro iters acc s g g2 r g2' h; simp [evalLoop] at h
  | succ k ih =>
    intro iters acc s g g2 r g2' h hg hg2
    simp only [evalLoop] at h ⊢
    split at h
    · cases h
    · rename_i r0 s0 g12 hx
      obtain ⟨g1, e1, hg1, hg12⟩ := hb s g g2 _ _ hx hg hg2
      simp only [e1]
      split at h
      · exact ih _ _ _ g1 g12 _ _ h hg1 hg12
      · cases h; exact ⟨g1, rfl, hg1, hg12⟩
    · rename_i e0 g12 hx
      obtain ⟨g1, e1, hg1, hg12⟩ := hb s g g2 _ _ hx hg hg2
      simp only [e1]
      cases h
      exact ⟨g1, rfl, hg1, hg12⟩
    · rename_i m g12 hx
      obtain ⟨g1, e1, hg1, hg12⟩ := hb s g g2 _ _ hx hg hg2
      simp only [e1]
      cases h
      exact ⟨g1, rfl, hg1, hg12⟩

theorem closed_incl {g : Grammar} (hcl : closedB g R = true) {n : String} (hn : R.contains n = true)
    {rule : Rule} (hf : g.findRule n = some rule) : okE R rule.definition = true := by
  have := closedB_entry hcl hn
  unfold entryOk at this
  simp only [hf, Bool.and_eq_true] at this
  exact this.2

theorem stepExpr_sim (hcl : closedB env.g R = true) (hrec : RSim R u u2 rec rec2) (n : Nat) (ctx : Ctx)
    (e : Expr) (s : St) (he : okE R e = true) :
    Rel u u2 (stepExpr env rec n ctx e s) (stepExpr env rec2 n ctx e s) := by
  have hws := closedB_ws hcl
  cases e with
  | choice alts =>
    simp only [okE] at he
    match alts, he with
    | [], _ => exact Rel.pure _
    | [a], he => exact hrec.expr ctx a s (okL_cons.1 he).1
    | a :: b :: rest, he => exact evalAlts_sim hrec _ _ he
  | seq parts =>
    simp only [okE] at he
    match parts, he with
    | [], _ => exact Rel.pure _
    | [a], he => exact hrec.expr ctx a s (okL_cons.1 he).1
    | a :: b :: rest, he =>
      refine Rel.bind (evalSeq_sim hrec _ _ _ _ he) (fun v s' => ?_)
      obtain ⟨seen, acc⟩ := v
      cases hp : project (filterRuleFields ctx.ruleFields (ownFields env (.seq (a :: b :: rest)))) acc with
      | error m => simp only [hp]; exact Rel.pure _
      | ok v => simp only [hp]; exact Rel.pure _
  | group b => simp only [okE] at he; exact hrec.expr ctx b s he
  | opt b =>
    simp only [okE] at he
    intro g g2 r g2' h hg hg2
    simp only [stepExpr] at h ⊢
    split at h
    · cases h
    · rename_i r0 s0 g12 hx
      obtain ⟨g1, e1, hg1, hg12⟩ := hrec.expr ctx b s he g g2 _ _ hx hg hg2
      simp only [e1]
      cases h
      exact ⟨g1, rfl, hg1, hg12⟩
    · rename_i e0 g12 hx
      obtain ⟨g1, e1, hg1, hg12⟩ := hrec.expr ctx b s he g g2 _ _ hx hg hg2
      simp only [e1]
      split at h
      · cases h; exact ⟨g1, rfl, hg1, hg12⟩
      · cases h; exact ⟨g1, rfl, hg1, hg12⟩
    · rename_i m g12 hx
      obtain ⟨g1, e1, hg1, hg12⟩ := hrec.expr ctx b s he g g2 _ _ hx hg hg2
      simp only [e1]
      cases h
      exact ⟨g1, rfl, hg1, hg12⟩
  | closure b plus =>
    simp only [okE] at he
    show Rel u u2 (fun g => stepExpr env rec n ctx (.closure b plus) s g)
      (fun g => stepExpr env rec2 n ctx (.closure b plus) s g)
    simp only [stepExpr]
    cases hinit : closureInit (filterRuleFields ctx.ruleFields (ownFields env b)) with
    | error m => simp only []; exact Rel.pure _
    | ok init =>
      simp only []
      exact Rel.bind (evalLoop_sim (hrec.expr ctx b · he) _ _ _ _)
        (fun v s' => Rel.ite (Rel.pure _) (Rel.pure _))
  | neg b =>
    simp only [okE] at he
    intro g g2 r g2' h hg hg2
    simp only [stepExpr] at h ⊢
    split at h
    · cases h
    · rename_i r0 s0 g12 hx
      obtain ⟨g1, e1, hg1, hg12⟩ := hrec.expr ctx b s he g g2 _ _ hx hg hg2
      simp only [e1]
      cases h
      exact ⟨g1, rfl, hg1, hg12⟩
    · rename_i e0 g12 hx
      obtain ⟨g1, e1, hg1, hg12⟩ := hrec.expr ctx b s he g g2 _ _ hx hg hg2
      simp only [e1]
      cases h
      exact ⟨g1, rfl, hg1, hg12⟩
    · rename_i m g12 hx
      obtain ⟨g1, e1, hg1, hg12⟩ := hrec.expr ctx b s he g g2 _ _ hx hg hg2
      simp only [e1]
      cases h
      exact ⟨g1, rfl, hg1, hg12⟩
  | pos b =>
    simp only [okE] at he
    exact Rel.bind (hrec.expr ctx b s he) (fun _ _ => Rel.pure _)
  | range lo hi =>
    show Rel u u2 (fun g => stepExpr env rec n ctx (.range lo hi) s g)
      (fun g => stepExpr env rec2 n ctx (.range lo hi) s g)
    simp only [stepExpr]
    cases hlo : lo.toChar <;> cases hhi : hi.toChar <;> simp only []
    all_goals first
      | exact Rel.pure _
      | exact withSkipWs_sim hws hrec (fun s => Rel.pure _)
  | lit ins body =>
    show Rel u u2 (fun g => stepExpr env rec n ctx (.lit ins body) s g)
      (fun g => stepExpr env rec2 n ctx (.lit ins body) s g)
    simp only [stepExpr]
    cases hm : compileLit ins body with
    | err m => simp only []; exact Rel.pure _
    | fuel => simp only []; exact Rel.pure _
    | ok m =>
      simp only []
      refine withSkipWs_sim hws hrec (fun s => ?_)
      cases m <;> exact Rel.pure _
  | eoi => exact withSkipWs_sim hws hrec (fun s => Rel.pure _)
  | incl r =>
    simp only [okE] at he
    show Rel u u2 (fun g => stepExpr env rec n ctx (.incl r) s g)
      (fun g => stepExpr env rec2 n ctx (.incl r) s g)
    simp only [stepExpr]
    cases hf : env.g.findRule r with
    | none => simp only []; exact Rel.pure _
    | some rule => simp only []; exact hrec.expr ctx _ s (closed_incl hcl he hf)
  | field name boxed typ =>
    simp only [okE] at he
    show Rel u u2 (fun g => stepExpr env rec n ctx (.field name boxed typ) s g)
      (fun g => stepExpr env rec2 n ctx (.field name boxed typ) s g)
    simp only [stepExpr]
    refine withSkipWs_sim hws hrec (fun s => Rel.bind (hrec.rule typ s he) (fun v s' => ?_))
    cases name with
    | none => exact Rel.pure _
    | some nm =>
      simp only []
      cases hp : postprocessField ctx.ruleFields nm.key typ v with
      | error m => simp only []; exact Rel.pure _
      | ok fv => simp only []; exact Rel.pure _

/-! ### rule level -/

theorem runChecks_sim (hp : PureHooks env.hooks) (hh : HookAgree env.hooks u u2) :
    ∀ fs v s, Rel u u2 (runChecks env fs v s) (runChecks env fs v s) := by
  intro fs
  induction fs with
  | nil => intro v s; exact Rel.pure _
  | cons f fs ih =>
    intro v s g g2 r g2' h hg hg2
    subst hg hg2
    simp only [runChecks] at h ⊢
    have e : (env.hooks.check ("::".intercalate f) v g.uctx).1 =
        (env.hooks.check ("::".intercalate f) v g2.uctx).1 := hh.2 _ _
    rw [e]
    split at h
    · rename_i hc
      cases h
      simp only [if_pos hc]
      refine ⟨_, rfl, ?_, ?_⟩ <;> exact hp.2 _ _ _
    · rename_i hc
      simp only [if_neg hc]
      refine ih _ _ _ _ _ _ h ?_ ?_ <;> exact hp.2 _ _ _

theorem ruleBody_sim (hrec : RSim R u u2 rec rec2) (hp : PureHooks env.hooks)
    (hh : HookAgree env.hooks u u2) (r0 : Rule) (hok : okE R r0.definition = true) (s : St) :
    Rel u u2 (ruleBody env rec r0 s) (ruleBody env rec2 r0 s) := by
  show Rel u u2 (fun g => ruleBody env rec r0 s g) (fun g => ruleBody env rec2 r0 s g)
  simp only [ruleBody]
  cases hf : getFields env.g env.nf r0.definition with
  | ok fields =>
    simp only []
    refine Rel.ite (Rel.bind (hrec.expr _ _ _ hok) (fun _ s' => runChecks_sim hp hh _ _ _))
      (Rel.ite (Rel.bind (hrec.expr _ _ _ hok) (fun p s' => ?_))
        (Rel.ite (Rel.pure _) (Rel.bind (hrec.expr _ _ _ hok) (fun p s' => ?_))))
    · cases hv : p.get "_override" with
      | none => simp only []; exact Rel.pure _
      | some v => simp only []; exact runChecks_sim hp hh _ _ _
    · cases hpj : project fields p with
      | error m => simp only []; exact Rel.pure _
      | ok fs => simp only []; exact runChecks_sim hp hh _ _ _
  | err m => simp only []; exact Rel.pure _
  | fuel => simp only []; exact Rel.pure _

theorem charChecks_indep (name : String) : ∀ fs c s (g g2 : Global),
    (charChecks env name fs c s g).1 = (charChecks env name fs c s g2).1 ∧
    (charChecks env name fs c s g).2.uctx = g.uctx := by
  intro fs
  induction fs with
  | nil => intro c s g g2; exact ⟨rfl, rfl⟩
  | cons f fs ih =>
    intro c s g g2
    simp only [charChecks]
    split
    · exact ⟨rfl, rfl⟩
    · exact ⟨(ih _ _ _ _).1, (ih _ _ _ g2).2⟩

theorem charParts_sim (hrec : RSim R u u2 rec rec2) (name : String) : ∀ ps s,
    (ps.all (fun p => match p with | .ident id => R.contains id | _ => true) = true) →
    Rel u u2 (charParts rec name ps s) (charParts rec2 name ps s) := by
  intro ps
  induction ps with
  | nil => intro s _; exact Rel.pure _
  | cons p ps ih =>
    intro s hok g g2 r g2' h hg hg2
    simp only [List.all_cons, Bool.and_eq_true] at hok
    have key : ∀ (x x2 : Out Val),
        (∀ r1 g12, x2 = some (r1, g12) → ∃ g1, x = some (r1, g1) ∧ g1.uctx = u ∧ g12.uctx = u2) →
        (match x2 with
         | none => none
         | some (.ok v s', g') => some (.ok v s', g')
         | some (.err _, g') => charParts rec2 name ps s g'
         | some (.panic m, g') => some (.panic m, g')) = some (r, g2') →
        ∃ gz : Global, (match x with
         | none => none
         | some (.ok v s', g') => some (.ok v s', g')
         | some (.err _, g') => charParts rec name ps s g'
         | some (.panic m, g') => some (.panic m, g') : Out Val) = some (r, gz) ∧
          gz.uctx = u ∧ g2'.uctx = u2 := by
      intro x x2 hx h
      split at h
      · cases h
      · obtain ⟨g1, e1, hg1, hg12⟩ := hx _ _ rfl
        cases h; exact ⟨g1, by simp only [e1], hg1, hg12⟩
      · obtain ⟨g1, e1, hg1, hg12⟩ := hx _ _ rfl
        obtain ⟨g', e', hg', hg2'⟩ := ih _ hok.2 g1 _ _ _ h hg1 hg12
        exact ⟨g', by simp only [e1]; exact e', hg', hg2'⟩
      · obtain ⟨g1, e1, hg1, hg12⟩ := hx _ _ rfl
        cases h; exact ⟨g1, by simp only [e1], hg1, hg12⟩
    cases p with
    | chr item =>
      simp only [charParts] at h ⊢
      refine key _ _ ?_ h
      intro r1 g12 hx
      split at hx
      · cases hx; exact ⟨g, rfl, hg, hg2⟩
      · cases hx; exact ⟨g, rfl, hg, hg2⟩
    | range lo hi =>
      simp only [charParts] at h ⊢
      refine key _ _ ?_ h
      intro r1 g12 hx
      split at hx
      · cases hx; exact ⟨g, rfl, hg, hg2⟩
      · cases hx; exact ⟨g, rfl, hg, hg2⟩
    | ident id =>
      simp only [charParts] at h ⊢
      exact key _ _ (fun r1 g12 hx => hrec.rule id s hok.1 g g2 _ _ hx hg hg2) h

theorem charRule_sim (hrec : RSim R u u2 rec rec2) (r0 : CharRule)
    (hok : r0.choices.all (fun p => match p with | .ident id => R.contains id | _ => true) = true)
    (s : St) : Rel u u2 (charRule env rec r0 s) (charRule env rec2 r0 s) := by
  intro g g2 r g2' h hg hg2
  unfold charRule at h ⊢
  split at h
  · rename_i hc
    simp only [if_pos hc]
    exact charParts_sim hrec _ _ _ hok g g2 _ _ h hg hg2
  · rename_i hc
    simp only [if_neg hc]
    split at h
    · cases h; exact ⟨g, rfl, hg, hg2⟩
    · rename_i c hd
      obtain ⟨hi1, hi2⟩ := charChecks_indep (env := env) r0.name r0.directives c s g g2
      have hi3 := (charChecks_indep (env := env) r0.name r0.directives c s g2 g).2
      split at h
      · rename_i e0 g12 hcc
        cases h
        rw [hcc] at hi1 hi3
        cases hcg : charChecks env r0.name r0.directives c s g with
        | mk o g1 =>
          rw [hcg] at hi1 hi2
          simp only at hi1 hi2 hi3
          subst hi1
          exact ⟨g1, rfl, by rw [hi2]; exact hg, by rw [hi3]; exact hg2⟩
      · rename_i g12 hcc
        rw [hcc] at hi1 hi3
        cases hcg : charChecks env r0.name r0.directives c s g with
        | mk o g1 =>
          rw [hcg] at hi1 hi2
          simp only at hi1 hi2 hi3
          subst hi1
          simp only []
          exact charParts_sim hrec _ _ _ hok g1 g12 _ _ h (by rw [hi2]; exact hg) (by rw [hi3]; exact hg2)

theorem externRule_sim (hp : PureHooks env.hooks) (hh : HookAgree env.hooks u u2) (r0 : ExternRule)
    (s : St) : Rel u u2 (externRule env r0 s) (externRule env r0 s) := by
  intro g g2 r g2' h hg hg2
  subst hg hg2
  unfold externRule at h ⊢
  simp only at h ⊢
  have e : (env.hooks.extern ("::".intercalate r0.function) s.rest g.uctx).1 =
      (env.hooks.extern ("::".intercalate r0.function) s.rest g2.uctx).1 := hh.1 _ _
  rw [e]
  split at h
  · rename_i v adv hres
    cases h; simp only [hres]; refine ⟨_, rfl, ?_, ?_⟩ <;> exact hp.1 _ _ _
  · rename_i msg hres
    cases h; simp only [hres]; refine ⟨_, rfl, ?_, ?_⟩ <;> exact hp.1 _ _ _

end Sim

/-! ## 3. the grammar without `@leftrec` directives

  Stripping the `@leftrec` directive from every rule changes nothing except the `leftRecursive` flag:
  field analysis, the construct evaluators of the implementation model (with the same `rec`), the rule
  bodies, and the whole reference semantics are unchanged.  The stripped grammar satisfies `NoLeftrec`,
  so `eval_ref` / `eval_comp` apply to it. -/

def stripRule (r : Rule) : Rule := { r with directives := r.directives.filter (fun d => d != .leftrec) }
def stripEntry : RuleEntry → RuleEntry
  | .rule r => .rule (stripRule r)
  | e => e
def stripG (g : Grammar) : Grammar := ⟨g.rules.map stripEntry⟩
def stripEnv (env : Env) : Env := { env with g := stripG env.g }

@[simp] theorem stripRule_name (r : Rule) : (stripRule r).name = r.name := rfl
@[simp] theorem stripRule_definition (r : Rule) : (stripRule r).definition = r.definition := rfl
@[simp] theorem stripEnv_g (env : Env) : (stripEnv env).g = stripG env.g := rfl
@[simp] theorem stripEnv_settings (env : Env) : (stripEnv env).settings = env.settings := rfl
@[simp] theorem stripEnv_hooks (env : Env) : (stripEnv env).hooks = env.hooks := rfl
@[simp] theorem stripEnv_nf (env : Env) : (stripEnv env).nf = env.nf := rfl

/-! ## directives, flags, checks -/

theorem checks_filter : ∀ ds : List Directive,
    (ds.filter (fun d => d != .leftrec)).filterMap
        (fun d => match d with | .check f => some f | _ => none) =
      ds.filterMap (fun d => match d with | .check f => some f | _ => none)
  | [] => rfl
  | d :: ds => by
    have ih := checks_filter ds
    cases d <;> simp [ih]

theorem stripRule_checks (r : Rule) : (stripRule r).checks = r.checks := by
  unfold Rule.checks stripRule
  exact checks_filter r.directives

/-- the two accumulators agree on everything but `leftRecursive` -/
def Agree (f f' : RuleFlags) : Prop :=
  f.noSkipWs = f'.noSkipWs ∧ f.exported = f'.exported ∧ f.string = f'.string ∧
  f.position = f'.position ∧ f.memoize = f'.memoize

theorem foldl_strip : ∀ (ds : List Directive) (f f' : RuleFlags), Agree f f' →
    Agree ((ds.filter (fun d => d != .leftrec)).foldl RuleFlags.add f) (ds.foldl RuleFlags.add f') ∧
    ((ds.filter (fun d => d != .leftrec)).foldl RuleFlags.add f).leftRecursive = f.leftRecursive
  | [], f, f', h => ⟨h, rfl⟩
  | d :: ds, f, f', h => by
    obtain ⟨h1, h2, h3, h4, h5⟩ := h
    cases d with
    | leftrec =>
      have := foldl_strip ds f (f'.add .leftrec) ⟨h1, h2, h3, h4, h5⟩
      simpa [List.filter_cons, RuleFlags.add] using this
    | string =>
      have := foldl_strip ds (f.add .string) (f'.add .string) ⟨h1, h2, rfl, h4, h5⟩
      simpa [List.filter_cons, RuleFlags.add] using this
    | noSkipWs =>
      have := foldl_strip ds (f.add .noSkipWs) (f'.add .noSkipWs) ⟨rfl, h2, h3, h4, h5⟩
      simpa [List.filter_cons, RuleFlags.add] using this
    | «export» =>
      have := foldl_strip ds (f.add .export) (f'.add .export) ⟨h1, rfl, h3, h4, h5⟩
      simpa [List.filter_cons, RuleFlags.add] using this
    | position =>
      have := foldl_strip ds (f.add .position) (f'.add .position) ⟨h1, h2, h3, rfl, h5⟩
      simpa [List.filter_cons, RuleFlags.add] using this
    | memoize =>
      have := foldl_strip ds (f.add .memoize) (f'.add .memoize) ⟨h1, h2, h3, h4, rfl⟩
      simpa [List.filter_cons, RuleFlags.add] using this
    | check fn =>
      have := foldl_strip ds (f.add (.check fn)) (f'.add (.check fn)) ⟨h1, h2, h3, h4, h5⟩
      simpa [List.filter_cons, RuleFlags.add] using this

theorem stripRule_flags (r : Rule) : (stripRule r).flags = { r.flags with leftRecursive := false } := by
  obtain ⟨⟨h1, h2, h3, h4, h5⟩, h6⟩ := foldl_strip r.directives {} {} ⟨rfl, rfl, rfl, rfl, rfl⟩
  unfold Rule.flags stripRule
  generalize (List.filter (fun d => d != Directive.leftrec) r.directives).foldl RuleFlags.add {} = a at *
  generalize r.directives.foldl RuleFlags.add {} = b at *
  cases a; cases b
  simp only at h1 h2 h3 h4 h5 h6
  simp only [h1, h2, h3, h4, h5, h6]

/-! ## lookup -/

theorem stripEntry_name (e : RuleEntry) : (stripEntry e).name = e.name := by
  cases e <;> rfl

theorem stripG_find (g : Grammar) (n : String) : (stripG g).find n = (g.find n).map stripEntry := by
  unfold Grammar.find stripG
  simp only [List.find?_map]
  have : ((fun r : RuleEntry => r.name == n) ∘ stripEntry) = (fun r : RuleEntry => r.name == n) := by
    funext e; simp only [Function.comp, stripEntry_name]
  rw [this]

theorem findSome_strip (n : String) : ∀ l : List RuleEntry,
    (l.map stripEntry).findSome? (fun r => match r with
      | .rule r => if r.name == n then some r else none
      | _ => none) =
    (l.findSome? (fun r => match r with
      | .rule r => if r.name == n then some r else none
      | _ => none)).map stripRule
  | [] => rfl
  | e :: l => by
    have ih := findSome_strip n l
    cases e with
    | rule r =>
      simp only [List.map, stripEntry, List.findSome?, stripRule_name]
      by_cases hn : (r.name == n) = true
      · simp only [hn, if_true, Option.map]
      · simp only [hn, Bool.false_eq_true, if_false]
        exact ih
    | charRule r => simpa only [List.map, stripEntry, List.findSome?] using ih
    | externRule r => simpa only [List.map, stripEntry, List.findSome?] using ih

theorem stripG_findRule (g : Grammar) (n : String) : (stripG g).findRule n = (g.findRule n).map stripRule := by
  unfold Grammar.findRule stripG
  exact findSome_strip n g.rules

theorem noLeftrec_strip (g : Grammar) : NoLeftrec (stripG g) := by
  intro r hr
  simp only [stripG, List.mem_map] at hr
  obtain ⟨e, _, he⟩ := hr
  cases e with
  | rule r' =>
    simp only [stripEntry, RuleEntry.rule.injEq] at he
    subst he
    rw [stripRule_flags]
  | charRule r' => simp [stripEntry] at he
  | externRule r' => simp [stripEntry] at he

/-! ## field analysis -/

theorem mapMCR_congr' {α β} {f f' : α → CR β} : ∀ {l : List α}, (∀ a ∈ l, f a = f' a) → mapMCR f l = mapMCR f' l
  | [], _ => rfl
  | a :: as, h => by
    have h1 := h a (by simp)
    have h2 := mapMCR_congr' (f := f) (f' := f') (l := as) (fun x hx => h x (by simp [hx]))
    simp only [mapMCR, h1, h2]

theorem getFields_strip (g : Grammar) : ∀ n e, getFields (stripG g) n e = getFields g n e := by
  intro n
  induction n with
  | zero => intro e; rfl
  | succ n ih =>
    intro e
    cases e with
    | choice alts => simp only [getFields, mapMCR_congr' (fun a _ => ih a)]
    | seq parts => simp only [getFields, mapMCR_congr' (fun a _ => ih a)]
    | group b => simp only [getFields, ih b]
    | opt b => simp only [getFields, ih b]
    | closure b p => simp only [getFields, ih b]
    | neg b => simp only [getFields, ih b]
    | pos b => simp only [getFields, ih b]
    | range lo hi => rfl
    | lit i b => rfl
    | eoi => rfl
    | incl r =>
      simp only [getFields, stripG_findRule]
      cases g.findRule r with
      | none => rfl
      | some rule => simp only [Option.map, stripRule_definition, ih]
    | field nm bx t => cases nm <;> rfl

theorem ownFields_strip (env : Env) (e : Expr) : ownFields (stripEnv env) e = ownFields env e := by
  simp only [ownFields, stripEnv_g, stripEnv_nf, getFields_strip]

/-! ## implementation model, same `rec` on both sides -/

theorem evalSeq_strip (env : Env) (rec : Rec) (ctx : Ctx) : ∀ ps seen acc s g,
    evalSeq (stripEnv env) rec ctx ps seen acc s g = evalSeq env rec ctx ps seen acc s g := by
  intro ps
  induction ps with
  | nil => intro seen acc s g; rfl
  | cons p ps ih =>
    intro seen acc s g
    simp only [evalSeq, ownFields_strip, ih]

theorem evalAlts_strip (env : Env) (rec : Rec) (ctx : Ctx) (fields : List FieldDesc) : ∀ as s g,
    evalAlts (stripEnv env) rec ctx fields as s g = evalAlts env rec ctx fields as s g := by
  intro as
  induction as with
  | nil => intro s g; rfl
  | cons a as ih =>
    intro s g
    simp only [evalAlts, ownFields_strip, ih]

theorem stepExpr_strip (env : Env) (rec : Rec) (n : Nat) (ctx : Ctx) (e : Expr) (s : St) (g : Global) :
    stepExpr (stripEnv env) rec n ctx e s g = stepExpr env rec n ctx e s g := by
  have hseq : evalSeq (stripEnv env) rec ctx = evalSeq env rec ctx := by
    funext ps seen acc s g; exact evalSeq_strip env rec ctx ps seen acc s g
  have halts : ∀ fields, evalAlts (stripEnv env) rec ctx fields = evalAlts env rec ctx fields := by
    intro fields; funext as s g; exact evalAlts_strip env rec ctx fields as s g
  cases e with
  | choice alts =>
    match alts with
    | [] => rfl
    | [a] => rfl
    | a :: b :: rest => simp only [stepExpr, ownFields_strip, halts]
  | seq parts =>
    match parts with
    | [] => rfl
    | [a] => rfl
    | a :: b :: rest => simp only [stepExpr, ownFields_strip, hseq]
  | group b => rfl
  | opt b => simp only [stepExpr, ownFields_strip]
  | closure b p => simp only [stepExpr, ownFields_strip]
  | neg b => rfl
  | pos b => rfl
  | range lo hi => rfl
  | lit i b => rfl
  | eoi => rfl
  | incl r =>
    simp only [stepExpr, stripEnv_g, stripG_findRule]
    cases env.g.findRule r with
    | none => rfl
    | some rule => simp only [Option.map, stripRule_definition]
  | field nm bx t => rfl

theorem runChecks_strip (env : Env) : ∀ fs v s g, runChecks (stripEnv env) fs v s g = runChecks env fs v s g := by
  intro fs
  induction fs with
  | nil => intro v s g; rfl
  | cons f fs ih =>
    intro v s g
    simp only [runChecks, stripEnv_hooks, ih]

theorem ruleBody_strip (env : Env) (rec : Rec) (r : Rule) (s : St) (g : Global) :
    ruleBody (stripEnv env) rec (stripRule r) s g = ruleBody env rec r s g := by
  have hrc : runChecks (stripEnv env) = runChecks env := by
    funext fs v s g; exact runChecks_strip env fs v s g
  simp only [ruleBody, stripRule_flags, stripRule_checks, stripRule_name, stripRule_definition,
    stripEnv_g, stripEnv_nf, stripEnv_settings, getFields_strip, hrc]

theorem charChecks_strip (env : Env) (name : String) : ∀ fs c s g,
    charChecks (stripEnv env) name fs c s g = charChecks env name fs c s g := by
  intro fs
  induction fs with
  | nil => intro c s g; rfl
  | cons f fs ih =>
    intro c s g
    simp only [charChecks, stripEnv_hooks, ih]

theorem charRule_strip (env : Env) (rec : Rec) (r : CharRule) (s : St) (g : Global) :
    charRule (stripEnv env) rec r s g = charRule env rec r s g := by
  simp only [charRule, charChecks_strip]

theorem externRule_strip (env : Env) (r : ExternRule) (s : St) (g : Global) :
    externRule (stripEnv env) r s g = externRule env r s g := rfl

/-! ## reference semantics -/

theorem Spec_evalSeq_strip (env : Env) (rec : Spec.SRec) (ctx : Ctx) : ∀ ps seen acc s,
    Spec.evalSeq (stripEnv env) rec ctx ps seen acc s = Spec.evalSeq env rec ctx ps seen acc s := by
  intro ps
  induction ps with
  | nil => intro seen acc s; rfl
  | cons p ps ih =>
    intro seen acc s
    simp only [Spec.evalSeq, ownFields_strip, ih]

theorem Spec_evalAlts_strip (env : Env) (rec : Spec.SRec) (ctx : Ctx) (fields : List FieldDesc) : ∀ as s,
    Spec.evalAlts (stripEnv env) rec ctx fields as s = Spec.evalAlts env rec ctx fields as s := by
  intro as
  induction as with
  | nil => intro s; rfl
  | cons a as ih =>
    intro s
    simp only [Spec.evalAlts, ownFields_strip, ih]

theorem Spec_stepExpr_strip (env : Env) (rec : Spec.SRec) (n : Nat) (ctx : Ctx) (e : Expr) (s : St) :
    Spec.stepExpr (stripEnv env) rec n ctx e s = Spec.stepExpr env rec n ctx e s := by
  have hseq : Spec.evalSeq (stripEnv env) rec ctx = Spec.evalSeq env rec ctx := by
    funext ps seen acc s; exact Spec_evalSeq_strip env rec ctx ps seen acc s
  have halts : ∀ fields, Spec.evalAlts (stripEnv env) rec ctx fields = Spec.evalAlts env rec ctx fields := by
    intro fields; funext as s; exact Spec_evalAlts_strip env rec ctx fields as s
  cases e with
  | choice alts =>
    match alts with
    | [] => rfl
    | [a] => rfl
    | a :: b :: rest => simp only [Spec.stepExpr, ownFields_strip, halts]
  | seq parts =>
    match parts with
    | [] => rfl
    | [a] => rfl
    | a :: b :: rest => simp only [Spec.stepExpr, ownFields_strip, hseq]
  | group b => rfl
  | opt b => simp only [Spec.stepExpr, ownFields_strip]
  | closure b p => simp only [Spec.stepExpr, ownFields_strip]
  | neg b => rfl
  | pos b => rfl
  | range lo hi => rfl
  | lit i b => rfl
  | eoi => rfl
  | incl r =>
    simp only [Spec.stepExpr, stripEnv_g, stripG_findRule]
    cases env.g.findRule r with
    | none => rfl
    | some rule => simp only [Option.map, stripRule_definition]
  | field nm bx t => rfl

theorem Spec_runChecks_strip (env : Env) (u : Nat) : ∀ fs v s,
    Spec.runChecks (stripEnv env) u fs v s = Spec.runChecks env u fs v s := by
  intro fs
  induction fs with
  | nil => intro v s; rfl
  | cons f fs ih =>
    intro v s
    simp only [Spec.runChecks, stripEnv_hooks, ih]

theorem Spec_ruleBody_strip (env : Env) (u : Nat) (rec : Spec.SRec) (r : Rule) (s : St) :
    Spec.ruleBody (stripEnv env) u rec (stripRule r) s = Spec.ruleBody env u rec r s := by
  have hrc : Spec.runChecks (stripEnv env) u = Spec.runChecks env u := by
    funext fs v s; exact Spec_runChecks_strip env u fs v s
  simp only [Spec.ruleBody, stripRule_flags, stripRule_checks, stripRule_name, stripRule_definition,
    stripEnv_g, stripEnv_nf, stripEnv_settings, getFields_strip, hrc]

theorem Spec_charChecksOk_strip (env : Env) : ∀ fs c,
    Spec.charChecksOk (stripEnv env) fs c = Spec.charChecksOk env fs c := by
  intro fs
  induction fs with
  | nil => intro c; rfl
  | cons f fs ih =>
    intro c
    simp only [Spec.charChecksOk, stripEnv_hooks, ih]

theorem Spec_charRule_strip (env : Env) (rec : Spec.SRec) (r : CharRule) (s : St) :
    Spec.charRule (stripEnv env) rec r s = Spec.charRule env rec r s := by
  simp only [Spec.charRule, Spec_charChecksOk_strip]

theorem Spec_externRule_strip (env : Env) (u : Nat) (r : ExternRule) (s : St) :
    Spec.externRule (stripEnv env) u r s = Spec.externRule env u r s := rfl

theorem Spec_stepRule_strip (env : Env) (u : Nat) (rec : Spec.SRec) (name : String) (s : St) :
    Spec.stepRule (stripEnv env) u rec name s = Spec.stepRule env u rec name s := by
  simp only [Spec.stepRule, stripEnv_g, stripG_find]
  cases env.g.find name with
  | none => rfl
  | some e =>
    cases e with
    | rule r => simp only [Option.map, stripEntry, Spec_ruleBody_strip]
    | charRule r => simp only [Option.map, stripEntry, Spec_charRule_strip]
    | externRule r => simp only [Option.map, stripEntry, Spec_externRule_strip]

theorem Spec_step_strip (env : Env) (u : Nat) (rec : Spec.SRec) (n : Nat) :
    Spec.step (stripEnv env) u rec n = Spec.step env u rec n := by
  unfold Spec.step
  congr 1
  · funext ctx e s; exact Spec_stepExpr_strip env rec n ctx e s
  · funext name s; exact Spec_stepRule_strip env u rec name s

theorem Spec_eval_strip (env : Env) (u : Nat) : ∀ m, Spec.eval (stripEnv env) u m = Spec.eval env u m := by
  intro m
  induction m with
  | zero => rfl
  | succ m ih => simp only [Spec.eval, ih, Spec_step_strip]


/-! ## 4. the simulation, between the grammar and its `@leftrec`-free copy -/

section Sim2
variable {u u2 : Nat} {env : Env} {R : List String} {rec rec2 : Rec}

theorem traceResult_uctx (g : Global) (r : Res Val) : (traceResult g r).uctx = g.uctx := by
  cases r <;> rfl

theorem normalRule_plain {env : Env} {rec : Rec} {n : Nat} {r0 : Rule} {s : St} {g : Global}
    (hlr : r0.flags.leftRecursive = false) (hm : r0.flags.memoize = false) :
    normalRule env rec n r0 s g =
      match ruleBody env rec r0 s (g.emit (.traceStart r0.name s.off)) with
      | none => none
      | some (res, g') => some (res, traceResult g' res) := by
  unfold normalRule
  simp only [memoBody_plain hlr (by simp [hm])]
  rfl

theorem stepRule_sim (hcl : closedB env.g R = true) (hrec : RSim R u u2 rec rec2)
    (hp : PureHooks env.hooks) (hh : HookAgree env.hooks u u2) (n : Nat) (name : String) (s : St)
    (hn : R.contains name = true) :
    Rel u u2 (stepRule env rec n name s) (stepRule (stripEnv env) rec2 n name s) := by
  intro g g2 r g2' h hg hg2
  have hent := closedB_entry hcl hn
  unfold entryOk at hent
  unfold stepRule at h ⊢
  rw [stripEnv_g, stripG_find] at h
  cases hfind : env.g.find name with
  | none =>
    simp only [hfind, Option.map_none] at h ⊢
    split at h
    · rename_i hc
      cases h; exact ⟨g, by simp only [if_pos hc], hg, hg2⟩
    · rename_i hc
      split at h
      · rename_i hc2
        cases h; exact ⟨g, by simp only [if_neg hc, if_pos hc2], hg, hg2⟩
      · rename_i hc2
        cases h; exact ⟨g, by simp only [if_neg hc, if_neg hc2], hg, hg2⟩
  | some ent =>
    cases ent with
    | rule r0 =>
      simp only [hfind, Option.map_some, stripEntry] at h ⊢
      simp only [hfind, Bool.and_eq_true, Bool.not_eq_true'] at hent
      obtain ⟨⟨⟨hlr, hmemo⟩, hok⟩, _⟩ := hent
      have hlr2 : (stripRule r0).flags.leftRecursive = false := by rw [stripRule_flags]
      have hmemo2 : (stripRule r0).flags.memoize = false := by rw [stripRule_flags]; exact hmemo
      rw [normalRule_plain hlr2 hmemo2, ruleBody_strip] at h
      rw [normalRule_plain hlr hmemo]
      simp only [stripRule_name] at h
      split at h
      · cases h
      · rename_i res g12 hb
        obtain ⟨g1, e1, hg1, hg12⟩ := ruleBody_sim hrec hp hh r0 hok s
          (g.emit (.traceStart r0.name s.off)) _ _ _ hb hg hg2
        cases h
        simp only [e1]
        exact ⟨_, rfl, by rw [traceResult_uctx]; exact hg1, by rw [traceResult_uctx]; exact hg12⟩
    | charRule r0 =>
      simp only [hfind, Option.map_some, stripEntry] at h ⊢
      simp only [hfind, Bool.and_eq_true] at hent
      rw [charRule_strip] at h
      exact charRule_sim hrec r0 hent.1 s g g2 _ _ h hg hg2
    | externRule r0 =>
      simp only [hfind, Option.map_some, stripEntry] at h ⊢
      rw [externRule_strip] at h
      exact externRule_sim hp hh r0 s g g2 _ _ h hg hg2

theorem step_sim (hcl : closedB env.g R = true) (hrec : RSim R u u2 rec rec2)
    (hp : PureHooks env.hooks) (hh : HookAgree env.hooks u u2) (n : Nat) :
    RSim R u u2 (step env rec n) (step (stripEnv env) rec2 n) := by
  constructor
  · intro ctx e s he
    refine Rel.congr (fun _ => rfl) (fun g => ?_) (stepExpr_sim hcl hrec n ctx e s he)
    exact stepExpr_strip env rec2 n ctx e s g
  · intro name s hn
    exact stepRule_sim hcl hrec hp hh n name s hn

/-- **cache independence.**  On expressions and rules that only reach rules of a closed set `R`
    (no `@memoize`, no `@leftrec` rule in it), the model of the generated parser gives – at equal
    fuel, from any global state – the result (value, end state including `far`, error) it gives in
    the grammar without `@leftrec` directives from any other global state with an equivalent user
    context. -/
theorem eval_sim (hcl : closedB env.g R = true) (hp : PureHooks env.hooks)
    (hh : HookAgree env.hooks u u2) : ∀ n, RSim R u u2 (eval env n) (eval (stripEnv env) n) := by
  intro n
  induction n with
  | zero =>
    exact ⟨fun _ _ _ _ _ _ _ _ h => by simp [eval] at h, fun _ _ _ _ _ _ _ h => by simp [eval] at h⟩
  | succ n ih => exact step_sim hcl ih hp hh n

end Sim2

/-! ## 5. `DirectLeftRec`, relative to a set of user contexts

  `DirectLeftRec` (LeftRec.lean) quantifies over *every* global state, hence over every user context.
  The result of a body evaluation may depend on the user context (user hooks read it), so the
  syntactic theorem below proves the variant `DirectLeftRecOn P`: the clauses are required for the
  global states whose user context satisfies `P`, and the body evaluations keep the user context.
  `P = fun _ => True` gives `DirectLeftRec` back; `P = (· = u)` is what pure hooks give. -/

structure DirectLeftRecOn (P : Nat → Prop) (body : St → Global → Out Val) (key : String × Nat) (s : St)
    (e0 : PErr) (b0 : Val) (ext : Nat → Val → Val) (st : Nat → St) (m : Nat) : Prop where
  base : ∀ g, P g.uctx → ∃ g', body s (seeded key (.err e0) g) = some (.ok b0 (st 0), g') ∧
    g'.uctx = g.uctx
  step : ∀ i, i < m → ∀ g, P g.uctx → ∃ g', body s (seeded key (.ok (nestL ext b0 i) (st i)) g) =
    some (.ok (ext i (nestL ext b0 i)) (st (i + 1)), g') ∧ g'.uctx = g.uctx
  mono : ∀ i, i < m → (st i).off < (st (i + 1)).off
  stop : ∀ g, P g.uctx →
    (∃ e g', body s (seeded key (.ok (nestL ext b0 m) (st m)) g) = some (.err e, g') ∧
      g'.uctx = g.uctx) ∨
    (∃ v' ns g', body s (seeded key (.ok (nestL ext b0 m) (st m)) g) = some (.ok v' ns, g') ∧
      ns.off ≤ (st m).off ∧ g'.uctx = g.uctx)

theorem DirectLeftRecOn.toDirect {body : St → Global → Out Val} {key : String × Nat} {s : St} {e0 : PErr}
    {b0 : Val} {ext : Nat → Val → Val} {st : Nat → St} {m : Nat}
    (H : DirectLeftRecOn (fun _ => True) body key s e0 b0 ext st m) :
    DirectLeftRec body key s e0 b0 ext st m where
  base := fun g => by obtain ⟨g', h, _⟩ := H.base g trivial; exact ⟨g', h⟩
  step := fun i hi g => by obtain ⟨g', h, _⟩ := H.step i hi g trivial; exact ⟨g', h⟩
  mono := H.mono
  stop := fun g => by
    rcases H.stop g trivial with ⟨e, g', h, _⟩ | ⟨v', ns, g', h, hle, _⟩
    · exact .inl ⟨e, g', h⟩
    · exact .inr ⟨v', ns, g', h, hle⟩

theorem DirectLeftRecOn.run_from {P : Nat → Prop} {body : St → Global → Out Val} {key : String × Nat}
    {s : St} {e0 : PErr} {b0 : Val} {ext : Nat → Val → Val} {st : Nat → St} {m : Nat}
    (H : DirectLeftRecOn P body key s e0 b0 ext st m) :
    ∀ d i, i + d = m → ∀ g : Global, P g.uctx →
      ∃ g', GrowRun body key s (.ok (nestL ext b0 i) (st i))
        (g.insert key (.ok (nestL ext b0 i) (st i))) (growChain ext b0 st (i + 1) d)
        (.ok (nestL ext b0 m) (st m)) g' ∧ g'.uctx = g.uctx := by
  intro d
  induction d with
  | zero =>
    intro i hi g hg
    obtain rfl : i = m := by omega
    rcases H.stop g hg with ⟨e, g', hb, hu⟩ | ⟨v', ns, g', hb, hle, hu⟩
    · exact ⟨g', .stopErr hb, hu⟩
    · exact ⟨g', .stopOk hb hle, hu⟩
  | succ d ih =>
    intro i hi g hg
    obtain ⟨g1, hb, hu1⟩ := H.step i (by omega) g hg
    obtain ⟨g', hr, hu'⟩ := ih (i + 1) (by omega) g1 (by rw [hu1]; exact hg)
    refine ⟨g', ?_, by rw [hu', hu1]⟩
    show GrowRun body key s _ _ ((nestL ext b0 (i + 1), st (i + 1)) :: growChain ext b0 st (i + 1 + 1) d) _ g'
    refine .grow hb ?_ hr
    intro bv bs he
    cases he
    exact H.mono i (by omega)

theorem DirectLeftRecOn.run {P : Nat → Prop} {body : St → Global → Out Val} {key : String × Nat}
    {s : St} {e0 : PErr} {b0 : Val} {ext : Nat → Val → Val} {st : Nat → St} {m : Nat}
    (H : DirectLeftRecOn P body key s e0 b0 ext st m) (g : Global) (hg : P g.uctx) :
    ∃ g', GrowRun body key s (.err e0) (g.insert key (.err e0)) (growChain ext b0 st 0 (m + 1))
      (.ok (nestL ext b0 m) (st m)) g' ∧ g'.uctx = g.uctx := by
  obtain ⟨g1, hb, hu1⟩ := H.base g hg
  obtain ⟨g', hr, hu'⟩ := H.run_from m 0 (by omega) g1 (by rw [hu1]; exact hg)
  exact ⟨g', .grow hb (fun bv bs he => by cases he) hr, by rw [hu', hu1]⟩

/-- `C07_direct_memoBody` for the relative notion: on a cache miss, from a global state whose user
    context satisfies `P`, the left-recursive wrapper returns the left-nested tree `v_m`, ending in
    `st m`, after exactly `m + 2` body evaluations; the user context is unchanged. -/
theorem C07_direct_memoBody_on {P : Nat → Prop} {flags : RuleFlags} {name : String}
    {body : St → Global → Out Val} {s : St} {b0 : Val} {ext : Nat → Val → Val} {st : Nat → St} {m : Nat}
    (hlr : flags.leftRecursive = true)
    (H : DirectLeftRecOn P body (name, s.off) s (s.reportError .leftRecursionSentinel) b0 ext st m)
    {g : Global} (hg : P g.uctx) (hmiss : g.lookup (name, s.off) = none) :
    ∃ g', (∀ n, m + 2 ≤ n →
            memoBody flags name body n s g = some (.ok (nestL ext b0 m) (st m), g')) ∧
          (∀ n, n ≤ m + 1 → memoBody flags name body n s g = none) ∧
          g'.uctx = g.uctx ∧
          (KeepsKey body (name, s.off) s →
            g'.lookup (name, s.off) = some (.ok (nestL ext b0 m) (st m))) := by
  obtain ⟨g', hr, hu⟩ := H.run g hg
  refine ⟨g', fun n hn => ?_, fun n hn => ?_, hu, fun hk =>
    hr.cache hk (LR.lookup_insert_self _ _ _) (fun m' he => by cases he)⟩
  · unfold memoBody; simp only [hlr, if_true, hmiss]; exact hr.toLoop n (by simp; omega)
  · unfold memoBody; simp only [hlr, if_true, hmiss]; exact hr.toLoop_none n (by simp; omega)

/-- `f` answers `r` from every global state whose user context satisfies `P`, keeping the context -/
def Ans (P : Nat → Prop) {α} (f : Global → Out α) (r : Res α) : Prop :=
  ∀ g, P g.uctx → ∃ g', f g = some (r, g') ∧ g'.uctx = g.uctx

/-- the same, from the global states that hold `seed` under `key` -/
def AnsS (P : Nat → Prop) (key : String × Nat) (seed : Res Val) {α} (f : Global → Out α) (r : Res α) :
    Prop :=
  ∀ g, P g.uctx → g.lookup key = some seed → ∃ g', f g = some (r, g') ∧ g'.uctx = g.uctx


/-- an input the start state is a cursor into (only used to instantiate the refinement theorems) -/
def inpOf (s : St) : List UInt8 := List.replicate s.off 0 ++ s.rest

theorem wf_inpOf (s : St) : WfSt (inpOf s) s := by
  unfold WfSt inpOf
  simp


/-! ## 5b. from the reference semantics to the model, on `R` -/

section Bridge
variable {env : Env} {R : List String} {u : Nat} {P : Nat → Prop} {inp : List UInt8}

theorem abs_ok_inv {α} {r' : Res α} {v : α} {p : St} (h : abs r' = .ok v p) :
    ∃ sb, r' = .ok v sb ∧ clr sb = p := by
  cases r' with
  | ok v1 s1 =>
    simp only [abs, Res.ok.injEq] at h
    obtain ⟨rfl, rfl⟩ := h
    exact ⟨s1, rfl, rfl⟩
  | err e => simp [abs] at h
  | panic m => simp [abs] at h

theorem abs_err_inv {α} {r' : Res α} {e0 : PErr} (h : abs r' = .err e0) : ∃ e, r' = .err e := by
  cases r' with
  | ok v1 s1 => simp [abs] at h
  | err e => exact ⟨e, rfl⟩
  | panic m => simp [abs] at h

/-- a reference answer of a sequence of parts that only reach `R` is the model's answer (modulo
    `abs`), from every global state, for every large enough fuel -/
theorem bridge_seq (hcl : closedB env.g R = true) (hp : PureHooks env.hooks)
    (hP : ∀ u', P u' → HookAgree env.hooks u' u) {ctx : Ctx} {ps : List Expr} (hok : okL R ps = true)
    {seen : List String} {acc : Parsed} {s1 : St} (hw : WfSt inp s1) {k : Nat}
    {r : Res (List String × Parsed)}
    (h : Spec.evalSeq env (Spec.eval env u k) ctx ps seen acc (clr s1) = some r) :
    ∃ r' N, abs r' = r ∧ (∀ v s', r' = .ok v s' → WfSt inp s') ∧
      ∀ n, N ≤ n → Ans P (evalSeq env (eval env n) ctx ps seen acc s1) r' := by
  rw [← Spec_eval_strip, ← Spec_evalSeq_strip] at h
  have hc := eval_comp (env := stripEnv env) (u := u) (inp := inp) hp (noLeftrec_strip env.g) k
  obtain ⟨r', g2', ⟨N, hN⟩, ha, _, hw'⟩ :=
    evalSeq_c hc ps seen acc s1 (Global.init u) r h hw (good_init _ u inp)
  refine ⟨r', N, ha, hw', fun n hn g hg => ?_⟩
  have h2 : evalSeq (stripEnv env) (eval (stripEnv env) n) ctx ps seen acc s1 (Global.init u) =
      some (r', g2') := hN n hn
  rw [evalSeq_strip] at h2
  obtain ⟨g', e', hu', _⟩ := evalSeq_sim (eval_sim hcl hp (hP _ hg) n) ps seen acc s1 hok g
    (Global.init u) r' g2' h2 rfl rfl
  exact ⟨g', e', hu'⟩

theorem bridge_alts (hcl : closedB env.g R = true) (hp : PureHooks env.hooks)
    (hP : ∀ u', P u' → HookAgree env.hooks u' u) {ctx : Ctx} {fields : List FieldDesc}
    {as : List Expr} (hok : okL R as = true) {s1 : St} (hw : WfSt inp s1) {k : Nat} {r : Res Parsed}
    (h : Spec.evalAlts env (Spec.eval env u k) ctx fields as (clr s1) = some r) :
    ∃ r' N, abs r' = r ∧ (∀ v s', r' = .ok v s' → WfSt inp s') ∧
      ∀ n, N ≤ n → Ans P (evalAlts env (eval env n) ctx fields as s1) r' := by
  rw [← Spec_eval_strip, ← Spec_evalAlts_strip] at h
  have hc := eval_comp (env := stripEnv env) (u := u) (inp := inp) hp (noLeftrec_strip env.g) k
  obtain ⟨r', g2', ⟨N, hN⟩, ha, _, hw'⟩ :=
    evalAlts_c hc as s1 (Global.init u) r h hw (good_init _ u inp)
  refine ⟨r', N, ha, hw', fun n hn g hg => ?_⟩
  have h2 : evalAlts (stripEnv env) (eval (stripEnv env) n) ctx fields as s1 (Global.init u) =
      some (r', g2') := hN n hn
  rw [evalAlts_strip] at h2
  obtain ⟨g', e', hu', _⟩ := evalAlts_sim (eval_sim hcl hp (hP _ hg) n) as s1 hok g
    (Global.init u) r' g2' h2 rfl rfl
  exact ⟨g', e', hu'⟩

theorem bridge_rule (hcl : closedB env.g R = true) (hp : PureHooks env.hooks)
    (hP : ∀ u', P u' → HookAgree env.hooks u' u) {name : String} (hn : R.contains name = true)
    {s1 : St} (hw : WfSt inp s1) {k : Nat} {r : Res Val}
    (h : (Spec.eval env u k).rule name (clr s1) = some r) :
    ∃ r' N, abs r' = r ∧ (∀ v s', r' = .ok v s' → WfSt inp s') ∧
      ∀ n, N ≤ n → Ans P ((eval env n).rule name s1) r' := by
  rw [← Spec_eval_strip] at h
  have hc := eval_comp (env := stripEnv env) (u := u) (inp := inp) hp (noLeftrec_strip env.g) k
  obtain ⟨r', g2', ⟨N, hN⟩, ha, _, hw'⟩ := hc.rule name s1 (Global.init u) r h hw (good_init _ u inp)
  refine ⟨r', N, ha, hw', fun n hn' g hg => ?_⟩
  have h2 : (eval (stripEnv env) n).rule name s1 (Global.init u) = some (r', g2') := hN n hn'
  obtain ⟨g', e', hu', _⟩ := (eval_sim hcl hp (hP _ hg) n).rule name s1 hn g
    (Global.init u) r' g2' h2 rfl rfl
  exact ⟨g', e', hu'⟩

end Bridge

/-! ## 6. the shape `A = l:*A x… | b…` and its body, one seed at a time -/

/-- the recursive field `l:*A` -/
def recFieldE (l A : String) : Expr := .field (some (.ident l)) true A
/-- the recursive alternative `l:*A x…` -/
def recAlt (l A : String) (xs : List Expr) : Expr := .seq (recFieldE l A :: xs)
/-- the generation context of the rule -/
def shapeCtx (env : Env) (r : Rule) (F : List FieldDesc) : Ctx :=
  { skipWs := env.settings.skipWhitespace && !r.flags.noSkipWs, ruleFields := F }
/-- what `generate_postprocess_calls` makes of the recursive call's value: `Box`, enum wrapper if the
    field has several types, `Some` / `vec![…]` according to the field's arity.  For the usual shape
    (the field `l` only occurs here) this is `Some(Box(v))`. -/
def recVal (fl : FieldDesc) (A : String) (v : Val) : Val :=
  let v := Val.boxed v
  let v := if fl.types.length > 1 then Val.variant A v else v
  match fl.arity with
  | .one => v
  | .optional => .some v
  | .multiple => .list [v]
/-- the rule-level fields of the whole choice / of the recursive alternative -/
def choiceF (env : Env) (F : List FieldDesc) (l A : String) (xs rest : List Expr) : List FieldDesc :=
  filterRuleFields F (ownFields env (.choice (recAlt l A xs :: rest)))
def altOwn (env : Env) (l A : String) (xs : List Expr) : List FieldDesc := ownFields env (recAlt l A xs)
def altF (env : Env) (F : List FieldDesc) (l A : String) (xs : List Expr) : List FieldDesc :=
  filterRuleFields F (altOwn env l A xs)
/-- the `position` field of the node (`@position` rules) -/
def posOf (r : Rule) (s s' : St) : Option (Nat × Nat) :=
  if r.flags.position then some (s.off, s'.off) else none

/-- **the syntactic shape.**  `r` is the `@leftrec` struct rule `A = l:*A xs… | rest…` (one recursive
    alternative, first; `rest` are the base alternatives), without `@check`s; the field analysis of
    the generator gives `F`, with `fl` the descriptor of `l`; `R` is a set of rule names closed under
    references, free of `@memoize` / `@leftrec` rules and containing `Whitespace` (`closedB`), that
    contains every rule referenced by `xs` and `rest` (so they cannot reach `A`); hooks are pure.
    Every clause except `pure` is decidable. -/
structure LeftRecShape (env : Env) (r : Rule) (A l : String) (xs rest : List Expr) (R : List String)
    (F : List FieldDesc) (fl : FieldDesc) : Prop where
  find : env.g.find A = some (.rule r)
  lr : r.flags.leftRecursive = true
  notString : r.flags.string = false
  noChecks : r.checks = []
  defn : r.definition = .choice (recAlt l A xs :: rest)
  xs_ne : xs ≠ []
  rest_ne : rest ≠ []
  fields : getFields env.g env.nf r.definition = .ok F
  noOverride : hasField F "_override" = false
  recField : filterRuleFields F (ownFields env (recFieldE l A)) = [fl]
  recFind : findField F l = some fl
  recName : fl.name = l
  recType : fl.types.find? (·.1 == A) = some (A, true)
  closed : closedB env.g R = true
  xs_ok : okL R xs = true
  rest_ok : okL R rest = true
  pure : PureHooks env.hooks

section Body
variable {P : Nat → Prop} {key : String × Nat} {seed : Res Val}

theorem Ans.pure {α} (r : Res α) : Ans P (fun g => some (r, g)) r := fun g _ => ⟨g, rfl, rfl⟩

theorem Ans.congr {α} {f f' : Global → Out α} {r : Res α} (he : ∀ g, f g = f' g) (h : Ans P f' r) :
    Ans P f r := fun g hg => by rw [he]; exact h g hg

theorem AnsS.congr {α} {f f' : Global → Out α} {r : Res α} (he : ∀ g, f g = f' g)
    (h : AnsS P key seed f' r) : AnsS P key seed f r := fun g hg hl => by rw [he]; exact h g hg hl

theorem AnsS.bind_ok {α β} {f : Global → Out α} {k : α → St → Global → Out β} {v : α} {s1 : St}
    {r : Res β} (hf : AnsS P key seed f (.ok v s1)) (hk : Ans P (k v s1) r) :
    AnsS P key seed (fun g => bindR (f g) k) r := by
  intro g hg hl
  obtain ⟨g1, e1, hu1⟩ := hf g hg hl
  obtain ⟨g', e', hu'⟩ := hk g1 (by rw [hu1]; exact hg)
  exact ⟨g', by simp only [e1, bindR]; exact e', by rw [hu', hu1]⟩

theorem AnsS.bind_err {α β} {f : Global → Out α} {k : α → St → Global → Out β} {e : PErr}
    (hf : AnsS P key seed f (.err e)) : AnsS P key seed (fun g => bindR (f g) k) (.err e) := by
  intro g hg hl
  obtain ⟨g1, e1, hu1⟩ := hf g hg hl
  exact ⟨g1, by simp only [e1, bindR], hu1⟩

theorem eval_rule_succ (env : Env) (n : Nat) (name : String) (s : St) (g : Global) :
    (eval env (n + 1)).rule name s g = stepRule env (eval env n) n name s g := rfl
theorem eval_expr_succ (env : Env) (n : Nat) (ctx : Ctx) (e : Expr) (s : St) (g : Global) :
    (eval env (n + 1)).expr ctx e s g = stepExpr env (eval env n) n ctx e s g := rfl

/-- the builtin whitespace rule on a state without leading whitespace -/
theorem ws_builtin {env : Env} {rec : Rec} {n : Nat} {s : St} {g : Global}
    (hfind : env.g.find "Whitespace" = none) (h0 : wsPrefixLen s.rest = 0) :
    stepRule env rec n "Whitespace" s g = some (.ok .unit s, g) := by
  unfold stepRule
  simp only [hfind]
  have : ("Whitespace" == "char") = false := by decide
  simp only [this, Bool.false_eq_true, if_false, beq_self_eq_true, if_true, parseWhitespace, h0,
    List.drop_zero, Nat.add_zero, Res.map]

/-- a call of the `@leftrec` rule at the offset it is seeded for is a cache hit -/
theorem rule_hit {env : Env} {rec : Rec} {n : Nat} {A : String} {r : Rule} {s : St} {g : Global}
    (hfind : env.g.find A = some (.rule r)) (hlr : r.flags.leftRecursive = true)
    (hl : g.lookup (r.name, s.off) = some seed) :
    ∃ g', stepRule env rec n A s g = some (seed, g') ∧ g'.uctx = g.uctx := by
  unfold stepRule normalRule memoBody
  simp only [hfind, hlr, if_true, emit_lookup, hl]
  exact ⟨_, rfl, by rw [traceResult_uctx]; rfl⟩

/-- the parsed value of the recursive field, as a function of the seed -/
def seedRes (fl : FieldDesc) (l A : String) : Res Val → Res Parsed
  | .ok v s' => .ok [(l, recVal fl A v)] s'
  | .err e => .err e
  | .panic m => .panic m

theorem rule_name {env : Env} {A : String} {r : Rule} (hfind : env.g.find A = some (.rule r)) :
    r.name = A := by
  have := List.find?_some hfind
  simpa [RuleEntry.name] using this

variable {env : Env} {r : Rule} {A l : String} {xs rest : List Expr} {R : List String}
  {F : List FieldDesc} {fl : FieldDesc}

theorem postprocess_rec (H : LeftRecShape env r A l xs rest R F fl) (v : Val) :
    postprocessField F l A v = .ok (recVal fl A v) := by
  unfold postprocessField recVal
  simp only [H.recFind, H.recType, if_true]
  cases fl.arity <;> rfl

/-- no leading whitespace for the recursive call: whitespace skipping is off in this rule, or the
    whitespace rule (builtin or user-defined), at `s`, matches the empty string (reference
    semantics) -/
def NoLeadWs (env : Env) (u : Nat) (r : Rule) (s : St) : Prop :=
  (env.settings.skipWhitespace && !r.flags.noSkipWs) = true →
    ∃ k v, (Spec.eval env u k).rule "Whitespace" (clr s) = some (.ok v (clr s))

/-- the decidable special case: the whitespace rule is the builtin one and the input at `s` does
    not start with whitespace -/
theorem noLeadWs_builtin {env : Env} (u : Nat) {r : Rule} {s : St}
    (h : (env.settings.skipWhitespace && !r.flags.noSkipWs) = true →
      env.g.find "Whitespace" = none ∧ wsPrefixLen s.rest = 0) : NoLeadWs env u r s := by
  intro hskip
  obtain ⟨hfind, h0⟩ := h hskip
  refine ⟨1, .unit, ?_⟩
  show Spec.stepRule env u (Spec.eval env u 0) "Whitespace" (clr s) = _
  unfold Spec.stepRule
  have : ("Whitespace" == "char") = false := by decide
  simp only [hfind, this, Bool.false_eq_true, if_false, beq_self_eq_true, if_true, parseWhitespace,
    clr_rest, h0, List.drop_zero, Nat.add_zero, Res.map, abs]
  rfl

/-- the recursive field `l:*A` at the start state reads the seed -/
theorem field_seed (H : LeftRecShape env r A l xs rest R F fl) {u : Nat} {s : St}
    (hws : NoLeadWs env u r s) (hP : ∀ u', P u' → HookAgree env.hooks u' u) (seed : Res Val) :
    ∃ Nw, ∀ n, Nw ≤ n →
      AnsS P (A, s.off) seed ((eval env (n + 2)).expr (shapeCtx env r F) (recFieldE l A) s)
        (seedRes fl l A seed) := by
  have hname := rule_name H.find
  have hcall : ∀ (n : Nat) (sw : St), sw.off = s.off → ∀ g : Global, g.lookup (A, s.off) = some seed →
      ∃ g', bindR ((eval env (n + 1)).rule A sw g) (fun v s' g' =>
        match postprocessField (shapeCtx env r F).ruleFields (FieldName.ident l).key A v with
        | .ok fv => some (.ok [((FieldName.ident l).key, fv)] s', g')
        | .error m => some (.panic ("codegen: " ++ m), g')) = some (seedRes fl l A seed, g') ∧
        g'.uctx = g.uctx := by
    intro n sw hsw g hl
    rw [eval_rule_succ]
    obtain ⟨g1, e1, hu1⟩ := rule_hit (rec := eval env n) (n := n) H.find H.lr (s := sw) (g := g)
      (by rw [hname, hsw]; exact hl)
    rw [e1]
    cases seed with
    | ok v s' =>
      simp only [bindR, shapeCtx, FieldName.key, postprocess_rec H v, seedRes]
      exact ⟨g1, rfl, hu1⟩
    | err e => exact ⟨g1, rfl, hu1⟩
    | panic m => exact ⟨g1, rfl, hu1⟩
  by_cases hskip : (shapeCtx env r F).skipWs = true
  · obtain ⟨k, vw, hk⟩ := hws hskip
    obtain ⟨r', N, ha, _, hN⟩ := bridge_rule (P := P) (inp := inpOf s) H.closed H.pure hP
      (closedB_ws H.closed) (wf_inpOf s) hk
    obtain ⟨sw, rfl, hclr⟩ := abs_ok_inv ha
    have hsw : sw.off = s.off := by have := congrArg St.off hclr; exact this
    refine ⟨N, fun n hn g hg hl => ?_⟩
    obtain ⟨g1, e1, hu1⟩ := hN (n + 1) (by omega) g hg
    have hl1 : g1.lookup (A, s.off) = some seed :=
      ((LR.eval_inv env 0 (n + 1)).rule "Whitespace" s g _ _ e1).1 _ _ hl
    obtain ⟨g', e', hu'⟩ := hcall n sw hsw g1 hl1
    rw [eval_expr_succ]
    simp only [recFieldE, stepExpr]
    unfold withSkipWs
    simp only [hskip, if_true, e1, bindR]
    exact ⟨g', e', by rw [hu', hu1]⟩
  · refine ⟨0, fun n _ g hg hl => ?_⟩
    rw [eval_expr_succ]
    simp only [recFieldE, stepExpr]
    unfold withSkipWs
    simp only [hskip]
    exact hcall n s rfl g hl

end Body

section Body2
variable {P : Nat → Prop} {env : Env} {r : Rule} {A l : String} {xs rest : List Expr} {R : List String}
  {F : List FieldDesc} {fl : FieldDesc}

theorem merge_rec (H : LeftRecShape env r A l xs rest R F fl) (x : Val) :
    mergePart (filterRuleFields (shapeCtx env r F).ruleFields (ownFields env (recFieldE l A))) [] []
      [(l, x)] = .ok ([l], [(l, x)]) := by
  have : filterRuleFields (shapeCtx env r F).ruleFields (ownFields env (recFieldE l A)) = [fl] :=
    H.recField
  rw [this]
  simp [mergePart, Parsed.get, Parsed.set, H.recName]

/-- the parts of the recursive alternative: the field reads the seed, then `xs` run from the seed's
    end state with the field `l` bound -/
theorem evalSeq_rec_ok (H : LeftRecShape env r A l xs rest R F fl) {s : St}
    (n : Nat) {v : Val} {sv : St} {res : Res (List String × Parsed)}
    (hfld : AnsS P (A, s.off) (.ok v sv) ((eval env (n + 2)).expr (shapeCtx env r F) (recFieldE l A) s)
      (seedRes fl l A (.ok v sv)))
    (hxs : Ans P (evalSeq env (eval env (n + 2)) (shapeCtx env r F) xs [l] [(l, recVal fl A v)] sv) res) :
    AnsS P (A, s.off) (.ok v sv)
      (evalSeq env (eval env (n + 2)) (shapeCtx env r F) (recFieldE l A :: xs) [] [] s) res := by
  refine AnsS.congr (fun g => by rw [evalSeq]) ?_
  refine AnsS.bind_ok hfld ?_
  simp only [merge_rec H]
  exact hxs

theorem evalSeq_rec_err {s : St} (n : Nat) (e : PErr)
    (hfld : AnsS P (A, s.off) (.err e) ((eval env (n + 2)).expr (shapeCtx env r F) (recFieldE l A) s)
      (seedRes fl l A (.err e))) :
    AnsS P (A, s.off) (.err e)
      (evalSeq env (eval env (n + 2)) (shapeCtx env r F) (recFieldE l A :: xs) [] [] s) (.err e) := by
  refine AnsS.congr (fun g => by rw [evalSeq]) ?_
  exact AnsS.bind_err hfld

theorem alt_eq (env : Env) (n : Nat) (ctx : Ctx) (l A : String) (x : Expr) (xs' : List Expr) (s : St)
    (g : Global) :
    (eval env (n + 3)).expr ctx (recAlt l A (x :: xs')) s g =
      bindR (evalSeq env (eval env (n + 2)) ctx (recFieldE l A :: x :: xs') [] [] s g)
        (fun (p : List String × Parsed) s' g' =>
          match project (filterRuleFields ctx.ruleFields (ownFields env (recAlt l A (x :: xs')))) p.2 with
          | .ok q => some (.ok q s', g')
          | .error m => some (.panic ("codegen: " ++ m), g')) := rfl

theorem alt_ok {key : String × Nat} {seed : Res Val} (hne : xs ≠ []) {n : Nat} {s : St}
    {seen : List String} {acc : Parsed} {s1 : St} {q : Parsed}
    (hseq : AnsS P key seed
      (evalSeq env (eval env (n + 2)) (shapeCtx env r F) (recFieldE l A :: xs) [] [] s) (.ok (seen, acc) s1))
    (hq : project (altF env F l A xs) acc = .ok q) :
    AnsS P key seed ((eval env (n + 3)).expr (shapeCtx env r F) (recAlt l A xs) s) (.ok q s1) := by
  obtain ⟨x, xs', rfl⟩ := List.exists_cons_of_ne_nil hne
  refine AnsS.congr (fun g => alt_eq env n _ l A x xs' s g) (AnsS.bind_ok hseq ?_)
  have : project (filterRuleFields (shapeCtx env r F).ruleFields
      (ownFields env (recAlt l A (x :: xs')))) acc = .ok q := hq
  simp only [this]
  exact Ans.pure _

theorem alt_err {key : String × Nat} {seed : Res Val} (hne : xs ≠ []) {n : Nat} {s : St} {e : PErr}
    (hseq : AnsS P key seed
      (evalSeq env (eval env (n + 2)) (shapeCtx env r F) (recFieldE l A :: xs) [] [] s) (.err e)) :
    AnsS P key seed ((eval env (n + 3)).expr (shapeCtx env r F) (recAlt l A xs) s) (.err e) := by
  obtain ⟨x, xs', rfl⟩ := List.exists_cons_of_ne_nil hne
  exact AnsS.congr (fun g => alt_eq env n _ l A x xs' s g) (AnsS.bind_err hseq)

theorem choice_eq (env : Env) (n : Nat) (ctx : Ctx) (a b : Expr) (rest' : List Expr) (s : St)
    (g : Global) :
    (eval env (n + 4)).expr ctx (.choice (a :: b :: rest')) s g =
      evalAlts env (eval env (n + 3)) ctx
        (filterRuleFields ctx.ruleFields (ownFields env (.choice (a :: b :: rest')))) (a :: b :: rest') s g :=
  rfl

/-- the recursive alternative matches: it is the answer of the choice -/
theorem choice_ok {key : String × Nat} {seed : Res Val} (hne : rest ≠ []) {n : Nat} {s : St}
    {s1 : St} {q q' : Parsed}
    (halt : AnsS P key seed ((eval env (n + 3)).expr (shapeCtx env r F) (recAlt l A xs) s) (.ok q s1))
    (hconv : convertArm (choiceF env F l A xs rest) (altOwn env l A xs) q = .ok q') :
    AnsS P key seed
      ((eval env (n + 4)).expr (shapeCtx env r F) (.choice (recAlt l A xs :: rest)) s) (.ok q' s1) := by
  obtain ⟨b, rest', rfl⟩ := List.exists_cons_of_ne_nil hne
  intro g hg hl
  obtain ⟨g1, e1, hu1⟩ := halt g hg hl
  rw [choice_eq, evalAlts, e1]
  have : convertArm (filterRuleFields (shapeCtx env r F).ruleFields
      (ownFields env (.choice (recAlt l A xs :: b :: rest')))) (ownFields env (recAlt l A xs)) q = .ok q' :=
    hconv
  simp only [this]
  exact ⟨g1, rfl, hu1⟩

/-- the recursive alternative fails with `e`: the choice answers what the base alternatives answer
    from the start state with `e` recorded -/
theorem choice_err {key : String × Nat} {seed : Res Val} (hne : rest ≠ []) {n : Nat} {s : St}
    {e : PErr} {res : Res Parsed}
    (halt : AnsS P key seed ((eval env (n + 3)).expr (shapeCtx env r F) (recAlt l A xs) s) (.err e))
    (hbase : Ans P (evalAlts env (eval env (n + 3)) (shapeCtx env r F) (choiceF env F l A xs rest) rest
      (s.recordError e)) res) :
    AnsS P key seed
      ((eval env (n + 4)).expr (shapeCtx env r F) (.choice (recAlt l A xs :: rest)) s) res := by
  obtain ⟨b, rest', rfl⟩ := List.exists_cons_of_ne_nil hne
  intro g hg hl
  obtain ⟨g1, e1, hu1⟩ := halt g hg hl
  obtain ⟨g', e', hu'⟩ := hbase g1 (by rw [hu1]; exact hg)
  rw [choice_eq, evalAlts, e1]
  exact ⟨g', e', by rw [hu', hu1]⟩

theorem not_override_rule {F : List FieldDesc} (h : hasField F "_override" = false) :
    (F.length == 1 && (F.head?.map (·.name)) == some "_override") = false := by
  cases F with
  | nil => rfl
  | cons f fs =>
    simp only [hasField, List.any_cons, Bool.or_eq_false_iff] at h
    simp [h.1]

/-- the body of the struct rule: its definition, then the node -/
theorem body_eq (H : LeftRecShape env r A l xs rest R F fl) (rec : Rec) (s : St) (g : Global) :
    ruleBody env rec r s g =
      bindR (rec.expr (shapeCtx env r F) r.definition s g) (fun p s' g' =>
        match project F p with
        | .ok fs => some (.ok (Val.node A fs (posOf r s s')) s', g')
        | .error m => some (.panic ("codegen: " ++ m), g')) := by
  unfold ruleBody
  simp only [H.fields, H.notString, Bool.false_eq_true, if_false, not_override_rule H.noOverride,
    H.noOverride, H.noChecks, runChecks, rule_name H.find]
  rfl

theorem body_ok (H : LeftRecShape env r A l xs rest R F fl) {key : String × Nat} {seed : Res Val}
    {rec : Rec} {s s1 : St} {p fs : Parsed}
    (hdef : AnsS P key seed (rec.expr (shapeCtx env r F) r.definition s) (.ok p s1))
    (hproj : project F p = .ok fs) :
    AnsS P key seed (ruleBody env rec r s) (.ok (Val.node A fs (posOf r s s1)) s1) := by
  refine AnsS.congr (fun g => body_eq H rec s g) (AnsS.bind_ok hdef ?_)
  simp only [hproj]
  exact Ans.pure _

theorem body_err (H : LeftRecShape env r A l xs rest R F fl) {key : String × Nat} {seed : Res Val}
    {rec : Rec} {s : St} {e : PErr}
    (hdef : AnsS P key seed (rec.expr (shapeCtx env r F) r.definition s) (.err e)) :
    AnsS P key seed (ruleBody env rec r s) (.err e) :=
  AnsS.congr (fun g => body_eq H rec s g) (AnsS.bind_err hdef)

end Body2

/-! ## 8. the greedy iteration `b x*` in the reference semantics, and the main theorem -/

/-- **the greedy iteration, in the reference semantics** (`Spec.eval`: no cache, no `far`).
    `pos 0` is where the base alternatives `rest` end when started at `s`, with fields `fs0`;
    `pos (i+1)` is where `xs` end when started at `pos i` (`i < m`), strictly further, with the fields
    of the rule being `fsx i v` when the recursive field holds `v`; at `pos m` the parts `xs` fail or
    match without getting further.  (The plumbing equations `project` / `convertArm` are the
    generator's field bookkeeping: they say how the node's field list is built from the values the
    parts produced.) -/
structure Greedy (env : Env) (u : Nat) (r : Rule) (A l : String) (xs rest : List Expr)
    (F : List FieldDesc) (fl : FieldDesc) (s : St) (pos : Nat → St) (fs0 : Parsed)
    (fsx : Nat → Val → Parsed) (m : Nat) : Prop where
  base : ∃ k p0, Spec.evalAlts env (Spec.eval env u k) (shapeCtx env r F) (choiceF env F l A xs rest)
      rest (clr s) = some (.ok p0 (pos 0)) ∧ project F p0 = .ok fs0
  step : ∀ i, i < m → ∀ v, ∃ k seen acc q q',
    Spec.evalSeq env (Spec.eval env u k) (shapeCtx env r F) xs [l] [(l, recVal fl A v)] (pos i) =
      some (.ok (seen, acc) (pos (i + 1))) ∧
    project (altF env F l A xs) acc = .ok q ∧
    convertArm (choiceF env F l A xs rest) (altOwn env l A xs) q = .ok q' ∧
    project F q' = .ok (fsx i v)
  mono : ∀ i, i < m → (pos i).off < (pos (i + 1)).off
  stop : ∀ v, ∃ k,
    Spec.evalSeq env (Spec.eval env u k) (shapeCtx env r F) xs [l] [(l, recVal fl A v)] (pos m) =
      some (.err noErr) ∨
    ∃ seen acc p' q q' fs,
      Spec.evalSeq env (Spec.eval env u k) (shapeCtx env r F) xs [l] [(l, recVal fl A v)] (pos m) =
        some (.ok (seen, acc) p') ∧ p'.off ≤ (pos m).off ∧
      project (altF env F l A xs) acc = .ok q ∧
      convertArm (choiceF env F l A xs rest) (altOwn env l A xs) q = .ok q' ∧
      project F q' = .ok fs

theorem Greedy.pos_le {env u r A l xs rest F fl s pos fs0 fsx m}
    (G : Greedy env u r A l xs rest F fl s pos fs0 fsx m) : ∀ i, i ≤ m → (pos 0).off ≤ (pos i).off := by
  intro i
  induction i with
  | zero => intro _; exact Nat.le_refl _
  | succ i ih => intro hi; have := G.mono i (by omega); have := ih (by omega); omega

theorem posOf_congr (r : Rule) (s : St) {s1 s2 : St} (h : s1.off = s2.off) : posOf r s s1 = posOf r s s2 := by
  unfold posOf; rw [h]

/-- chains: a start satisfying `B`, and `m` steps -/
theorem chain_exists {α : Type} (G : Nat → α → Prop) (S : Nat → α → α → Prop) (B : α → Prop) :
    ∀ m, (∃ a, G 0 a ∧ B a) → (∀ i, i < m → ∀ a, G i a → ∃ b, G (i + 1) b ∧ S i a b) →
      ∃ st : Nat → α, B (st 0) ∧ (∀ i, i ≤ m → G i (st i)) ∧ ∀ i, i < m → S i (st i) (st (i + 1)) := by
  intro m
  induction m with
  | zero =>
    intro ⟨a, ha, hb⟩ _
    refine ⟨fun _ => a, hb, fun i hi => ?_, fun i hi => by omega⟩
    obtain rfl : i = 0 := by omega
    exact ha
  | succ m ih =>
    intro h0 hs
    obtain ⟨st, hb, hg, hst⟩ := ih h0 (fun i hi a ha => hs i (by omega) a ha)
    obtain ⟨b, hgb, hsb⟩ := hs m (by omega) (st m) (hg m (Nat.le_refl _))
    refine ⟨fun i => if i ≤ m then st i else b, ?_, ?_, ?_⟩
    · simp only [Nat.zero_le, if_true]; exact hb
    · intro i hi
      by_cases h : i ≤ m
      · simp only [h, if_true]; exact hg i h
      · obtain rfl : i = m + 1 := by omega
        simp only [h, if_false]; exact hgb
    · intro i hi
      by_cases h : i < m
      · have h1 : i ≤ m := by omega
        have h2 : i + 1 ≤ m := by omega
        simp only [h1, h2, if_true]; exact hst i h
      · obtain rfl : i = m := by omega
        have h2 : ¬ (i + 1 ≤ i) := by omega
        simp only [Nat.le_refl, if_true, h2, if_false]; exact hsb

theorem uniform_bound (Q : Nat → Nat → Prop) : ∀ m, (∀ i, i < m → ∃ Ni, ∀ n, Ni ≤ n → Q i n) →
    ∃ N, ∀ i, i < m → ∀ n, N ≤ n → Q i n := by
  intro m
  induction m with
  | zero => intro _; exact ⟨0, fun i hi => by omega⟩
  | succ m ih =>
    intro h
    obtain ⟨N, hN⟩ := ih (fun i hi => h i (by omega))
    obtain ⟨Nm, hNm⟩ := h m (by omega)
    refine ⟨max N Nm, fun i hi n hn => ?_⟩
    by_cases h' : i < m
    · exact hN i h' n (by omega)
    · obtain rfl : i = m := by omega
      exact hNm n (by omega)

section Main
variable {env : Env} {r : Rule} {A l : String} {xs rest : List Expr} {R : List String}
  {F : List FieldDesc} {fl : FieldDesc} {u : Nat} {P : Nat → Prop} {s : St} {pos : Nat → St}
  {fs0 : Parsed} {fsx : Nat → Val → Parsed} {m : Nat}

/-- eventually (in the recursion fuel) the body of the rule answers `res` on every global state that
    holds `seed` under `(A, s.off)` and whose user context satisfies `P` -/
def BodyAns (P : Nat → Prop) (env : Env) (r : Rule) (A : String) (s : St) (seed res : Res Val) : Prop :=
  ∃ N, ∀ n, N ≤ n → AnsS P (A, s.off) seed (ruleBody env (eval env n) r s) res

/-- the recursive alternative fails: the body answers the base match -/
theorem body_of_alt_err (H : LeftRecShape env r A l xs rest R F fl)
    (hP : ∀ u', P u' → HookAgree env.hooks u' u)
    (G : Greedy env u r A l xs rest F fl s pos fs0 fsx m) {seed : Res Val} {e : PErr}
    (halt : ∃ N1, ∀ n, N1 ≤ n → AnsS P (A, s.off) seed
      ((eval env (n + 3)).expr (shapeCtx env r F) (recAlt l A xs) s) (.err e)) :
    ∃ sb, clr sb = pos 0 ∧ WfSt (inpOf s) sb ∧
      BodyAns P env r A s seed (.ok (Val.node A fs0 (posOf r s (pos 0))) sb) := by
  obtain ⟨k, p0, hb, hpr⟩ := G.base
  have hwE : WfSt (inpOf s) (s.recordError e) := wf_recordError.mpr (wf_inpOf s)
  have hb' : Spec.evalAlts env (Spec.eval env u k) (shapeCtx env r F) (choiceF env F l A xs rest) rest
      (clr (s.recordError e)) = some (.ok p0 (pos 0)) := by rw [clr_recordError]; exact hb
  obtain ⟨r', N, ha, hw', hN⟩ := bridge_alts (P := P) H.closed H.pure hP H.rest_ok hwE hb'
  obtain ⟨sb, rfl, hclr⟩ := abs_ok_inv ha
  obtain ⟨N1, h1⟩ := halt
  refine ⟨sb, hclr, hw' _ _ rfl, max N N1 + 4, fun n hn => ?_⟩
  obtain ⟨n', rfl⟩ : ∃ n', n = n' + 4 := ⟨n - 4, by omega⟩
  have hch := choice_err (P := P) H.rest_ne (h1 n' (by omega)) (hN (n' + 3) (by omega))
  have hdef : AnsS P (A, s.off) seed ((eval env (n' + 4)).expr (shapeCtx env r F) r.definition s)
      (.ok p0 sb) := by rw [H.defn]; exact hch
  have := body_ok H hdef hpr
  rw [posOf_congr r s (s1 := sb) (s2 := pos 0) (by rw [← hclr]; rfl)] at this
  exact this

/-- the recursive alternative matches (seed `ok v a`, then `xs` from `a`): the body answers the
    extension -/
theorem body_of_alt_ok (H : LeftRecShape env r A l xs rest R F fl) (hws : NoLeadWs env u r s)
    (hP : ∀ u', P u' → HookAgree env.hooks u' u) {v : Val} {a : St} (hwa : WfSt (inpOf s) a)
    {k : Nat} {seen : List String} {acc : Parsed} {p1 : St} {q q' fs : Parsed}
    (hx : Spec.evalSeq env (Spec.eval env u k) (shapeCtx env r F) xs [l] [(l, recVal fl A v)] (clr a) =
      some (.ok (seen, acc) p1))
    (hq : project (altF env F l A xs) acc = .ok q)
    (hconv : convertArm (choiceF env F l A xs rest) (altOwn env l A xs) q = .ok q')
    (hproj : project F q' = .ok fs) :
    ∃ b, clr b = p1 ∧ WfSt (inpOf s) b ∧
      BodyAns P env r A s (.ok v a) (.ok (Val.node A fs (posOf r s p1)) b) := by
  obtain ⟨r', N, ha, hw', hN⟩ := bridge_seq (P := P) H.closed H.pure hP H.xs_ok hwa hx
  obtain ⟨b, rfl, hclr⟩ := abs_ok_inv ha
  obtain ⟨Nw, hfld⟩ := field_seed (P := P) H hws hP (.ok v a)
  refine ⟨b, hclr, hw' _ _ rfl, max N Nw + 4, fun n hn => ?_⟩
  obtain ⟨n', rfl⟩ : ∃ n', n = n' + 4 := ⟨n - 4, by omega⟩
  have h1 := evalSeq_rec_ok H n' (hfld n' (by omega)) (hN (n' + 2) (by omega))
  have h2 := alt_ok H.xs_ne h1 hq
  have h3 := choice_ok H.rest_ne h2 hconv
  have hdef : AnsS P (A, s.off) (.ok v a) ((eval env (n' + 4)).expr (shapeCtx env r F) r.definition s)
      (.ok q' b) := by rw [H.defn]; exact h3
  have := body_ok H hdef hproj
  rw [posOf_congr r s (s1 := b) (s2 := p1) (by rw [← hclr]; rfl)] at this
  exact this

/-- seed `ok v a`, then `xs` fail from `a`: the recursive alternative fails -/
theorem alt_err_of_xs (H : LeftRecShape env r A l xs rest R F fl) (hws : NoLeadWs env u r s)
    (hP : ∀ u', P u' → HookAgree env.hooks u' u) {v : Val} {a : St} (hwa : WfSt (inpOf s) a)
    {k : Nat}
    (hx : Spec.evalSeq env (Spec.eval env u k) (shapeCtx env r F) xs [l] [(l, recVal fl A v)] (clr a) =
      some (.err noErr)) :
    ∃ e, ∃ N1, ∀ n, N1 ≤ n → AnsS P (A, s.off) (.ok v a)
      ((eval env (n + 3)).expr (shapeCtx env r F) (recAlt l A xs) s) (.err e) := by
  obtain ⟨r', N, ha, _, hN⟩ := bridge_seq (P := P) H.closed H.pure hP H.xs_ok hwa hx
  obtain ⟨e, rfl⟩ := abs_err_inv ha
  obtain ⟨Nw, hfld⟩ := field_seed (P := P) H hws hP (.ok v a)
  refine ⟨e, max N Nw, fun n hn => ?_⟩
  exact alt_err H.xs_ne (evalSeq_rec_ok H n (hfld n (by omega)) (hN (n + 2) (by omega)))

/-- **C07, the usual shape, syntactically.**  For a rule of the shape `LeftRecShape`
    (`A = l:*A xs… | rest…`), a start state without leading whitespace (`NoLeadWs`), and the greedy
    iteration `Greedy` of the reference semantics (base at `pos 0`, `m` strict extensions by `xs` at
    `pos 1 … pos m`, then `xs` fail or make no progress): there are implementation states `st i`
    with `clr (st i) = pos i` (same remaining input and offset; only the error bookkeeping `far` is
    the implementation's own) such that for every large enough recursion fuel the body of the rule is
    `DirectLeftRecOn P` with base value `A { fs0 }` and extensions `v ↦ A { fsx i v }`. -/
theorem shape_direct (H : LeftRecShape env r A l xs rest R F fl) (hws : NoLeadWs env u r s)
    (hP : ∀ u', P u' → HookAgree env.hooks u' u)
    (G : Greedy env u r A l xs rest F fl s pos fs0 fsx m) :
    ∃ (st : Nat → St) (N : Nat), (∀ i, i ≤ m → clr (st i) = pos i) ∧ ∀ n, N ≤ n →
      DirectLeftRecOn P (ruleBody env (eval env n) r) (A, s.off) s
        (s.reportError .leftRecursionSentinel)
        (Val.node A fs0 (posOf r s (pos 0)))
        (fun i v => Val.node A (fsx i v) (posOf r s (pos (i + 1)))) st m := by
  let b0 : Val := Val.node A fs0 (posOf r s (pos 0))
  let ext : Nat → Val → Val := fun i v => Val.node A (fsx i v) (posOf r s (pos (i + 1)))
  let e0 := s.reportError .leftRecursionSentinel
  -- the chain of implementation states
  have hbase : ∃ a, (clr a = pos 0 ∧ WfSt (inpOf s) a) ∧ BodyAns P env r A s (.err e0) (.ok b0 a) := by
    obtain ⟨Nw, hfld⟩ := field_seed (P := P) H hws hP (.err e0)
    obtain ⟨sb, h1, h2, h3⟩ := body_of_alt_err (P := P) (seed := .err e0) (e := e0) H hP G
      ⟨Nw, fun n hn => alt_err H.xs_ne (evalSeq_rec_err n e0 (hfld n hn))⟩
    exact ⟨sb, ⟨h1, h2⟩, h3⟩
  have hstep : ∀ i, i < m → ∀ a, (clr a = pos i ∧ WfSt (inpOf s) a) →
      ∃ b, (clr b = pos (i + 1) ∧ WfSt (inpOf s) b) ∧
        BodyAns P env r A s (.ok (nestL ext b0 i) a) (.ok (ext i (nestL ext b0 i)) b) := by
    intro i hi a ⟨hca, hwa⟩
    obtain ⟨k, seen, acc, q, q', hx, hq, hconv, hproj⟩ := G.step i hi (nestL ext b0 i)
    rw [← hca] at hx
    obtain ⟨b, h1, h2, h3⟩ := body_of_alt_ok (P := P) H hws hP hwa hx hq hconv hproj
    exact ⟨b, ⟨h1, h2⟩, h3⟩
  obtain ⟨st, hb, hg, hst⟩ := chain_exists (fun i a => clr a = pos i ∧ WfSt (inpOf s) a)
    (fun i a b => BodyAns P env r A s (.ok (nestL ext b0 i) a) (.ok (ext i (nestL ext b0 i)) b))
    (fun a => BodyAns P env r A s (.err e0) (.ok b0 a)) m hbase hstep
  -- the stop clause
  have hstop : ∃ v' ns, ns.off ≤ (st m).off ∧
      BodyAns P env r A s (.ok (nestL ext b0 m) (st m)) (.ok v' ns) := by
    obtain ⟨hcm, hwm⟩ := hg m (Nat.le_refl _)
    have hoff : (st m).off = (pos m).off := by rw [← hcm]; rfl
    obtain ⟨k, hx | ⟨seen, acc, p', q, q', fs, hx, hle, hq, hconv, hproj⟩⟩ := G.stop (nestL ext b0 m)
    · rw [← hcm] at hx
      obtain ⟨e, halt⟩ := alt_err_of_xs (P := P) H hws hP hwm hx
      obtain ⟨sb, h1, _, h3⟩ := body_of_alt_err (P := P) H hP G halt
      refine ⟨_, sb, ?_, h3⟩
      have : sb.off = (pos 0).off := by rw [← h1]; rfl
      have := G.pos_le m (Nat.le_refl _)
      omega
    · rw [← hcm] at hx
      obtain ⟨b, h1, _, h3⟩ := body_of_alt_ok (P := P) H hws hP hwm hx hq hconv hproj
      refine ⟨_, b, ?_, h3⟩
      have : b.off = p'.off := by rw [← h1]; rfl
      omega
  -- one fuel bound for all clauses
  obtain ⟨N0, hN0⟩ := hb
  obtain ⟨Ns, hNs⟩ := uniform_bound
    (fun i n => AnsS P (A, s.off) (.ok (nestL ext b0 i) (st i)) (ruleBody env (eval env n) r s)
      (.ok (ext i (nestL ext b0 i)) (st (i + 1)))) m hst
  obtain ⟨v', ns, hle, Nt, hNt⟩ := hstop
  refine ⟨st, max N0 (max Ns Nt), fun i hi => (hg i hi).1, fun n hn => ?_⟩
  refine ⟨fun g hg' => ?_, fun i hi g hg' => ?_, fun i hi => ?_, fun g hg' => ?_⟩
  · exact hN0 n (by omega) _ hg' (seeded_lookup _ _ g)
  · exact hNs i hi n (by omega) _ hg' (seeded_lookup _ _ g)
  · have h1 : (st i).off = (pos i).off := by rw [← (hg i (by omega)).1]; rfl
    have h2 : (st (i + 1)).off = (pos (i + 1)).off := by rw [← (hg (i + 1) (by omega)).1]; rfl
    have := G.mono i hi
    omega
  · obtain ⟨g', e', hu'⟩ := hNt n (by omega) (seeded (A, s.off) (.ok (nestL ext b0 m) (st m)) g) hg'
      (seeded_lookup _ _ g)
    exact .inr ⟨v', ns, g', e', hle, hu'⟩

end Main

/-! ## 9. corollaries: `DirectLeftRec`, the rule wrapper, `parse_advanced` -/

section Cor
variable {env : Env} {r : Rule} {A l : String} {xs rest : List Expr} {R : List String}
  {F : List FieldDesc} {fl : FieldDesc} {u : Nat} {s : St} {pos : Nat → St}
  {fs0 : Parsed} {fsx : Nat → Val → Parsed} {m : Nat}

/-- base value and extensions of the shape theorem -/
def baseVal (r : Rule) (A : String) (s : St) (pos : Nat → St) (fs0 : Parsed) : Val :=
  Val.node A fs0 (posOf r s (pos 0))
def extVal (r : Rule) (A : String) (s : St) (pos : Nat → St) (fsx : Nat → Val → Parsed) (i : Nat)
    (v : Val) : Val :=
  Val.node A (fsx i v) (posOf r s (pos (i + 1)))

/-- the left-nested tree after `m` extensions -/
def leftTree (r : Rule) (A : String) (s : St) (pos : Nat → St) (fs0 : Parsed)
    (fsx : Nat → Val → Parsed) (m : Nat) : Val :=
  nestL (extVal r A s pos fsx) (baseVal r A s pos fs0) m

/-- pure hooks: the relative notion at the user context `u` of the reference semantics -/
theorem shape_direct_at (H : LeftRecShape env r A l xs rest R F fl) (hws : NoLeadWs env u r s)
    (G : Greedy env u r A l xs rest F fl s pos fs0 fsx m) :
    ∃ (st : Nat → St) (N : Nat), (∀ i, i ≤ m → clr (st i) = pos i) ∧ ∀ n, N ≤ n →
      DirectLeftRecOn (· = u) (ruleBody env (eval env n) r) (A, s.off) s
        (s.reportError .leftRecursionSentinel) (baseVal r A s pos fs0) (extVal r A s pos fsx) st m :=
  shape_direct H hws (fun u' hu' => by subst hu'; exact HookAgree.refl _ _) G

/-- hooks whose answers do not depend on the user context: the semantic hypothesis `DirectLeftRec`
    of `C07_direct_memoBody` (LeftRec.lean) itself -/
theorem shape_DirectLeftRec (H : LeftRecShape env r A l xs rest R F fl) (hws : NoLeadWs env u r s)
    (hfree : ∀ u', HookAgree env.hooks u' u)
    (G : Greedy env u r A l xs rest F fl s pos fs0 fsx m) :
    ∃ (st : Nat → St) (N : Nat), (∀ i, i ≤ m → clr (st i) = pos i) ∧ ∀ n, N ≤ n →
      DirectLeftRec (ruleBody env (eval env n) r) (A, s.off) s
        (s.reportError .leftRecursionSentinel) (baseVal r A s pos fs0) (extVal r A s pos fsx) st m := by
  obtain ⟨st, N, h1, h2⟩ := shape_direct (P := fun _ => True) H hws (fun u' _ => hfree u') G
  exact ⟨st, N, h1, fun n hn => (h2 n hn).toDirect⟩

/-- **C07 for the usual shape, wrapper level**, with the count: on a cache miss the left-recursive
    wrapper (`memoBody`, body run with recursion fuel `n ≥ N`) returns the left-nested tree for every
    loop fuel `k ≥ m + 2` and runs out of loop fuel for `k ≤ m + 1`: it evaluates the body exactly
    `m + 2` times (base, `m` extensions, and the one that fails or makes no progress). -/
theorem shape_memoBody (H : LeftRecShape env r A l xs rest R F fl) {g : Global}
    (hws : NoLeadWs env g.uctx r s)
    (G : Greedy env g.uctx r A l xs rest F fl s pos fs0 fsx m)
    (hmiss : g.lookup (A, s.off) = none) :
    ∃ (se : St) (N : Nat), clr se = pos m ∧ ∀ n, N ≤ n → ∃ g',
      (∀ k, m + 2 ≤ k → memoBody r.flags A (ruleBody env (eval env n) r) k s g =
        some (.ok (leftTree r A s pos fs0 fsx m) se, g')) ∧
      (∀ k, k ≤ m + 1 → memoBody r.flags A (ruleBody env (eval env n) r) k s g = none) ∧
      g'.uctx = g.uctx ∧
      g'.lookup (A, s.off) = some (.ok (leftTree r A s pos fs0 fsx m) se) := by
  obtain ⟨st, N, hclr, hD⟩ := shape_direct_at H hws G
  refine ⟨st m, N, hclr m (Nat.le_refl _), fun n hn => ?_⟩
  obtain ⟨g', h1, h2, hu, hk⟩ := C07_direct_memoBody_on (flags := r.flags) (name := A) H.lr
    (hD n hn) (g := g) rfl hmiss
  exact ⟨g', h1, h2, hu, hk (ruleBody_keepsKey env n r _ s)⟩

/-- **C07 for the usual shape, rule level.**  A call of `parse_A` (the model: `(eval env n).rule A`)
    at a state `s` without leading whitespace, from a global state that has no entry for
    `(A, s.off)`: for every large enough fuel it returns the left-nested tree
    `ext (m-1) (… (ext 0 b0))`, ending where the greedy iteration `b x*` of the reference semantics
    ends (`clr se = pos m`); the user context is unchanged and the cache holds that result for
    `(A, s.off)` afterwards. -/
theorem shape_rule (H : LeftRecShape env r A l xs rest R F fl) {g : Global}
    (hws : NoLeadWs env g.uctx r s)
    (G : Greedy env g.uctx r A l xs rest F fl s pos fs0 fsx m)
    (hmiss : g.lookup (A, s.off) = none) :
    ∃ (se : St) (N : Nat), clr se = pos m ∧ ∀ n, N ≤ n → ∃ g',
      (eval env n).rule A s g = some (.ok (leftTree r A s pos fs0 fsx m) se, g') ∧
      g'.uctx = g.uctx ∧
      g'.lookup (A, s.off) = some (.ok (leftTree r A s pos fs0 fsx m) se) := by
  obtain ⟨st, N, hclr, hD⟩ := shape_direct_at H hws G
  have hname := rule_name H.find
  refine ⟨st m, max N (m + 2) + 1, hclr m (Nat.le_refl _), fun n hn => ?_⟩
  obtain ⟨n', rfl⟩ : ∃ n', n = n' + 1 := ⟨n - 1, by omega⟩
  have hflags : r.flags.leftRecursive = true := H.lr
  obtain ⟨g', h1, _, hu, hk⟩ := C07_direct_memoBody_on (flags := r.flags) (name := A) hflags
    (hD n' (by omega)) (g := g.emit (.traceStart A s.off)) rfl (by simpa using hmiss)
  have hk' := hk (ruleBody_keepsKey env n' r _ s)
  refine ⟨traceResult g' (.ok (leftTree r A s pos fs0 fsx m) (st m)), ?_, ?_, ?_⟩
  · rw [eval_rule_succ]
    unfold stepRule
    simp only [H.find]
    unfold normalRule
    simp only [hname, h1 n' (by omega)]
    rfl
  · rw [traceResult_uctx, hu]; rfl
  · rw [LR.lookup_of_cache_eq (LR.traceResult_cache _ _)]
    exact hk'

/-- **the other half of "accepts exactly `b x*`"**: if no base alternative matches at `s` (reference
    semantics), the rule fails at `s` – after one body evaluation; the recursive alternative cannot
    start without a base. -/
theorem shape_reject (H : LeftRecShape env r A l xs rest R F fl) {g : Global}
    (hws : NoLeadWs env g.uctx r s)
    (hbase : ∃ k, Spec.evalAlts env (Spec.eval env g.uctx k) (shapeCtx env r F)
      (choiceF env F l A xs rest) rest (clr s) = some (.err noErr))
    (hmiss : g.lookup (A, s.off) = none) :
    ∃ (e : PErr) (N : Nat), ∀ n, N ≤ n → ∃ g',
      (eval env n).rule A s g = some (.err e, g') ∧ g'.uctx = g.uctx := by
  have hP : ∀ u', (· = g.uctx) u' → HookAgree env.hooks u' g.uctx :=
    fun u' hu' => by subst hu'; exact HookAgree.refl _ _
  obtain ⟨e0, he0⟩ : ∃ e0, e0 = s.reportError .leftRecursionSentinel := ⟨_, rfl⟩
  obtain ⟨Nw, hfld⟩ := field_seed (P := (· = g.uctx)) H hws hP (.err e0)
  obtain ⟨k, hb⟩ := hbase
  have hwE : WfSt (inpOf s) (s.recordError e0) := wf_recordError.mpr (wf_inpOf s)
  have hb' : Spec.evalAlts env (Spec.eval env g.uctx k) (shapeCtx env r F) (choiceF env F l A xs rest)
      rest (clr (s.recordError e0)) = some (.err noErr) := by rw [clr_recordError]; exact hb
  obtain ⟨r', N, ha, _, hN⟩ := bridge_alts (P := (· = g.uctx)) H.closed H.pure hP H.rest_ok hwE hb'
  obtain ⟨e, rfl⟩ := abs_err_inv ha
  have hname := rule_name H.find
  refine ⟨e, max N Nw + 5, fun n hn => ?_⟩
  obtain ⟨n', rfl⟩ : ∃ n', n = n' + 5 := ⟨n - 5, by omega⟩
  have h1 := alt_err H.xs_ne (evalSeq_rec_err n' e0 (hfld n' (by omega)))
  have h2 := choice_err H.rest_ne h1 (hN (n' + 3) (by omega))
  have hdef : AnsS (· = g.uctx) (A, s.off) (.err e0)
      ((eval env (n' + 4)).expr (shapeCtx env r F) r.definition s) (.err e) := by rw [H.defn]; exact h2
  have h3 := body_err H hdef
  obtain ⟨gb, hbody, hub⟩ := h3 (seeded (A, s.off) (.err e0) (g.emit (.traceStart A s.off))) rfl
    (seeded_lookup _ _ _)
  refine ⟨traceResult (gb.insert (A, s.off) (.err e)) (.err e), ?_, ?_⟩
  · rw [eval_rule_succ]
    unfold stepRule
    simp only [H.find]
    unfold normalRule memoBody
    have hmiss' : (g.emit (.traceStart A s.off)).lookup (A, s.off) = none := by simpa using hmiss
    have hb2 : ruleBody env (eval env (n' + 4)) r s
        (growPre (A, s.off) ((g.emit (.traceStart A s.off)).insert (A, s.off) (.err e0))) =
        some (.err e, gb) := hbody
    have hgl : growLoop (ruleBody env (eval env (n' + 4)) r) (A, s.off) s (n' + 4) (.err e0)
        ((g.emit (.traceStart A s.off)).insert (A, s.off) (.err e0)) =
        some (.err e, gb.insert (A, s.off) (.err e)) := by rw [growLoop_succ, hb2]
    simp only [hname, H.lr, if_true, hmiss', ← he0, hgl]
  · rw [traceResult_uctx]
    show gb.uctx = g.uctx
    rw [hub]; rfl

/-- **C07 for the usual shape, end to end** (`parse_advanced` on the rule `A`): fresh state, fresh
    global state. -/
theorem shape_parse (H : LeftRecShape env r A l xs rest R F fl) (inp : List UInt8) (u : Nat)
    (hws : NoLeadWs env u r (St.new inp))
    (G : Greedy env u r A l xs rest F fl (St.new inp) pos fs0 fsx m) :
    ∃ (se : St) (N : Nat), clr se = pos m ∧ ∀ n, N ≤ n → ∃ g',
      parseAdvanced env n A inp u =
        some (.ok (leftTree r A (St.new inp) pos fs0 fsx m) se, g') := by
  obtain ⟨se, N, h1, h2⟩ := shape_rule (g := Global.init u) H hws G
    (by simp [Global.init, Global.lookup])
  refine ⟨se, N, h1, fun n hn => ?_⟩
  obtain ⟨g', h, _, _⟩ := h2 n hn
  exact ⟨g', h⟩

end Cor

/-! ## 9b. the recursive field of every extension holds the previous result -/

theorem get_cons (k : String) (x : Val) (p : Parsed) (l : String) :
    Parsed.get ((k, x) :: p) l = if (k == l) = true then some x else Parsed.get p l := by
  unfold Parsed.get
  simp only [List.find?_cons]
  split <;> simp_all

theorem get_map_ne {n l : String} (x : Val) (h : (n == l) = false) : ∀ p : Parsed,
    Parsed.get (p.map fun kv => if kv.1 == n then (n, x) else kv) l = Parsed.get p l := by
  intro p
  induction p with
  | nil => rfl
  | cons kv p ih =>
    obtain ⟨k, y⟩ := kv
    simp only [List.map_cons]
    by_cases hk : (k == n) = true
    · have hk' : k = n := eq_of_beq hk
      subst hk'
      simp only [hk, if_true, get_cons, h, Bool.false_eq_true, if_false]
      exact ih
    · have hk2 : (k == n) = false := by simpa using hk
      simp only [hk2, Bool.false_eq_true, if_false, get_cons]
      split
      · rfl
      · exact ih

theorem get_set_ne (p : Parsed) {n l : String} (x : Val) (h : (n == l) = false) :
    (p.set n x).get l = p.get l := by
  unfold Parsed.set
  split
  · exact get_map_ne x h p
  · unfold Parsed.get
    simp [List.find?_append, h]

theorem hasField_cons (f : FieldDesc) (fs : List FieldDesc) (l : String) :
    hasField (f :: fs) l = ((f.name == l) || hasField fs l) := by
  simp [hasField]

theorem mergePart_get {l : String} : ∀ (inner : List FieldDesc) (seen : List String) (acc r : Parsed)
    {seen' : List String} {acc' : Parsed},
    mergePart inner seen acc r = .ok (seen', acc') → hasField inner l = false →
      acc'.get l = acc.get l := by
  intro inner
  induction inner with
  | nil => intro seen acc r seen' acc' h _; simp only [mergePart, Except.ok.injEq, Prod.mk.injEq] at h
           rw [h.2]
  | cons f fs ih =>
    intro seen acc r seen' acc' h hl
    rw [hasField_cons, Bool.or_eq_false_iff] at hl
    simp only [mergePart] at h
    split at h
    · cases h
    · split at h
      · rw [ih _ _ _ h hl.2, get_set_ne _ _ hl.1]
      · split at h
        · cases h
        · split at h
          · cases h
          · split at h
            · cases h
            · rw [ih _ _ _ h hl.2, get_set_ne _ _ hl.1]

theorem spec_evalSeq_get {env : Env} {rec : SRec} {ctx : Ctx} {l : String} :
    ∀ (ps : List Expr) (seen : List String) (acc : Parsed) (s : St) {seen' : List String}
      {acc' : Parsed} {s' : St},
      (∀ x ∈ ps, hasField (filterRuleFields ctx.ruleFields (ownFields env x)) l = false) →
      Spec.evalSeq env rec ctx ps seen acc s = some (.ok (seen', acc') s') → acc'.get l = acc.get l := by
  intro ps
  induction ps with
  | nil =>
    intro seen acc s seen' acc' s' _ h
    simp only [Spec.evalSeq, Option.some.injEq, Res.ok.injEq, Prod.mk.injEq] at h
    rw [h.1.2]
  | cons p ps ih =>
    intro seen acc s seen' acc' s' hx h
    simp only [Spec.evalSeq, bindS] at h
    split at h
    · cases h
    · split at h
      · cases h
      · rename_i sn ac hm
        rw [ih _ _ _ (fun x hx' => hx x (List.mem_cons_of_mem _ hx')) h]
        exact mergePart_get _ _ _ _ hm (hx p List.mem_cons_self)
    · cases h
    · cases h

theorem project_get {l : String} : ∀ (fs : List FieldDesc) (acc : Parsed) {q : Parsed},
    project fs acc = .ok q → hasField fs l = true → q.get l = acc.get l := by
  intro fs
  induction fs with
  | nil => intro acc q _ hl; simp [hasField] at hl
  | cons f fs ih =>
    intro acc q h hl
    simp only [project] at h
    split at h
    · rename_i v p hv hp
      cases h
      rw [get_cons]
      by_cases hk : (f.name == l) = true
      · simp only [hk, if_true]
        rw [← eq_of_beq hk, hv]
      · simp only [hk]
        rw [hasField_cons] at hl
        simp only [hk, Bool.false_or] at hl
        exact ih acc hp hl
    · cases h
    · cases h

theorem convertArm_go_get {l : String} {inner : List FieldDesc} {q : Parsed}
    (hi : hasField inner l = true) : ∀ (fs : List FieldDesc) {q' : Parsed},
    convertArm.go inner q fs = .ok q' → hasField fs l = true → q'.get l = q.get l := by
  intro fs
  induction fs with
  | nil => intro q' _ hl; simp [hasField] at hl
  | cons f fs ih =>
    intro q' h hl
    simp only [convertArm.go] at h
    split at h
    · rename_i v p' h1 h2
      cases h
      rw [get_cons]
      by_cases hk : (f.name == l) = true
      · simp only [hk, if_true]
        have hfl : f.name = l := eq_of_beq hk
        rw [hfl, hi] at h1
        simp only [if_true] at h1
        split at h1
        · rename_i v0 hv0; cases h1; exact hv0.symm
        · cases h1
      · simp only [hk]
        rw [hasField_cons] at hl
        simp only [hk, Bool.false_or] at hl
        exact ih h2 hl
    · cases h
    · cases h

theorem convertArm_get {l : String} {fields inner : List FieldDesc} {q q' : Parsed}
    (h : convertArm fields inner q = .ok q') (hf : hasField fields l = true)
    (hi : hasField inner l = true) : q'.get l = q.get l := by
  unfold convertArm at h
  split at h
  · simp [hasField] at hf
  · rename_i f
    have hfl : f.name = l := by
      simp only [hasField, List.any_cons, List.any_nil, Bool.or_false] at hf
      exact eq_of_beq hf
    have hne : inner.isEmpty = false := by
      cases inner with
      | nil => simp [hasField] at hi
      | cons a b => rfl
    simp only [hne, Bool.false_eq_true, if_false] at h
    split at h
    · rename_i v hv
      cases h
      rw [get_cons, hfl]
      simp only [beq_self_eq_true, if_true]
      rw [← hv, hfl]
    · cases h
  · exact convertArm_go_get hi _ h hf


/-- decidable side conditions for the "recursive field" reading: `l` is a field of the rule, of the
    choice and of the recursive alternative, and no part of `xs` has a field named `l` -/
structure RecFieldOnly (env : Env) (F : List FieldDesc) (l A : String) (xs rest : List Expr) : Prop where
  inF : hasField F l = true
  inChoice : hasField (choiceF env F l A xs rest) l = true
  inAltF : hasField (altF env F l A xs) l = true
  inAltOwn : hasField (altOwn env l A xs) l = true
  notInXs : ∀ x ∈ xs, hasField (filterRuleFields F (ownFields env x)) l = false

/-- **each extension holds the previous result in its recursive field**: the field `l` of the node
    built in growth step `i` from the previous result `v` is `recVal fl A v` (= `Some(Box(v))` for the
    usual field descriptor, `recVal_usual`) -/
theorem Greedy.rec_field {env : Env} {u : Nat} {r : Rule} {A l : String} {xs rest : List Expr}
    {F : List FieldDesc} {fl : FieldDesc} {s : St} {pos : Nat → St} {fs0 : Parsed}
    {fsx : Nat → Val → Parsed} {m : Nat} (G : Greedy env u r A l xs rest F fl s pos fs0 fsx m)
    (hr : RecFieldOnly env F l A xs rest) (i : Nat) (hi : i < m) (v : Val) :
    (fsx i v).get l = some (recVal fl A v) := by
  obtain ⟨k, seen, acc, q, q', hx, hq, hconv, hproj⟩ := G.step i hi v
  rw [project_get _ _ hproj hr.inF, convertArm_get hconv hr.inChoice hr.inAltOwn,
    project_get _ _ hq hr.inAltF, spec_evalSeq_get (ctx := shapeCtx env r F) _ _ _ _ hr.notInXs hx,
    get_cons]
  simp

theorem recVal_usual {fl : FieldDesc} (A : String) (v : Val) (h1 : fl.types.length = 1)
    (h2 : fl.arity = .optional) : recVal fl A v = .some (.boxed v) := by
  unfold recVal
  simp [h1, h2]

/-- the node built in growth step `i`, as a value: `A { l: recVal v, … }` -/
theorem extVal_field {env : Env} {u : Nat} {r : Rule} {A l : String} {xs rest : List Expr}
    {F : List FieldDesc} {fl : FieldDesc} {s : St} {pos : Nat → St} {fs0 : Parsed}
    {fsx : Nat → Val → Parsed} {m : Nat} (G : Greedy env u r A l xs rest F fl s pos fs0 fsx m)
    (hr : RecFieldOnly env F l A xs rest) (i : Nat) (hi : i < m) (v : Val) :
    ∃ fs p, extVal r A s pos fsx i v = Val.node A fs p ∧ Parsed.get fs l = some (recVal fl A v) :=
  ⟨_, _, rfl, G.rec_field hr i hi v⟩

/-! ## 10. non-vacuity: the example grammar of LeftRec.lean

  `@export @leftrec E = l:*E '+' r:Num | b:Num;  @string Num = {'0'..'9'}+;` on `"1+2+3"`: every
  hypothesis of the shape theorem is checked by `rfl` / `decide`, the greedy iteration is computed in
  the reference semantics, and the conclusion of `LeftRecExample.parse_123` follows from the general
  theorem. -/

namespace ShapeExample
open LeftRecExample

def xsE : List Expr := [.lit false [.chr '+'], .field (some (.ident "r")) false "Num"]
def restE : List Expr := [.seq [.field (some (.ident "b")) false "Num"]]
def RE : List String := ["Num", "Whitespace"]
def flE : FieldDesc := ⟨"l", [("E", true)], .optional⟩
def FE : List FieldDesc := [flE, ⟨"r", [("Num", false)], .optional⟩, ⟨"b", [("Num", false)], .optional⟩]

theorem shapeE : LeftRecShape envE ruleE "E" "l" xsE restE RE FE flE where
  find := rfl
  lr := rfl
  notString := rfl
  noChecks := rfl
  defn := rfl
  xs_ne := by decide
  rest_ne := by decide
  fields := rfl
  noOverride := by decide
  recField := by decide
  recFind := by decide
  recName := rfl
  recType := by decide
  closed := by decide
  xs_ok := by decide
  rest_ok := by decide
  pure := ⟨fun _ _ _ => rfl, fun _ _ _ => rfl⟩

theorem noLeadWsE : NoLeadWs envE 0 ruleE s0 := noLeadWs_builtin 0 (fun _ => ⟨by decide, by decide⟩)

def posE (i : Nat) : St := ⟨inp.drop (2 * i + 1), 2 * i + 1, none⟩
def fs0E : Parsed := [("l", .none), ("r", .none), ("b", .some (.str [49]))]
def fsxE (i : Nat) (v : Val) : Parsed :=
  [("l", .some (.boxed v)), ("r", .some (.str [50 + i.toUInt8])), ("b", .none)]

theorem greedyE : Greedy envE 0 ruleE "E" "l" xsE restE FE flE s0 posE fs0E fsxE 2 where
  base := ⟨10, _, rfl, rfl⟩
  step := fun i hi v =>
    match i, hi with
    | 0, _ => ⟨10, _, _, _, _, rfl, rfl, rfl, rfl⟩
    | 1, _ => ⟨10, _, _, _, _, rfl, rfl, rfl, rfl⟩
  mono := fun i hi =>
    match i, hi with
    | 0, _ => by decide
    | 1, _ => by decide
  stop := fun v => ⟨10, .inl rfl⟩


/-- the tree of the general theorem is the tree of `LeftRecExample.parse_123` -/
theorem leftTreeE : leftTree ruleE "E" s0 posE fs0E fsxE 2 = extE 1 (extE 0 b0E) := rfl

/-- `LeftRecExample.parse_123`, from the shape theorem: for every large enough fuel the parser
    returns `E{l: E{l: E{b: "1"}, r: "2"}, r: "3"}` and ends at offset 5 with nothing left -/
theorem parse_123_shape : ∃ (se : St) (N : Nat), se.off = 5 ∧ se.rest = [] ∧ ∀ n, N ≤ n → ∃ g',
    parseAdvanced envE n "E" inp 0 = some (.ok (extE 1 (extE 0 b0E)) se, g') := by
  obtain ⟨se, N, h1, h2⟩ := shape_parse shapeE inp 0 noLeadWsE greedyE
  refine ⟨se, N, ?_, ?_, fun n hn => ?_⟩
  · have := congrArg St.off h1; exact this
  · have := congrArg St.rest h1; exact this
  · rw [← leftTreeE]; exact h2 n hn

/-- the semantic hypothesis of `C07_direct_memoBody` itself (the default hooks ignore the user
    context) -/
example : ∃ (st : Nat → St) (N : Nat), (∀ i, i ≤ 2 → Spec.clr (st i) = posE i) ∧ ∀ n, N ≤ n →
    DirectLeftRec (ruleBody envE (eval envE n) ruleE) ("E", s0.off) s0
      (s0.reportError .leftRecursionSentinel) b0E extE st 2 :=
  shape_DirectLeftRec shapeE noLeadWsE (fun _ => ⟨fun _ _ => rfl, fun _ _ => rfl⟩) greedyE


theorem recFieldOnlyE : RecFieldOnly envE FE "l" "E" xsE restE where
  inF := by decide
  inChoice := by decide
  inAltF := by decide
  inAltOwn := by decide
  notInXs := by decide

/-- in the example every extension is `E { l: Some(Box(previous)), … }` -/
example (i : Nat) (hi : i < 2) (v : Val) : (fsxE i v).get "l" = some (.some (.boxed v)) := by
  rw [greedyE.rec_field recFieldOnlyE i hi v, recVal_usual "E" v rfl rfl]

/-- `NoLeadWs` cannot be dropped.  On `" 1+2+3"` (a leading space; whitespace skipping is on) the
    recursive call `l:*E` is made *after* skipping the space, i.e. at offset 1 – a cache miss there,
    not a hit on the seed for offset 0.  The nested call parses all of `1+2+3`, the outer recursive
    alternative then finds no `'+'`, and the rule returns only the base match `E{b:"1"}`, ending at
    offset 2: for this input the rule does *not* accept `b x*` greedily. -/
example :
    (match parseAdvanced envE 60 "E" [32, 49, 43, 50, 43, 51] 0 with
     | some (.ok v s, _) => v.render == "E { l: None, r: None, b: Some(S\"31\") }" && s.off == 2
     | _ => false) = true := by decide

end ShapeExample

/-! ### a second instance: `@position`, a user-defined whitespace rule, whitespace inside the input -/

namespace ShapeExample2

/-- `@position @leftrec A = l:*A x:X | y:Y;  X = 'x';  Y = 'y';  @no_skip_ws Whitespace = {' '};` -/
def ruleA : Rule := ⟨[.position, .leftrec], "A",
  .choice [.seq [.field (some (.ident "l")) true "A", .field (some (.ident "x")) false "X"],
           .seq [.field (some (.ident "y")) false "Y"]]⟩
def ruleX : Rule := ⟨[], "X", .choice [.seq [.lit false [.chr 'x']]]⟩
def ruleY : Rule := ⟨[], "Y", .choice [.seq [.lit false [.chr 'y']]]⟩
def ruleW : Rule := ⟨[.noSkipWs], "Whitespace",
  .choice [.seq [.closure (.choice [.seq [.lit false [.chr ' ']]]) false]]⟩
def envA : Env :=
  { g := ⟨[.rule ruleA, .rule ruleX, .rule ruleY, .rule ruleW]⟩, settings := {}, hooks := default, nf := 10 }
/-- `"y x x"` -/
def inpA : List UInt8 := [121, 32, 120, 32, 120]

def xsA : List Expr := [.field (some (.ident "x")) false "X"]
def restA : List Expr := [.seq [.field (some (.ident "y")) false "Y"]]
def RA : List String := ["X", "Y", "Whitespace"]
def flA : FieldDesc := ⟨"l", [("A", true)], .optional⟩
def FA : List FieldDesc := [flA, ⟨"x", [("X", false)], .optional⟩, ⟨"y", [("Y", false)], .optional⟩]

theorem shapeA : LeftRecShape envA ruleA "A" "l" xsA restA RA FA flA where
  find := rfl
  lr := rfl
  notString := rfl
  noChecks := rfl
  defn := rfl
  xs_ne := by decide
  rest_ne := by decide
  fields := rfl
  noOverride := by decide
  recField := by decide
  recFind := by decide
  recName := rfl
  recType := by decide
  closed := by decide
  xs_ok := by decide
  rest_ok := by decide
  pure := ⟨fun _ _ _ => rfl, fun _ _ _ => rfl⟩

theorem noLeadWsA : NoLeadWs envA 0 ruleA (St.new inpA) := fun _ => ⟨20, _, rfl⟩

def posA (i : Nat) : St := ⟨inpA.drop (2 * i + 1), 2 * i + 1, none⟩
def fs0A : Parsed := [("l", .none), ("x", .none), ("y", .some (.node "Y" [] none))]
def fsxA (_ : Nat) (v : Val) : Parsed :=
  [("l", .some (.boxed v)), ("x", .some (.node "X" [] none)), ("y", .none)]

theorem greedyA : Greedy envA 0 ruleA "A" "l" xsA restA FA flA (St.new inpA) posA fs0A fsxA 2 where
  base := ⟨20, _, rfl, rfl⟩
  step := fun i hi v =>
    match i, hi with
    | 0, _ => ⟨20, _, _, _, _, rfl, rfl, rfl, rfl⟩
    | 1, _ => ⟨20, _, _, _, _, rfl, rfl, rfl, rfl⟩
  mono := fun i hi =>
    match i, hi with
    | 0, _ => by decide
    | 1, _ => by decide
  stop := fun v => ⟨20, .inl rfl⟩

theorem parse_yxx : ∃ (se : St) (N : Nat), se.off = 5 ∧ se.rest = [] ∧ ∀ n, N ≤ n → ∃ g',
    parseAdvanced envA n "A" inpA 0 = some (.ok
      (.node "A" [("l", .some (.boxed
        (.node "A" [("l", .some (.boxed
          (.node "A" [("l", .none), ("x", .none), ("y", .some (.node "Y" [] none))] (some (0, 1))))),
          ("x", .some (.node "X" [] none)), ("y", .none)] (some (0, 3))))),
        ("x", .some (.node "X" [] none)), ("y", .none)] (some (0, 5))) se, g') := by
  obtain ⟨se, N, h1, h2⟩ := shape_parse shapeA inpA 0 noLeadWsA greedyA
  refine ⟨se, N, ?_, ?_, fun n hn => h2 n hn⟩
  · have := congrArg St.off h1; exact this
  · have := congrArg St.rest h1; exact this


theorem recFieldOnlyA : RecFieldOnly envA FA "l" "A" xsA restA where
  inF := by decide
  inChoice := by decide
  inAltF := by decide
  inAltOwn := by decide
  notInXs := by decide

/-- no base: `"x"` is rejected -/
example : ∃ (e : PErr) (N : Nat), ∀ n, N ≤ n → ∃ g',
    (eval envA n).rule "A" (St.new [120]) (Global.init 0) = some (.err e, g') ∧ g'.uctx = 0 :=
  shape_reject (g := Global.init 0) shapeA (fun _ => ⟨20, _, rfl⟩) ⟨20, rfl⟩ rfl

end ShapeExample2

end LRS
end Peg
