import PegVerif.FrontEnd
import PegVerif.Compile
import PegVerif.Proofs.Complete
import PegVerif.Proofs.SetMemo
/-
  C12 "grammar text is read into the structure its syntax denotes" and
  C17 "the bootstrapped grammar parser is what the generator produces from grammar.ebnf".

  1. escapes denote the documented characters (`Literal.lean` against a hex *printer*);
  2. directives: `Rule.flags` is a function of the *set* of directives, `Rule.checks` keeps the
     check directives in source order and ignores everything else;
  3. conformance: the model front end (`FrontEnd.parse` = `eval` on the extracted meta-grammar) is
     exactly the PEG reading (`Spec.parse`) of grammar.ebnf, plus well-formedness facts about the
     extracted meta-grammar, all established by kernel evaluation so that they are re-checked
     whenever `Extracted/MetaGrammar.lean` is regenerated;
  4. three concrete end-to-end runs of the model front end.
-/
namespace Peg
open Spec

/-! ## 1. Escapes -/

/-- printer: 0..15 ↦ '0'..'9','a'..'f' -/
def hexDigitChar (n : Nat) : Char :=
  if n < 10 then Char.ofNat (48 + n) else Char.ofNat (87 + n)

/-- printer: 0..15 ↦ '0'..'9','A'..'F' -/
def hexDigitCharUpper (n : Nat) : Char :=
  if n < 10 then Char.ofNat (48 + n) else Char.ofNat (55 + n)

/-- exactly `width` hex digits of `n` (most significant first; `n` is taken modulo `16^width`),
    each printed with `p` -/
def hexDigitsBy (p : Nat → Char) : Nat → Nat → List Char
  | 0, _ => []
  | w+1, n => p (n / 16 ^ w % 16) :: hexDigitsBy p w n

/-- exactly `width` lowercase hex digits of `n`, most significant first -/
def hexDigits (width n : Nat) : List Char := hexDigitsBy hexDigitChar width n

/-- the same in uppercase -/
def hexDigitsUpper (width n : Nat) : List Char := hexDigitsBy hexDigitCharUpper width n

theorem hexDigits_length (p : Nat → Char) (w n : Nat) : (hexDigitsBy p w n).length = w := by
  induction w with
  | zero => rfl
  | succ w ih => simp [hexDigitsBy, ih]

theorem hexVal_hexDigitChar : ∀ d, d < 16 → hexVal (hexDigitChar d) = some d := by decide

theorem hexVal_hexDigitCharUpper : ∀ d, d < 16 → hexVal (hexDigitCharUpper d) = some d := by decide

/-- a digit printer that `char::to_digit(16)` inverts -/
def GoodPrinter (p : Nat → Char) : Prop := ∀ d, d < 16 → hexVal (p d) = some d

theorem goodPrinter_lower : GoodPrinter hexDigitChar := hexVal_hexDigitChar
theorem goodPrinter_upper : GoodPrinter hexDigitCharUpper := hexVal_hexDigitCharUpper

/-- the decoder's fold inverts the printer (general accumulator) -/
theorem hexFold_hexDigitsBy {p : Nat → Char} (hp : GoodPrinter p) (w n acc : Nat) :
    hexFold (hexDigitsBy p w n) acc = some (acc * 16 ^ w + n % 16 ^ w) := by
  induction w generalizing acc with
  | zero => simp [hexDigitsBy, hexFold, Nat.mod_one]
  | succ w ih =>
    simp only [hexDigitsBy, hexFold, hp _ (Nat.mod_lt _ (by omega)), ih]
    rw [Nat.mod_pow_succ, Nat.pow_succ]
    congr 1
    rw [Nat.add_mul, Nat.mul_assoc, Nat.mul_comm 16, Nat.mul_comm (n / 16 ^ w % 16)]
    omega

theorem hexFold_hexDigitsBy_zero {p : Nat → Char} (hp : GoodPrinter p) {w n : Nat} (h : n < 16 ^ w) :
    hexFold (hexDigitsBy p w n) 0 = some n := by
  rw [hexFold_hexDigitsBy hp, Nat.zero_mul, Nat.zero_add, Nat.mod_eq_of_lt h]

/-- `hexFold (hexDigits w n) 0 = some n` when `n < 16^w` -/
theorem hexFold_hexDigits {w n : Nat} (h : n < 16 ^ w) : hexFold (hexDigits w n) 0 = some n :=
  hexFold_hexDigitsBy_zero goodPrinter_lower h

theorem hexFold_hexDigitsUpper {w n : Nat} (h : n < 16 ^ w) : hexFold (hexDigitsUpper w n) 0 = some n :=
  hexFold_hexDigitsBy_zero goodPrinter_upper h

/-- `char::from_u32(c as u32) == Some(c)` -/
theorem charFromU32_toNat (c : Char) : charFromU32 c.toNat = some c := by
  unfold charFromU32
  have h : c.toNat.isValidChar := c.valid
  simp [h, Char.ofNat_toNat]

theorem char_toNat_lt (c : Char) : c.toNat < 0x110000 := by
  have h : c.toNat.isValidChar := c.valid
  unfold Nat.isValidChar at h
  omega

/-- `\xXX` (any digit printer the decoder inverts: lowercase, uppercase) -/
theorem hexa_escape_by {p : Nat → Char} (hp : GoodPrinter p) (c : Char) (h : c.toNat < 256) :
    (StringItem.hexa (p (c.toNat / 16)) (p (c.toNat % 16))).toChar = .ok c := by
  have h1 : c.toNat / 16 < 16 := by omega
  have h2 : c.toNat % 16 < 16 := by omega
  simp only [StringItem.toChar, hp _ h1, hp _ h2]
  have : (c.toNat / 16 * 16 + c.toNat % 16) % 256 = c.toNat := by omega
  rw [this, Char.ofNat_toNat]

/-- `\xXX`: the two digits of `c` denote `c` -/
theorem hexa_escape (c : Char) (h : c.toNat < 256) (d1 d2 : Char)
    (hd : hexDigits 2 c.toNat = [d1, d2]) : (StringItem.hexa d1 d2).toChar = .ok c := by
  have h1 : c.toNat / 16 < 16 := by omega
  simp only [hexDigits, hexDigitsBy, Nat.pow_one, Nat.pow_zero, Nat.div_one, List.cons.injEq,
    and_true, Nat.mod_eq_of_lt h1] at hd
  obtain ⟨rfl, rfl⟩ := hd
  exact hexa_escape_by goodPrinter_lower c h

/-- `\u{X…}`, `\uXXXX`, `\U00XXXXXX`, general form: any width that can hold `c` (no upper bound on
    the width is needed in the model; the grammar allows 1–6 digits) -/
theorem utf8_escape_by {p : Nat → Char} (hp : GoodPrinter p) (c : Char) {w : Nat}
    (h : c.toNat < 16 ^ w) : (StringItem.utf8 (hexDigitsBy p w c.toNat)).toChar = .ok c := by
  simp only [StringItem.toChar, hexFold_hexDigitsBy_zero hp h, charFromU32_toNat]

/-- `\u{X..}` with any number of leading zeros up to 6 digits -/
theorem utf8_escape_braced (c : Char) (w : Nat) (_hw : w ≤ 6) (h : c.toNat < 16 ^ w) :
    (StringItem.utf8 (hexDigits w c.toNat)).toChar = .ok c :=
  utf8_escape_by goodPrinter_lower c h

/-- `\uXXXX` -/
theorem utf8_escape_u4 (c : Char) (h : c.toNat < 65536) :
    (StringItem.utf8 (hexDigits 4 c.toNat)).toChar = .ok c :=
  utf8_escape_by goodPrinter_lower c (w := 4) h

/-- `\U00XXXXXX`: every char fits -/
theorem utf8_escape_U6 (c : Char) : (StringItem.utf8 (hexDigits 6 c.toNat)).toChar = .ok c :=
  utf8_escape_by goodPrinter_lower c (w := 6) (by have := char_toNat_lt c; omega)

/-- the same three with uppercase digits -/
theorem utf8_escape_upper (c : Char) {w : Nat} (h : c.toNat < 16 ^ w) :
    (StringItem.utf8 (hexDigitsUpper w c.toNat)).toChar = .ok c :=
  utf8_escape_by goodPrinter_upper c h

/-- simple escapes -/
theorem simple_escape (e : SimpleEsc) : (StringItem.simple e).toChar = .ok e.toChar := rfl

theorem simple_escape_table :
    SimpleEsc.newline.toChar = Char.ofNat 10 ∧ SimpleEsc.cr.toChar = Char.ofNat 13 ∧
    SimpleEsc.tab.toChar = Char.ofNat 9 ∧ SimpleEsc.backslash.toChar = Char.ofNat 92 ∧
    SimpleEsc.quote.toChar = Char.ofNat 39 ∧ SimpleEsc.dquote.toChar = Char.ofNat 34 := by
  decide

theorem simple_escape_cases (e : SimpleEsc) :
    e.toChar = (match e with
      | .newline => '\n' | .cr => '\r' | .tab => '\t' | .backslash => '\\' | .quote => '\'' | .dquote => '"') := by
  cases e <;> rfl

/-- plain characters -/
theorem plain_char (c : Char) : (StringItem.chr c).toChar = .ok c := rfl

/-- rejection: surrogates and values beyond U+10FFFF -/
theorem utf8_escape_reject (ds : List Char) (n : Nat) (h : hexFold ds 0 = some n)
    (hbad : (0xD800 ≤ n ∧ n ≤ 0xDFFF) ∨ 0x110000 ≤ n) :
    (StringItem.utf8 ds).toChar = .err "Invalid utf-8 codepoint" := by
  have hv : ¬ n.isValidChar := by unfold Nat.isValidChar; omega
  simp only [StringItem.toChar, h, charFromU32, if_neg hv]

/-- the rejection is exact: a digit string is rejected iff its value is not a scalar value -/
theorem utf8_escape_ok_iff (ds : List Char) (n : Nat) (h : hexFold ds 0 = some n) :
    (∃ c, (StringItem.utf8 ds).toChar = .ok c) ↔ n.isValidChar := by
  simp only [StringItem.toChar, h, charFromU32]
  by_cases hv : n.isValidChar
  · simp [hv]
  · simp [hv]

example : (StringItem.utf8 ['d', '8', '0', '0']).toChar = .err "Invalid utf-8 codepoint" :=
  utf8_escape_reject _ 0xD800 (by decide) (by decide)
example : (StringItem.utf8 ['d', 'f', 'f', 'f']).toChar = .err "Invalid utf-8 codepoint" :=
  utf8_escape_reject _ 0xDFFF (by decide) (by decide)
example : (StringItem.utf8 ['1', '1', '0', '0', '0', '0']).toChar = .err "Invalid utf-8 codepoint" :=
  utf8_escape_reject _ 0x110000 (by decide) (by decide)
/-- the neighbours are accepted -/
example : (StringItem.utf8 ['d', '7', 'f', 'f']).toChar = .ok (Char.ofNat 0xD7FF) := by rfl
example : (StringItem.utf8 ['e', '0', '0', '0']).toChar = .ok (Char.ofNat 0xE000) := by rfl
example : (StringItem.utf8 ['1', '0', 'F', 'f', 'F', 'F']).toChar = .ok (Char.ofNat 0x10FFFF) := by
  rfl
/-- hypotheses of the escape theorems are satisfiable -/
example : (StringItem.hexa '4' '1').toChar = .ok 'A' :=
  hexa_escape 'A' (by decide) '4' '1' (by decide)
example : hexDigits 4 0x20AC = ['2', '0', 'a', 'c'] := by decide
example : hexDigitsUpper 6 0x1F600 = ['0', '1', 'F', '6', '0', '0'] := by decide

/-! ## 2. Directives -/

theorem RuleFlags.eq_of_fields {a b : RuleFlags} (h1 : a.noSkipWs = b.noSkipWs)
    (h2 : a.exported = b.exported) (h3 : a.string = b.string) (h4 : a.position = b.position)
    (h5 : a.memoize = b.memoize) (h6 : a.leftRecursive = b.leftRecursive) : a = b := by
  cases a; cases b; simp_all

theorem contains_eq_of_mem_iff {ds ds' : List Directive} (h : ∀ d, d ∈ ds ↔ d ∈ ds') (d : Directive) :
    ds.contains d = ds'.contains d := by
  rw [Bool.eq_iff_iff]
  simp only [List.contains_iff_mem]
  exact h d

/-- `Rule.flags` is a function of the *set* of directives -/
theorem flags_eq_of_mem_iff (r : Rule) {ds ds' : List Directive} (h : ∀ d, d ∈ ds ↔ d ∈ ds') :
    ({ r with directives := ds } : Rule).flags = ({ r with directives := ds' } : Rule).flags := by
  apply RuleFlags.eq_of_fields
  · simp only [Rule.flags_noSkipWs]; exact contains_eq_of_mem_iff h _
  · simp only [Rule.flags_exported]; exact contains_eq_of_mem_iff h _
  · simp only [Rule.flags_string]; exact contains_eq_of_mem_iff h _
  · simp only [Rule.flags_position]; exact contains_eq_of_mem_iff h _
  · simp only [Rule.flags_memoize]; exact contains_eq_of_mem_iff h _
  · simp only [Rule.flags_leftRecursive]; exact contains_eq_of_mem_iff h _

/-- directives in any order -/
theorem flags_perm (r : Rule) {ds ds' : List Directive} (h : ds.Perm ds') :
    ({ r with directives := ds } : Rule).flags = ({ r with directives := ds' } : Rule).flags :=
  flags_eq_of_mem_iff r (fun _ => h.mem_iff)

/-- a repeated directive changes nothing -/
theorem flags_dup (r : Rule) (d : Directive) (ds : List Directive) :
    ({ r with directives := d :: d :: ds } : Rule).flags = ({ r with directives := d :: ds } : Rule).flags :=
  flags_eq_of_mem_iff r (fun x => by simp)

/-- a directive that is already present anywhere changes nothing -/
theorem flags_dup_mem (r : Rule) (d : Directive) (ds : List Directive) (hd : d ∈ ds) :
    ({ r with directives := d :: ds } : Rule).flags = ({ r with directives := ds } : Rule).flags :=
  flags_eq_of_mem_iff r (fun x => by
    simp only [List.mem_cons]
    constructor
    · rintro (rfl | h)
      · exact hd
      · exact h
    · exact Or.inr)

/-- `@check` directives do not influence the flags -/
theorem flags_check (r : Rule) (f : List String) (xs ys : List Directive) :
    ({ r with directives := xs ++ .check f :: ys } : Rule).flags =
      ({ r with directives := xs ++ ys } : Rule).flags := by
  apply RuleFlags.eq_of_fields <;>
    simp [Rule.flags_noSkipWs, Rule.flags_exported, Rule.flags_string, Rule.flags_position,
      Rule.flags_memoize, Rule.flags_leftRecursive]

def Directive.isCheck : Directive → Bool
  | .check _ => true
  | .string | .noSkipWs | .export | .position | .memoize | .leftrec => false

/-- the selector `Rule.checks` maps over the directives -/
def Directive.checkFn : Directive → Option (List String)
  | .check f => some f
  | .string | .noSkipWs | .export | .position | .memoize | .leftrec => none

theorem Rule.checks_eq (r : Rule) : r.checks = r.directives.filterMap Directive.checkFn := by
  unfold Rule.checks
  congr 1
  funext d
  cases d <;> rfl

theorem checks_append (r : Rule) (xs ys : List Directive) :
    ({ r with directives := xs ++ ys } : Rule).checks =
      ({ r with directives := xs } : Rule).checks ++ ({ r with directives := ys } : Rule).checks := by
  simp only [Rule.checks_eq, List.filterMap_append]

/-- source order: the check written between `xs` and `ys` sits between their checks -/
theorem checks_cons_check (r : Rule) (f : List String) (xs ys : List Directive) :
    ({ r with directives := xs ++ .check f :: ys } : Rule).checks =
      ({ r with directives := xs } : Rule).checks ++ f :: ({ r with directives := ys } : Rule).checks := by
  simp only [Rule.checks_eq, List.filterMap_append, List.filterMap_cons, Directive.checkFn]

/-- inserting / removing a non-check directive anywhere does not change the checks -/
theorem checks_insert_noncheck (r : Rule) (d : Directive) (hd : d.isCheck = false)
    (xs ys : List Directive) :
    ({ r with directives := xs ++ d :: ys } : Rule).checks =
      ({ r with directives := xs ++ ys } : Rule).checks := by
  have : Directive.checkFn d = none := by cases d <;> simp_all [Directive.isCheck, Directive.checkFn]
  simp only [Rule.checks_eq, List.filterMap_append, List.filterMap_cons, this]

/-- `Rule.checks` only sees the sub-list of check directives -/
theorem checks_eq_of_filter (r : Rule) {ds ds' : List Directive}
    (h : ds.filter Directive.isCheck = ds'.filter Directive.isCheck) :
    ({ r with directives := ds } : Rule).checks = ({ r with directives := ds' } : Rule).checks := by
  have key : ∀ l : List Directive,
      l.filterMap Directive.checkFn = (l.filter Directive.isCheck).filterMap Directive.checkFn := by
    intro l
    induction l with
    | nil => rfl
    | cons d l ih => cases d <;>
      simp [List.filterMap_cons, List.filter_cons, Directive.isCheck, Directive.checkFn, ih]
  simp only [Rule.checks_eq]
  rw [key ds, key ds', h]

/-- the number and order of checks is that of the source -/
theorem checks_map (r : Rule) :
    r.checks.map Directive.check = r.directives.filter Directive.isCheck := by
  rw [Rule.checks_eq]
  induction r.directives with
  | nil => rfl
  | cons d l ih => cases d <;>
      simp [List.filterMap_cons, List.filter_cons, Directive.isCheck, Directive.checkFn, ih]

example : ({ directives := [.memoize, .check ["a"], .export, .check ["b"]], name := "R",
             definition := .eoi } : Rule).checks = [["a"], ["b"]] := by decide
example : ({ directives := [.memoize, .export], name := "R", definition := .eoi } : Rule).flags =
    ({ directives := [.export, .memoize, .export], name := "R", definition := .eoi } : Rule).flags := by
  decide

/-! ## 3. Conformance of the front end -/

/-- Bool form of `NoLeftrec` -/
def noLeftrecB (g : Grammar) : Bool :=
  g.rules.all fun e => match e with
    | .rule r => !r.flags.leftRecursive
    | _ => true

theorem noLeftrec_of_B {g : Grammar} (h : noLeftrecB g = true) : NoLeftrec g := by
  intro r hr
  have := (List.all_eq_true.mp h) _ hr
  simpa using this

theorem noLeftrecB_of {g : Grammar} (h : NoLeftrec g) : noLeftrecB g = true := by
  unfold noLeftrecB
  rw [List.all_eq_true]
  intro e he
  cases e with
  | rule r => simp [h r he]
  | charRule r => rfl
  | externRule r => rfl

theorem metaGrammar_noLeftrec : NoLeftrec Extracted.metaGrammar :=
  noLeftrec_of_B (by decide)

theorem default_hooks_pure : PureHooks (default : Hooks) := ⟨fun _ _ _ => rfl, fun _ _ _ => rfl⟩

theorem metaEnv_pure : PureHooks FrontEnd.metaEnv.hooks := default_hooks_pure

theorem metaEnv_noLeftrec : NoLeftrec FrontEnd.metaEnv.g := metaGrammar_noLeftrec

/-- raw form: whatever the model of the generated grammar parser answers, the PEG reading of
    grammar.ebnf answers the abstraction of it -/
theorem C12_conformance_sound_raw (fuel : Nat) (text : List UInt8) {r' g'}
    (h : parseAdvanced FrontEnd.metaEnv fuel "Grammar" text 0 = some (r', g')) :
    ∃ m, Spec.parse FrontEnd.metaEnv 0 m "Grammar" text = some (Spec.abs r') :=
  parse_sound FrontEnd.metaEnv metaEnv_pure metaEnv_noLeftrec "Grammar" text 0 fuel h

/-- **C12, soundness of the front end**: a grammar returned by `FrontEnd.parse` is the conversion
    of a value tree that the reference PEG semantics of grammar.ebnf assigns to the text; a parse
    error is a failure of the reference semantics. -/
theorem C12_conformance_sound (fuel : Nat) (text : List UInt8) :
    (∀ g, FrontEnd.parse fuel text = .grammar g →
      ∃ m v s, Spec.parse FrontEnd.metaEnv 0 m "Grammar" text = some (.ok v s) ∧
        FrontEnd.toGrammar fuel v = some g) ∧
    (∀ e, FrontEnd.parse fuel text = .parseError e →
      ∃ m, Spec.parse FrontEnd.metaEnv 0 m "Grammar" text = some (.err Spec.noErr)) := by
  unfold FrontEnd.parse
  constructor
  · intro g h
    split at h
    · cases h
    · rename_i v s gl heq
      obtain ⟨m, hm⟩ := C12_conformance_sound_raw fuel text heq
      split at h
      · rename_i g0 hg
        cases h
        exact ⟨m, v, Spec.clr s, hm, hg⟩
      · cases h
    · cases h
    · cases h
  · intro e h
    split at h
    · cases h
    · split at h <;> cases h
    · rename_i e0 gl heq
      obtain ⟨m, hm⟩ := C12_conformance_sound_raw fuel text heq
      exact ⟨m, hm⟩
    · cases h

/-- raw form of completeness, with stability in the fuel -/
theorem C12_conformance_complete_raw (m : Nat) (text : List UInt8) {r}
    (h : Spec.parse FrontEnd.metaEnv 0 m "Grammar" text = some r) :
    ∃ n0 r' g', Spec.abs r' = r ∧
      ∀ n, n0 ≤ n → parseAdvanced FrontEnd.metaEnv n "Grammar" text 0 = some (r', g') := by
  obtain ⟨n0, r', g', h0, ha⟩ :=
    parse_complete FrontEnd.metaEnv metaEnv_pure metaEnv_noLeftrec "Grammar" text 0 m h
  exact ⟨n0, r', g', ha, fun n hn => (eval_mono FrontEnd.metaEnv hn).rule _ _ _ _ h0⟩

/-- **C12, completeness of the front end**: whenever the reference PEG semantics of grammar.ebnf
    answers on a text, the model front end answers the same for every large enough fuel:
    a reference value `v` is returned as `toGrammar v`, a reference failure as a parse error, a
    reference panic as a panic. -/
theorem C12_conformance_complete (m : Nat) (text : List UInt8) :
    (∀ v s, Spec.parse FrontEnd.metaEnv 0 m "Grammar" text = some (.ok v s) →
      ∃ n0, ∀ n, n0 ≤ n → FrontEnd.parse n text =
        (match FrontEnd.toGrammar n v with
         | some g => .grammar g
         | none => .other "unexpected value shape")) ∧
    (∀ e, Spec.parse FrontEnd.metaEnv 0 m "Grammar" text = some (.err e) →
      ∃ n0 e', ∀ n, n0 ≤ n → FrontEnd.parse n text = .parseError e') ∧
    (∀ msg, Spec.parse FrontEnd.metaEnv 0 m "Grammar" text = some (.panic msg) →
      ∃ n0, ∀ n, n0 ≤ n → FrontEnd.parse n text = .other ("panic: " ++ msg)) := by
  refine ⟨?_, ?_, ?_⟩
  · intro v s h
    obtain ⟨n0, r', g', ha, hn⟩ := C12_conformance_complete_raw m text h
    refine ⟨n0, fun n hle => ?_⟩
    cases r' with
    | ok v' s' =>
      simp only [Spec.abs, Res.ok.injEq] at ha
      obtain ⟨rfl, _⟩ := ha
      simp only [FrontEnd.parse, hn n hle]
      cases FrontEnd.toGrammar n v' <;> rfl
    | err e => simp [Spec.abs] at ha
    | panic p => simp [Spec.abs] at ha
  · intro e h
    obtain ⟨n0, r', g', ha, hn⟩ := C12_conformance_complete_raw m text h
    cases r' with
    | ok v' s' => simp [Spec.abs] at ha
    | err e' => exact ⟨n0, e', fun n hle => by simp only [FrontEnd.parse, hn n hle]⟩
    | panic p => simp [Spec.abs] at ha
  · intro msg h
    obtain ⟨n0, r', g', ha, hn⟩ := C12_conformance_complete_raw m text h
    cases r' with
    | ok v' s' => simp [Spec.abs] at ha
    | err e' => simp [Spec.abs] at ha
    | panic p =>
      simp only [Spec.abs, Res.panic.injEq] at ha
      subst ha
      exact ⟨n0, fun n hle => by simp only [FrontEnd.parse, hn n hle]⟩

/-! ### the value-to-AST conversion is monotone in its depth fuel -/

section conv
open FrontEnd

theorem mapM_option_mono {α β} {f g : α → Option β} (h : ∀ a b, f a = some b → g a = some b) :
    ∀ (l : List α) (bs : List β), l.mapM f = some bs → l.mapM g = some bs := by
  intro l
  induction l with
  | nil => intro bs hb; simpa using hb
  | cons a l ih =>
    intro bs hb
    simp only [List.mapM_cons, Option.bind_eq_bind, Option.pure_def, Option.bind_eq_some_iff] at hb ⊢
    obtain ⟨b, hfa, bs', hl, hbs⟩ := hb
    exact ⟨b, h a b hfa, bs', ih bs' hl, hbs⟩

theorem toChoice_step (n : Nat) (hS : ∀ v e, toSequence n v = some e → toSequence (n+1) v = some e) :
    ∀ v e, toChoice (n+1) v = some e → toChoice (n+2) v = some e := by
  intro v e h
  unfold toChoice at h
  split at h
  · cases h
  · rename_i k fs pos heq
    have hk : k = n := by omega
    subst hk
    unfold toChoice
    simp only [Option.bind_eq_bind, Option.pure_def, Option.bind_eq_some_iff] at h ⊢
    obtain ⟨cs, hcs, ss, hss, he⟩ := h
    exact ⟨cs, hcs, ss, mapM_option_mono hS cs ss hss, he⟩
  · cases h

theorem toSequence_step (n : Nat) (hD : ∀ v e, toDelim n v = some e → toDelim (n+1) v = some e) :
    ∀ v e, toSequence (n+1) v = some e → toSequence (n+2) v = some e := by
  intro v e h
  unfold toSequence at h
  split at h
  · cases h
  · rename_i k fs pos heq
    have hk : k = n := by omega
    subst hk
    unfold toSequence
    simp only [Option.bind_eq_bind, Option.pure_def, Option.bind_eq_some_iff] at h ⊢
    obtain ⟨cs, hcs, ss, hss, he⟩ := h
    exact ⟨cs, hcs, ss, mapM_option_mono hD cs ss hss, he⟩
  · cases h

theorem toDelim_step (n : Nat) (hC : ∀ v e, toChoice n v = some e → toChoice (n+1) v = some e)
    (hD : ∀ v e, toDelim n v = some e → toDelim (n+1) v = some e) :
    ∀ v e, toDelim (n+1) v = some e → toDelim (n+2) v = some e := by
  intro v e h
  unfold toDelim at h ⊢
  split at h
  all_goals first
    | (cases h; done)
    | (first
         | exact h
         | (simp only [Option.bind_eq_bind, Option.pure_def, Option.bind_eq_some_iff] at h ⊢
            obtain ⟨a, ⟨x, hx, ha⟩, rest⟩ := h
            first
              | exact ⟨a, ⟨x, hx, hC _ _ ha⟩, rest⟩
              | exact ⟨a, ⟨x, hx, hD _ _ ha⟩, rest⟩))

theorem toExpr_mono_succ (n : Nat) :
    (∀ v e, toChoice n v = some e → toChoice (n+1) v = some e) ∧
    (∀ v e, toSequence n v = some e → toSequence (n+1) v = some e) ∧
    (∀ v e, toDelim n v = some e → toDelim (n+1) v = some e) := by
  induction n with
  | zero =>
    refine ⟨?_, ?_, ?_⟩ <;> intro v e h
    · unfold toChoice at h; cases h
    · unfold toSequence at h; cases h
    · unfold toDelim at h; cases h
  | succ n ih =>
    obtain ⟨hC, hS, hD⟩ := ih
    exact ⟨toChoice_step n hS, toSequence_step n hD, toDelim_step n hC hD⟩

theorem toChoice_mono {n m : Nat} (h : n ≤ m) {v e} (hv : toChoice n v = some e) : toChoice m v = some e := by
  induction m with
  | zero => have : n = 0 := by omega
            subst this; exact hv
  | succ m ih =>
    by_cases hnm : n ≤ m
    · exact (toExpr_mono_succ m).1 _ _ (ih hnm)
    · have : n = m + 1 := by omega
      subst this; exact hv

theorem toRuleEntry_mono {n m : Nat} (hnm : n ≤ m) {v e} (h : toRuleEntry n v = some e) :
    toRuleEntry m v = some e := by
  unfold toRuleEntry at h ⊢
  split at h
  · simp only [Option.bind_eq_bind, Option.pure_def, Option.bind_eq_some_iff] at h ⊢
    obtain ⟨ds, hds, name, hname, d, ⟨x, hx, hd⟩, rest⟩ := h
    exact ⟨ds, hds, name, hname, d, ⟨x, hx, toChoice_mono hnm hd⟩, rest⟩
  · exact h
  · exact h
  · cases h

theorem toGrammar_mono {n m : Nat} (hnm : n ≤ m) {v g} (h : toGrammar n v = some g) :
    toGrammar m v = some g := by
  unfold toGrammar at h ⊢
  split at h
  · simp only [Option.bind_eq_bind, Option.pure_def, Option.bind_eq_some_iff] at h ⊢
    obtain ⟨rs, hrs, es, hes, rest⟩ := h
    exact ⟨rs, hrs, es, mapM_option_mono (fun a b => toRuleEntry_mono hnm) rs es hes, rest⟩
  · cases h

end conv

/-- **C12, completeness, grammar form**: if the reference semantics assigns the value tree `v`
    to the text and `v` converts to the grammar `g` (at some depth), then the model front end
    returns exactly `g` for every large enough fuel. -/
theorem C12_conformance_complete_grammar (m : Nat) (text : List UInt8) {v s k g}
    (h : Spec.parse FrontEnd.metaEnv 0 m "Grammar" text = some (.ok v s))
    (hg : FrontEnd.toGrammar k v = some g) :
    ∃ n0, ∀ n, n0 ≤ n → FrontEnd.parse n text = .grammar g := by
  obtain ⟨n0, hn⟩ := (C12_conformance_complete m text).1 v s h
  refine ⟨max n0 k, fun n hle => ?_⟩
  rw [hn n (by omega), toGrammar_mono (show k ≤ n by omega) hg]

/-- the answer of the front end does not depend on the fuel, once it answers with a grammar -/
theorem frontEnd_fuel_stable {n n' : Nat} (hnn : n ≤ n') {text g}
    (h : FrontEnd.parse n text = .grammar g) : FrontEnd.parse n' text = .grammar g := by
  unfold FrontEnd.parse at h ⊢
  split at h
  · cases h
  · rename_i v s gl heq
    have := (eval_mono FrontEnd.metaEnv hnn).rule _ _ _ _ heq
    unfold parseAdvanced at heq ⊢
    simp only [this]
    split at h
    · rename_i g0 hg0
      cases h
      rw [toGrammar_mono hnn hg0]
    · cases h
  · cases h
  · cases h

/-! ### well-formedness of the extracted meta-grammar (re-checked by evaluation on every run) -/

/-- a rule name that a call `parse_<name>` resolves: defined in the grammar, or the builtin `char` -/
def nameDefined (g : Grammar) (n : String) : Bool := (g.find n).isSome || n == "char"

/-- all rule references inside an expression resolve (`false` when the fuel does not cover the
    depth of the expression, so a `true` is never vacuous) -/
def refsOk (g : Grammar) : Nat → Expr → Bool
  | 0, _ => false
  | n+1, e =>
    match e with
    | .choice xs => xs.all (refsOk g n)
    | .seq xs => xs.all (refsOk g n)
    | .group b => refsOk g n b
    | .opt b => refsOk g n b
    | .closure b _ => refsOk g n b
    | .neg b => refsOk g n b
    | .pos b => refsOk g n b
    | .incl r => (g.findRule r).isSome
    | .field _ _ typ => nameDefined g typ
    | .range _ _ => true
    | .lit _ _ => true
    | .eoi => true

def entryRefsOk (g : Grammar) (fuel : Nat) : RuleEntry → Bool
  | .rule r => refsOk g fuel r.definition
  | .charRule r => r.choices.all fun p => match p with
    | .ident n => nameDefined g n
    | _ => true
  | .externRule _ => true

def allRefsDefinedN (fuel : Nat) (g : Grammar) : Bool := g.rules.all (entryRefsOk g fuel)

/-- every rule referenced by a field, an include or a char-rule identifier part is defined (or is
    the builtin `char`; includes must name a normal rule) -/
def allRefsDefined (g : Grammar) : Bool := allRefsDefinedN 64 g

/-- what `refsOk` checks, as a relation: `e` calls rule `x` (`incl = false`) / includes rule `x`
    (`incl = true`) somewhere inside -/
inductive Expr.Refers : Expr → Bool → String → Prop where
  | field (nm bx typ) : Expr.Refers (.field nm bx typ) false typ
  | incl (r) : Expr.Refers (.incl r) true r
  | choice {xs e k x} : e ∈ xs → Expr.Refers e k x → Expr.Refers (.choice xs) k x
  | seq {xs e k x} : e ∈ xs → Expr.Refers e k x → Expr.Refers (.seq xs) k x
  | group {b k x} : Expr.Refers b k x → Expr.Refers (.group b) k x
  | opt {b k x} : Expr.Refers b k x → Expr.Refers (.opt b) k x
  | closure {b p k x} : Expr.Refers b k x → Expr.Refers (.closure b p) k x
  | neg {b k x} : Expr.Refers b k x → Expr.Refers (.neg b) k x
  | pos {b k x} : Expr.Refers b k x → Expr.Refers (.pos b) k x

theorem refsOk_sound (g : Grammar) {e : Expr} {k : Bool} {x : String} (hr : Expr.Refers e k x) :
    ∀ n, refsOk g n e = true →
      if k then (g.findRule x).isSome = true else nameDefined g x = true := by
  induction hr with
  | field nm bx typ => intro n h; cases n <;> simp_all [refsOk]
  | incl r => intro n h; cases n <;> simp_all [refsOk]
  | choice hm _ ih =>
    intro n h
    cases n with
    | zero => simp [refsOk] at h
    | succ n => simp only [refsOk, List.all_eq_true] at h; exact ih n (h _ hm)
  | seq hm _ ih =>
    intro n h
    cases n with
    | zero => simp [refsOk] at h
    | succ n => simp only [refsOk, List.all_eq_true] at h; exact ih n (h _ hm)
  | group _ ih => intro n h; cases n with
    | zero => simp [refsOk] at h
    | succ n => exact ih n (by simpa [refsOk] using h)
  | opt _ ih => intro n h; cases n with
    | zero => simp [refsOk] at h
    | succ n => exact ih n (by simpa [refsOk] using h)
  | closure _ ih => intro n h; cases n with
    | zero => simp [refsOk] at h
    | succ n => exact ih n (by simpa [refsOk] using h)
  | neg _ ih => intro n h; cases n with
    | zero => simp [refsOk] at h
    | succ n => exact ih n (by simpa [refsOk] using h)
  | pos _ ih => intro n h; cases n with
    | zero => simp [refsOk] at h
    | succ n => exact ih n (by simpa [refsOk] using h)

/-- meaning of the Bool check -/
theorem allRefsDefined_sound {g : Grammar} (h : allRefsDefined g = true) :
    (∀ r, RuleEntry.rule r ∈ g.rules → ∀ x,
      (Expr.Refers r.definition false x → (g.find x).isSome = true ∨ x = "char") ∧
      (Expr.Refers r.definition true x → (g.findRule x).isSome = true)) ∧
    (∀ r, RuleEntry.charRule r ∈ g.rules → ∀ x, CharRulePart.ident x ∈ r.choices →
      (g.find x).isSome = true ∨ x = "char") := by
  unfold allRefsDefined allRefsDefinedN at h
  rw [List.all_eq_true] at h
  constructor
  · intro r hr x
    have h1 := h _ hr
    simp only [entryRefsOk] at h1
    constructor
    · intro hx
      have := refsOk_sound g hx 64 h1
      simpa [nameDefined] using this
    · intro hx
      have := refsOk_sound g hx 64 h1
      simpa using this
  · intro r hr x hx
    have h1 := h _ hr
    simp only [entryRefsOk, List.all_eq_true] at h1
    have := h1 _ hx
    simpa [nameDefined] using this

/-- every reference in the meta-grammar resolves -/
theorem metaGrammar_refs : allRefsDefined Extracted.metaGrammar = true := by decide +kernel

/-- C17: the generator model accepts its own grammar (default settings) -/
theorem metaGrammar_accepted : Compile.accepts Extracted.metaGrammar {} 64 = true := by decide +kernel

/-- names of the exported rules, in source order -/
def exportedRules (g : Grammar) : List String :=
  g.rules.filterMap fun e => match e with
    | .rule r => if r.flags.exported then some r.name else none
    | _ => none

/-- the meta-grammar exports exactly `Grammar` -/
theorem metaGrammar_exports : exportedRules Extracted.metaGrammar = ["Grammar"] := by decide +kernel

/-- the entry point the front end calls is a defined, exported, normal rule -/
theorem metaGrammar_entry :
    (match Extracted.metaGrammar.find "Grammar" with
     | some (.rule r) => r.flags.exported
     | _ => false) = true := by decide +kernel

/-- custom whitespace (with comments): `Whitespace` is a defined `@no_skip_ws` normal rule … -/
theorem metaGrammar_whitespace :
    (match Extracted.metaGrammar.find "Whitespace" with
     | some (.rule r) => r.flags.noSkipWs
     | _ => false) = true := by decide +kernel

/-- … in the shape used by the other theorems -/
theorem metaGrammar_whitespace' :
    ∃ r, Extracted.metaGrammar.find "Whitespace" = some (.rule r) ∧ r.flags.noSkipWs = true := by
  have h := metaGrammar_whitespace
  split at h
  · rename_i r heq; exact ⟨r, heq, h⟩
  · cases h

/-- the rule names called (through fields) inside an expression -/
def calledIn : Nat → Expr → List String
  | 0, _ => []
  | n+1, e =>
    match e with
    | .choice xs => xs.flatMap (calledIn n)
    | .seq xs => xs.flatMap (calledIn n)
    | .group b => calledIn n b
    | .opt b => calledIn n b
    | .closure b _ => calledIn n b
    | .neg b => calledIn n b
    | .pos b => calledIn n b
    | .field _ _ typ => [typ]
    | _ => []

/-- … whose body calls only the rule `Comment` (besides literals), and `Comment` is a
    `@no_skip_ws` normal rule too that calls only the builtin `char`: no recursion through
    whitespace skipping.  (Tied to the current shape of grammar.ebnf on purpose: it fails, and
    must be revisited, if the whitespace rules of grammar.ebnf change.) -/
theorem metaGrammar_comment :
    (match Extracted.metaGrammar.find "Whitespace", Extracted.metaGrammar.find "Comment" with
     | some (.rule w), some (.rule c) =>
       c.flags.noSkipWs && calledIn 64 w.definition == ["Comment"] && calledIn 64 c.definition == ["char"]
     | _, _ => false) = true := by decide +kernel

/-- no include cycles, rule names are unique -/
theorem metaGrammar_no_include_cycle : Compile.hasIncludeCycle Extracted.metaGrammar 64 = false := by
  decide +kernel

def namesUnique (g : Grammar) : Bool :=
  let names := g.rules.map RuleEntry.name
  names.all fun n => names.count n == 1

theorem metaGrammar_names_unique : namesUnique Extracted.metaGrammar = true := by decide +kernel

/-- the hypotheses of the two conformance theorems hold for the front end's environment, and the
    `allRefsDefined` check is not vacuous (it rejects a dangling reference) -/
example : PureHooks FrontEnd.metaEnv.hooks ∧ NoLeftrec FrontEnd.metaEnv.g := ⟨metaEnv_pure, metaEnv_noLeftrec⟩
example : allRefsDefined ⟨[.rule ⟨[], "A", .choice [.seq [.field none false "B"]]⟩]⟩ = false := by
  decide +kernel
example : allRefsDefined ⟨[.rule ⟨[], "A", .choice [.seq [.field none false "char"]]⟩]⟩ = true := by
  decide +kernel
example : noLeftrecB ⟨[.rule ⟨[.leftrec], "A", .eoi⟩]⟩ = false := by decide

/-! ## 4. Concrete end-to-end runs of the model front end -/

/-- the bytes of `A='\x41';` -/
def textHexa : List UInt8 := [65, 61, 39, 92, 120, 52, 49, 39, 59]

/-- one rule named `A` whose definition is a literal with one hexa escape item `\x41` -/
def isRuleAHexa41 : FrontEnd.Outcome → Bool
  | .grammar ⟨[.rule ⟨[], name, .choice [.seq [.lit false [.hexa c1 c2]]]⟩]⟩ =>
    name == "A" && c1 == '4' && c2 == '1'
  | _ => false

/-- `A='\x41';` parses to one rule named A whose definition is a literal with a hexa escape item -/
theorem frontend_example_hexa : isRuleAHexa41 (FrontEnd.parse 54 textHexa) = true := by
  decide +kernel

/-- the hypotheses of `C12_conformance_complete_grammar` are satisfiable: by soundness the
    reference semantics assigns this text a value tree that converts to a grammar -/
example : ∃ m v s g, Spec.parse FrontEnd.metaEnv 0 m "Grammar" textHexa = some (.ok v s) ∧
    FrontEnd.toGrammar 54 v = some g := by
  have h := frontend_example_hexa
  cases hp : FrontEnd.parse 54 textHexa with
  | grammar g =>
    obtain ⟨m, v, s, h1, h2⟩ := (C12_conformance_sound 54 textHexa).1 g hp
    exact ⟨m, v, s, g, h1, h2⟩
  | parseError e => rw [hp] at h; cases h
  | other msg => rw [hp] at h; cases h

/-- … which denotes the character `A` (item 1) -/
example : (StringItem.hexa '4' '1').toChar = .ok 'A' := hexa_escape 'A' (by decide) _ _ (by decide)

/-- the bytes of `@export A=B;` preceded by a comment line `#c` -/
def textExport : List UInt8 := [35, 99, 10, 64, 101, 120, 112, 111, 114, 116, 32, 65, 61, 66, 59]

def isExportAB : FrontEnd.Outcome → Bool
  | .grammar ⟨[.rule ⟨[.export], name, .choice [.seq [.field none false typ]]⟩]⟩ =>
    name == "A" && typ == "B"
  | _ => false

/-- comments are whitespace, directives precede the name, a bare identifier is an unnamed field -/
theorem frontend_example_export : isExportAB (FrontEnd.parse 64 textExport) = true := by
  decide +kernel

/-- the bytes of `A=` (no terminating `;`) -/
def textBad : List UInt8 := [65, 61]

def isParseError : FrontEnd.Outcome → Bool
  | .parseError _ => true
  | _ => false

/-- a rule without the terminating `;` is a parse error (not a panic, not a grammar) -/
theorem frontend_example_error : isParseError (FrontEnd.parse 64 textBad) = true := by
  decide +kernel

end Peg
