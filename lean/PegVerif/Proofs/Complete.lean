import PegVerif.Proofs.RefineRule
import PegVerif.Proofs.EvalMono
/-
  Completeness of the implementation model with respect to the reference semantics (the converse
  of `eval_ref`): whenever `Spec.eval` answers, `eval` answers too (with enough fuel), from any
  good global state, and its answer abstracts to the reference answer.

  Hypotheses as for `eval_ref`: `PureHooks`, `NoLeftrec`.

  Structure: `Cv f r' g'` = "the fuel-indexed implementation computation `f` answers `(r', g')`
  for every large enough fuel"; `CPost f r` = "`f` converges to some `(r', g')` with `abs r' = r`,
  `g'` good, the final cursor consistent".  One lemma per helper / construct, mirroring
  `RefineExpr.lean` / `RefineRule.lean` in the other direction; then induction on the fuel of the
  reference semantics.
-/
namespace Peg
open Spec

section
variable {env : Env} {u : Nat} {inp : List UInt8}

/-- the fuel-indexed implementation computation `f` answers `(r', g')` for every large enough fuel -/
def Cv {α} (f : Nat → Out α) (r' : Res α) (g' : Global) : Prop :=
  ∃ n0, ∀ n, n0 ≤ n → f n = some (r', g')

variable (env u inp) in
/-- `f` converges to an answer that abstracts to the reference answer `r` -/
def CPost {α} (f : Nat → Out α) (r : Res α) : Prop :=
  ∃ r' g', Cv f r' g' ∧ abs r' = r ∧ Good env u inp g' ∧ (∀ v s', r' = .ok v s' → WfSt inp s')

variable (env u inp) in
/-- completeness of `eval` with respect to a reference evaluator `srec` -/
structure Comp (srec : SRec) : Prop where
  expr : ∀ ctx e s g r, srec.expr ctx e (clr s) = some r → WfSt inp s → Good env u inp g →
    CPost env u inp (fun n => (eval env n).expr ctx e s g) r
  rule : ∀ name s g r, srec.rule name (clr s) = some r → WfSt inp s → Good env u inp g →
    CPost env u inp (fun n => (eval env n).rule name s g) r

theorem CPost.const {α} {f : Nat → Out α} {r r' : Res α} {g : Global} (hf : ∀ n, f n = some (r', g))
    (ha : abs r' = r) (hg : Good env u inp g) (hw : ∀ v s', r' = .ok v s' → WfSt inp s') :
    CPost env u inp f r :=
  ⟨r', g, ⟨0, fun n _ => hf n⟩, ha, hg, hw⟩

theorem CPost.succ {α} {f : Nat → Out α} {r : Res α} (h : CPost env u inp (fun n => f (n + 1)) r) :
    CPost env u inp f r := by
  obtain ⟨r', g', ⟨n0, h0⟩, rest⟩ := h
  refine ⟨r', g', ⟨n0 + 1, fun n hn => ?_⟩, rest⟩
  obtain ⟨n', rfl⟩ : ∃ n', n = n' + 1 := ⟨n - 1, by omega⟩
  exact h0 n' (by omega)

theorem CPost.of_eq {α} {f f' : Nat → Out α} {r : Res α} (h : CPost env u inp f r)
    (he : ∀ n, f n = f' n) : CPost env u inp f' r := by
  obtain ⟨r', g', ⟨n0, h0⟩, rest⟩ := h
  exact ⟨r', g', ⟨n0, fun n hn => (he n) ▸ h0 n hn⟩, rest⟩

theorem CPost.ok_inv {α} {f : Nat → Out α} {v : α} {s0 : St} (h : CPost env u inp f (.ok v s0)) :
    ∃ s1 g', Cv f (.ok v s1) g' ∧ clr s1 = s0 ∧ Good env u inp g' ∧ WfSt inp s1 := by
  obtain ⟨r', g', hcv, ha, hg, hw⟩ := h
  cases r' with
  | ok v1 s1 =>
    simp only [abs, Res.ok.injEq] at ha
    obtain ⟨rfl, rfl⟩ := ha
    exact ⟨s1, g', hcv, rfl, hg, hw _ _ rfl⟩
  | err e => simp [abs] at ha
  | panic m => simp [abs] at ha

theorem CPost.err_inv {α} {f : Nat → Out α} {e0 : PErr} (h : CPost env u inp f (.err e0 : Res α)) :
    ∃ e g', Cv f (.err e) g' ∧ Good env u inp g' := by
  obtain ⟨r', g', hcv, ha, hg, _⟩ := h
  cases r' with
  | ok v1 s1 => simp [abs] at ha
  | err e => exact ⟨e, g', hcv, hg⟩
  | panic m => simp [abs] at ha

theorem CPost.panic_inv {α} {f : Nat → Out α} {m : String} (h : CPost env u inp f (.panic m : Res α)) :
    ∃ g', Cv f (.panic m) g' ∧ Good env u inp g' := by
  obtain ⟨r', g', hcv, ha, hg, _⟩ := h
  cases r' with
  | ok v1 s1 => simp [abs] at ha
  | err e => simp [abs] at ha
  | panic m' =>
    simp only [abs, Res.panic.injEq] at ha
    subst ha
    exact ⟨g', hcv, hg⟩

/-- sequencing: the reference `bindS` is matched by the implementation's `bindR` -/
theorem bindR_c {α β} {x : SOut α} {k : α → St → SOut β} {r : Res β}
    {fx : Nat → Out α} {fk : Nat → α → St → Global → Out β}
    (h : bindS x k = some r)
    (hx : ∀ rx, x = some rx → CPost env u inp fx rx)
    (hk : ∀ v s1 g1 r, k v (clr s1) = some r → WfSt inp s1 → Good env u inp g1 →
      CPost env u inp (fun n => fk n v s1 g1) r) :
    CPost env u inp (fun n => bindR (fx n) (fk n)) r := by
  cases x with
  | none => simp [bindS] at h
  | some rx =>
    have hx' := hx rx rfl
    cases rx with
    | ok v s0 =>
      obtain ⟨s1, g1, ⟨n0, h0⟩, rfl, hg1, hw1⟩ := hx'.ok_inv
      simp only [bindS] at h
      obtain ⟨r', g', ⟨n1, h1⟩, rest⟩ := hk v s1 g1 r h hw1 hg1
      refine ⟨r', g', ⟨max n0 n1, fun n hn => ?_⟩, rest⟩
      simp only [h0 n (by omega), bindR]
      exact h1 n (by omega)
    | err e0 =>
      obtain ⟨e, g1, ⟨n0, h0⟩, hg1⟩ := hx'.err_inv
      simp only [bindS, Option.some.injEq] at h
      subst h
      refine ⟨.err e, g1, ⟨n0, fun n hn => ?_⟩, rfl, hg1, fun _ _ h => by cases h⟩
      simp only [h0 n hn, bindR]
    | panic msg =>
      obtain ⟨g1, ⟨n0, h0⟩, hg1⟩ := hx'.panic_inv
      simp only [bindS, Option.some.injEq] at h
      subst h
      refine ⟨.panic msg, g1, ⟨n0, fun n hn => ?_⟩, rfl, hg1, fun _ _ h => by cases h⟩
      simp only [h0 n hn, bindR]

/-- `generate_skip_ws` -/
theorem withSkipWs_c {α} {srec : SRec} (hc : Comp env u inp srec) {ctx : Ctx} {s : St} {g : Global}
    {k : St → SOut α} {fk : Nat → St → Global → Out α} {r : Res α}
    (h : Spec.withSkipWs srec ctx (clr s) k = some r) (hw : WfSt inp s) (hg : Good env u inp g)
    (hk : ∀ s1 g1 r, k (clr s1) = some r → WfSt inp s1 → Good env u inp g1 →
      CPost env u inp (fun n => fk n s1 g1) r) :
    CPost env u inp (fun n => Peg.withSkipWs (eval env n) ctx s g (fk n)) r := by
  unfold Spec.withSkipWs at h
  unfold Peg.withSkipWs
  split at h
  · rename_i hs
    simp only [hs, if_true]
    exact bindR_c (fk := fun n _ s' g' => fk n s' g') h
      (fun rx hx => hc.rule _ _ _ _ hx hw hg)
      (fun v s1 g1 r h hw1 hg1 => hk s1 g1 r h hw1 hg1)
  · rename_i hs
    simp only [hs]
    exact hk _ _ _ h hw hg

theorem evalSeq_c {srec : SRec} (hc : Comp env u inp srec) {ctx : Ctx} :
    ∀ ps seen acc s g r, Spec.evalSeq env srec ctx ps seen acc (clr s) = some r →
      WfSt inp s → Good env u inp g →
      CPost env u inp (fun n => evalSeq env (eval env n) ctx ps seen acc s g) r := by
  intro ps
  induction ps with
  | nil =>
    intro seen acc s g r h hw hg
    simp only [Spec.evalSeq, Option.some.injEq] at h
    subst h
    exact CPost.const (r' := .ok (seen, acc) s) (fun _ => rfl) rfl hg (fun v s' h => by cases h; exact hw)
  | cons p ps ih =>
    intro seen acc s g r h hw hg
    simp only [Spec.evalSeq] at h
    simp only [evalSeq]
    refine bindR_c h (fun rx hx => hc.expr _ _ _ _ _ hx hw hg) ?_
    intro v s1 g1 r h hw1 hg1
    split at h
    · rename_i msg hm
      simp only [Option.some.injEq] at h
      subst h
      exact CPost.const (r' := .panic ("codegen: " ++ msg)) (fun _ => by simp only [hm]) rfl hg1
        (fun _ _ h => by cases h)
    · rename_i seen' acc' hm
      simp only [hm]
      exact ih _ _ _ _ _ h hw1 hg1

theorem evalAlts_c {srec : SRec} (hc : Comp env u inp srec) {ctx : Ctx} {fields} :
    ∀ as s g r, Spec.evalAlts env srec ctx fields as (clr s) = some r →
      WfSt inp s → Good env u inp g →
      CPost env u inp (fun n => evalAlts env (eval env n) ctx fields as s g) r := by
  intro as
  induction as with
  | nil =>
    intro s g r h hw hg
    simp only [Spec.evalAlts, Option.some.injEq] at h
    subst h
    exact CPost.const (r' := .err s.reportFarthest) (fun _ => rfl) rfl hg (fun v s' h => by cases h)
  | cons a as ih =>
    intro s g r h hw hg
    simp only [Spec.evalAlts] at h
    split at h
    · cases h
    · rename_i r0 s0 hx
      obtain ⟨s1, g1, ⟨n0, h0⟩, rfl, hg1, hw1⟩ := (hc.expr _ _ _ _ _ hx hw hg).ok_inv
      split at h
      · rename_i p hp
        simp only [Option.some.injEq] at h
        subst h
        refine ⟨.ok p s1, g1, ⟨n0, fun n hn => ?_⟩, rfl, hg1, fun v s' h => by cases h; exact hw1⟩
        simp only [evalAlts, h0 n hn, hp]
      · rename_i msg hp
        simp only [Option.some.injEq] at h
        subst h
        refine ⟨.panic ("codegen: " ++ msg), g1, ⟨n0, fun n hn => ?_⟩, rfl, hg1, fun v s' h => by cases h⟩
        simp only [evalAlts, h0 n hn, hp]
    · rename_i e0 hx
      obtain ⟨e, g1, ⟨n0, h0⟩, hg1⟩ := (hc.expr _ _ _ _ _ hx hw hg).err_inv
      have h' : Spec.evalAlts env srec ctx fields as (clr (s.recordError e)) = some r := by
        rw [clr_recordError]; exact h
      obtain ⟨r', g', ⟨n1, h1⟩, rest⟩ := ih _ g1 _ h' (wf_recordError.mpr hw) hg1
      refine ⟨r', g', ⟨max n0 n1, fun n hn => ?_⟩, rest⟩
      simp only [evalAlts, h0 n (by omega)]
      exact h1 n (by omega)
    · rename_i msg hx
      obtain ⟨g1, ⟨n0, h0⟩, hg1⟩ := (hc.expr _ _ _ _ _ hx hw hg).panic_inv
      simp only [Option.some.injEq] at h
      subst h
      refine ⟨.panic msg, g1, ⟨n0, fun n hn => ?_⟩, rfl, hg1, fun v s' h => by cases h⟩
      simp only [evalAlts, h0 n hn]

/-- the closure loop: the implementation's loop is stable in both the recursion fuel and the loop
    counter -/
theorem evalLoop_c {sbody : St → SOut Parsed} {body : Nat → St → Global → Out Parsed} {fields}
    (hbody : ∀ s g r, sbody (clr s) = some r → WfSt inp s → Good env u inp g →
      CPost env u inp (fun n => body n s g) r) :
    ∀ k iters acc s g r, Spec.evalLoop sbody fields k iters acc (clr s) = some r →
      WfSt inp s → Good env u inp g →
      ∃ r' g', (∃ n0, ∀ n c, n0 ≤ n → n0 ≤ c →
          evalLoop (body n) fields c iters acc s g = some (r', g')) ∧
        abs r' = r ∧ Good env u inp g' ∧ (∀ v s', r' = .ok v s' → WfSt inp s') := by
  intro k
  induction k with
  | zero => intro iters acc s g r h; simp [Spec.evalLoop] at h
  | succ k ih =>
    intro iters acc s g r h hw hg
    simp only [Spec.evalLoop] at h
    split at h
    · cases h
    · rename_i r0 s0 hx
      obtain ⟨s1, g1, ⟨n0, h0⟩, rfl, hg1, hw1⟩ := (hbody _ _ _ hx hw hg).ok_inv
      split at h
      · rename_i acc' hacc
        obtain ⟨r', g', ⟨n1, h1⟩, rest⟩ := ih _ _ _ g1 _ h hw1 hg1
        refine ⟨r', g', ⟨max n0 n1 + 1, fun n c hn hcn => ?_⟩, rest⟩
        obtain ⟨c', rfl⟩ : ∃ c', c = c' + 1 := ⟨c - 1, by omega⟩
        simp only [evalLoop, h0 n (by omega), hacc]
        exact h1 n c' (by omega) (by omega)
      · rename_i msg hacc
        simp only [Option.some.injEq] at h
        subst h
        refine ⟨.panic ("codegen: " ++ msg), g1, ⟨n0 + 1, fun n c hn hcn => ?_⟩, rfl, hg1,
          fun v s' h => by cases h⟩
        obtain ⟨c', rfl⟩ : ∃ c', c = c' + 1 := ⟨c - 1, by omega⟩
        simp only [evalLoop, h0 n (by omega), hacc]
    · rename_i e0 hx
      obtain ⟨e, g1, ⟨n0, h0⟩, hg1⟩ := (hbody _ _ _ hx hw hg).err_inv
      simp only [Option.some.injEq] at h
      subst h
      refine ⟨.ok (iters, acc) (s.recordError e), g1, ⟨n0 + 1, fun n c hn hcn => ?_⟩,
        by simp only [abs, clr_recordError], hg1, fun v s' h => by cases h; exact wf_recordError.mpr hw⟩
      obtain ⟨c', rfl⟩ : ∃ c', c = c' + 1 := ⟨c - 1, by omega⟩
      simp only [evalLoop, h0 n (by omega)]
    · rename_i msg hx
      obtain ⟨g1, ⟨n0, h0⟩, hg1⟩ := (hbody _ _ _ hx hw hg).panic_inv
      simp only [Option.some.injEq] at h
      subst h
      refine ⟨.panic msg, g1, ⟨n0 + 1, fun n c hn hcn => ?_⟩, rfl, hg1, fun v s' h => by cases h⟩
      obtain ⟨c', rfl⟩ : ∃ c', c = c' + 1 := ⟨c - 1, by omega⟩
      simp only [evalLoop, h0 n (by omega)]

/-- a terminal matcher under `generate_skip_ws` -/
theorem terminal_c {α} {srec : SRec} (hc : Comp env u inp srec) {ctx : Ctx} {s : St} {g : Global}
    {mt : St → Res α} {r : Res Parsed}
    (habs : ∀ s, abs (mt (clr s)) = abs (mt s))
    (hwf : ∀ s v s', WfSt inp s → mt s = .ok v s' → WfSt inp s')
    (h : Spec.withSkipWs srec ctx (clr s)
      (fun s => some (abs ((mt s).map (fun _ => ([] : Parsed))))) = some r)
    (hw : WfSt inp s) (hg : Good env u inp g) :
    CPost env u inp (fun n => Peg.withSkipWs (eval env n) ctx s g
      (fun s g => some ((mt s).map (fun _ => ([] : Parsed)), g))) r := by
  refine withSkipWs_c (fk := fun _ s g => some ((mt s).map (fun _ => ([] : Parsed)), g)) hc h hw hg ?_
  intro s1 g1 r h hw1 hg1
  simp only [Option.some.injEq] at h
  subst h
  refine CPost.const (r' := (mt s1).map (fun _ => ([] : Parsed))) (fun _ => rfl) ?_ hg1 ?_
  · simp only [abs_map, habs]
  · intro v s' h
    obtain ⟨v0, hv0⟩ := map_ok h
    exact hwf _ _ _ hw1 hv0

theorem stepExpr_c {srec : SRec} (hc : Comp env u inp srec) (m : Nat) {ctx e s g r}
    (h : Spec.stepExpr env srec m ctx e (clr s) = some r) (hw : WfSt inp s) (hg : Good env u inp g) :
    CPost env u inp (fun n => stepExpr env (eval env n) n ctx e s g) r := by
  cases e with
  | choice alts =>
    match alts with
    | [] =>
      simp only [Spec.stepExpr, Option.some.injEq] at h
      subst h
      exact CPost.const (r' := .panic "index out of bounds: choices[0]") (fun _ => rfl) rfl hg
        (fun _ _ h => by cases h)
    | [a] =>
      simp only [Spec.stepExpr] at h
      simp only [stepExpr]
      exact hc.expr _ _ _ _ _ h hw hg
    | a :: b :: rest =>
      simp only [Spec.stepExpr] at h
      simp only [stepExpr]
      exact evalAlts_c hc _ _ _ _ h hw hg
  | seq parts =>
    match parts with
    | [] =>
      simp only [Spec.stepExpr, Option.some.injEq] at h
      subst h
      exact CPost.const (r' := .ok [] s) (fun _ => rfl) rfl hg (fun v s' h => by cases h; exact hw)
    | [a] =>
      simp only [Spec.stepExpr] at h
      simp only [stepExpr]
      exact hc.expr _ _ _ _ _ h hw hg
    | a :: b :: rest =>
      simp only [Spec.stepExpr] at h
      simp only [stepExpr]
      refine bindR_c h (fun rx hx => evalSeq_c hc _ _ _ _ _ _ hx hw hg) ?_
      intro v s1 g1 r h hw1 hg1
      obtain ⟨seen, acc⟩ := v
      simp only at h ⊢
      split at h
      · rename_i p hp
        simp only [Option.some.injEq] at h
        subst h
        exact CPost.const (r' := .ok p s1) (fun _ => by simp only [hp]) rfl hg1
          (fun v s' h => by cases h; exact hw1)
      · rename_i msg hp
        simp only [Option.some.injEq] at h
        subst h
        exact CPost.const (r' := .panic ("codegen: " ++ msg)) (fun _ => by simp only [hp]) rfl hg1
          (fun v s' h => by cases h)
  | group b =>
    simp only [Spec.stepExpr] at h
    simp only [stepExpr]
    exact hc.expr _ _ _ _ _ h hw hg
  | opt b =>
    simp only [Spec.stepExpr] at h
    split at h
    · cases h
    · rename_i r0 s0 hx
      obtain ⟨s1, g1, ⟨n0, h0⟩, rfl, hg1, hw1⟩ := (hc.expr _ _ _ _ _ hx hw hg).ok_inv
      simp only [Option.some.injEq] at h
      subst h
      refine ⟨.ok r0 s1, g1, ⟨n0, fun n hn => ?_⟩, rfl, hg1, fun v s' h => by cases h; exact hw1⟩
      simp only [stepExpr, h0 n hn]
    · rename_i e0 hx
      obtain ⟨e, g1, ⟨n0, h0⟩, hg1⟩ := (hc.expr _ _ _ _ _ hx hw hg).err_inv
      split at h
      · rename_i p hp
        simp only [Option.some.injEq] at h
        subst h
        refine ⟨.ok p (s.recordError e), g1, ⟨n0, fun n hn => ?_⟩, by simp only [abs, clr_recordError],
          hg1, fun v s' h => by cases h; exact wf_recordError.mpr hw⟩
        simp only [stepExpr, h0 n hn, hp]
      · rename_i msg hp
        simp only [Option.some.injEq] at h
        subst h
        refine ⟨.panic ("codegen: " ++ msg), g1, ⟨n0, fun n hn => ?_⟩, rfl, hg1, fun v s' h => by cases h⟩
        simp only [stepExpr, h0 n hn, hp]
    · rename_i msg hx
      obtain ⟨g1, ⟨n0, h0⟩, hg1⟩ := (hc.expr _ _ _ _ _ hx hw hg).panic_inv
      simp only [Option.some.injEq] at h
      subst h
      refine ⟨.panic msg, g1, ⟨n0, fun n hn => ?_⟩, rfl, hg1, fun v s' h => by cases h⟩
      simp only [stepExpr, h0 n hn]
  | closure b plus =>
    simp only [Spec.stepExpr] at h
    split at h
    · rename_i msg hinit
      simp only [Option.some.injEq] at h
      subst h
      exact CPost.const (r' := .panic ("codegen: " ++ msg)) (fun _ => by simp only [stepExpr, hinit]) rfl hg
        (fun _ _ h => by cases h)
    · rename_i init hinit
      cases hl : Spec.evalLoop (srec.expr ctx b) (filterRuleFields ctx.ruleFields (ownFields env b))
          m 0 init (clr s) with
      | none => simp [hl, bindS] at h
      | some rl =>
        obtain ⟨rl', gl, ⟨n0, h0⟩, ha, hgl, hwl⟩ :=
          evalLoop_c (body := fun n => (eval env n).expr ctx b)
            (fun s g r hx hw hg => hc.expr _ _ _ _ _ hx hw hg) _ _ _ _ _ _ hl hw hg
        rw [hl] at h
        cases rl' with
        | ok v sl =>
          obtain ⟨iters, acc⟩ := v
          simp only [abs] at ha
          subst ha
          simp only [bindS] at h
          split at h
          · rename_i hcnd
            simp only [Option.some.injEq] at h
            subst h
            refine ⟨.err sl.reportFarthest, gl, ⟨n0, fun n hn => ?_⟩, rfl, hgl, fun v s' h => by cases h⟩
            simp only [stepExpr, hinit, h0 n n hn hn, bindR, hcnd, if_true]
          · rename_i hcnd
            simp only [Option.some.injEq] at h
            subst h
            refine ⟨.ok acc sl, gl, ⟨n0, fun n hn => ?_⟩, rfl, hgl, fun v s' h => by cases h; exact hwl _ _ rfl⟩
            simp only [stepExpr, hinit, h0 n n hn hn, bindR, hcnd]
            rfl
        | err e =>
          simp only [abs] at ha
          subst ha
          simp only [bindS, Option.some.injEq] at h
          subst h
          refine ⟨.err e, gl, ⟨n0, fun n hn => ?_⟩, rfl, hgl, fun v s' h => by cases h⟩
          simp only [stepExpr, hinit, h0 n n hn hn, bindR]
        | panic msg =>
          simp only [abs] at ha
          subst ha
          simp only [bindS, Option.some.injEq] at h
          subst h
          refine ⟨.panic msg, gl, ⟨n0, fun n hn => ?_⟩, rfl, hgl, fun v s' h => by cases h⟩
          simp only [stepExpr, hinit, h0 n n hn hn, bindR]
  | neg b =>
    simp only [Spec.stepExpr] at h
    split at h
    · cases h
    · rename_i r0 s0 hx
      obtain ⟨s1, g1, ⟨n0, h0⟩, rfl, hg1, hw1⟩ := (hc.expr _ _ _ _ _ hx hw hg).ok_inv
      simp only [Option.some.injEq] at h
      subst h
      refine ⟨.err (s.reportError .negativeLookaheadFailed), g1, ⟨n0, fun n hn => ?_⟩, rfl, hg1,
        fun v s' h => by cases h⟩
      simp only [stepExpr, h0 n hn]
    · rename_i e0 hx
      obtain ⟨e, g1, ⟨n0, h0⟩, hg1⟩ := (hc.expr _ _ _ _ _ hx hw hg).err_inv
      simp only [Option.some.injEq] at h
      subst h
      refine ⟨.ok [] s, g1, ⟨n0, fun n hn => ?_⟩, rfl, hg1, fun v s' h => by cases h; exact hw⟩
      simp only [stepExpr, h0 n hn]
    · rename_i msg hx
      obtain ⟨g1, ⟨n0, h0⟩, hg1⟩ := (hc.expr _ _ _ _ _ hx hw hg).panic_inv
      simp only [Option.some.injEq] at h
      subst h
      refine ⟨.panic msg, g1, ⟨n0, fun n hn => ?_⟩, rfl, hg1, fun v s' h => by cases h⟩
      simp only [stepExpr, h0 n hn]
  | pos b =>
    simp only [Spec.stepExpr] at h
    simp only [stepExpr]
    refine bindR_c (fk := fun _ _ _ g' => some (.ok [] s, g')) h
      (fun rx hx => hc.expr _ _ _ _ _ hx hw hg) ?_
    intro v s1 g1 r h hw1 hg1
    simp only [Option.some.injEq] at h
    subst h
    exact CPost.const (r' := .ok [] s) (fun _ => rfl) rfl hg1 (fun v s' h => by cases h; exact hw)
  | range lo hi =>
    simp only [Spec.stepExpr] at h
    simp only [stepExpr]
    split at h
    · rename_i lo' hi' hlo hhi
      simp only [hlo, hhi]
      exact terminal_c hc (fun s => abs_parseCharacterRange s lo' hi')
        (fun s v s' hw h => wf_parseCharacterRange hw h) h hw hg
    · rename_i hne
      simp only [Option.some.injEq] at h
      subst h
      refine CPost.const (r' := .panic "uncompilable: range bound") (fun _ => ?_) rfl hg
        (fun _ _ h => by cases h)
      split
      · rename_i lo' hi' hlo hhi; exact absurd hhi (hne _ _ hlo)
      · rfl
  | lit ins body =>
    simp only [Spec.stepExpr] at h
    simp only [stepExpr]
    split at h
    · rename_i mt hmt
      simp only [hmt]
      cases mt with
      | charLit c =>
        exact terminal_c hc (fun s => abs_parseCharacterLiteral s c)
          (fun s v s' hw h => wf_parseCharacterLiteral hw h) h hw hg
      | strLit l =>
        exact terminal_c hc (fun s => abs_parseStringLiteral s l)
          (fun s v s' hw h => wf_parseStringLiteral hw h) h hw hg
      | charLitI c =>
        exact terminal_c hc (fun s => abs_parseCharacterLiteralInsensitive s c)
          (fun s v s' hw h => wf_parseCharacterLiteralInsensitive hw h) h hw hg
      | strLitI l =>
        exact terminal_c hc (fun s => abs_parseStringLiteralInsensitive s l)
          (fun s v s' hw h => wf_parseStringLiteralInsensitive hw h) h hw hg
    · rename_i hne
      simp only [Option.some.injEq] at h
      subst h
      refine CPost.const (r' := .panic "uncompilable: literal") (fun _ => ?_) rfl hg
        (fun _ _ h => by cases h)
      split
      · rename_i mt hmt; exact absurd hmt (hne _)
      · rfl
  | eoi =>
    simp only [Spec.stepExpr] at h
    simp only [stepExpr]
    exact terminal_c hc abs_parseEndOfInput (fun s v s' hw h => wf_parseEndOfInput hw h) h hw hg
  | incl r0 =>
    simp only [Spec.stepExpr] at h
    simp only [stepExpr]
    split at h
    · rename_i hf
      simp only [Option.some.injEq] at h
      subst h
      exact CPost.const (r' := .panic "uncompilable: include of a missing rule")
        (fun _ => by simp only [hf]) rfl hg (fun _ _ h => by cases h)
    · rename_i rule hf
      simp only [hf]
      exact hc.expr _ _ _ _ _ h hw hg
  | field name boxed typ =>
    simp only [Spec.stepExpr] at h
    simp only [stepExpr]
    refine withSkipWs_c hc h hw hg ?_
    intro s1 g1 r h hw1 hg1
    refine bindR_c h (fun rx hx => hc.rule _ _ _ _ hx hw1 hg1) ?_
    intro v s2 g2 r h hw2 hg2
    cases name with
    | none =>
      simp only [Option.some.injEq] at h
      subst h
      exact CPost.const (r' := .ok [] s2) (fun _ => rfl) rfl hg2 (fun v s' h => by cases h; exact hw2)
    | some nm =>
      simp only at h ⊢
      split at h
      · rename_i fv hfv
        simp only [Option.some.injEq] at h
        subst h
        exact CPost.const (r' := .ok [(nm.key, fv)] s2) (fun _ => by simp only [hfv]) rfl hg2
          (fun v s' h => by cases h; exact hw2)
      · rename_i msg hfv
        simp only [Option.some.injEq] at h
        subst h
        exact CPost.const (r' := .panic ("codegen: " ++ msg)) (fun _ => by simp only [hfv]) rfl hg2
          (fun v s' h => by cases h)

/-! ### rule level -/

theorem runChecks_c (hp : PureHooks env.hooks) :
    ∀ fs v s g r, Spec.runChecks env u fs v (clr s) = some r → WfSt inp s → Good env u inp g →
      CPost env u inp (fun _ => runChecks env fs v s g) r := by
  intro fs
  induction fs with
  | nil =>
    intro v s g r h hw hg
    simp only [Spec.runChecks, Option.some.injEq] at h
    subst h
    exact CPost.const (r' := .ok v s) (fun _ => rfl) rfl hg (fun v s' h => by cases h; exact hw)
  | cons f fs ih =>
    intro v s g r h hw hg
    simp only [Spec.runChecks] at h
    have hu : (env.hooks.check ("::".intercalate f) v g.uctx).2 = g.uctx := hp.2 _ _ _
    have hgu := hg.uctx
    subst hgu
    have hg1 : Good env g.uctx inp
        ({ g with uctx := (env.hooks.check ("::".intercalate f) v g.uctx).2 }.emit
          (.checkCall ("::".intercalate f) v.render g.uctx)) :=
      ⟨hu, fun n o r hl => hg.cache n o r hl⟩
    split at h
    · rename_i hb
      simp only [Option.some.injEq] at h
      subst h
      refine CPost.const (r' := .err (s.reportError (.checkFunctionFailed ("::".intercalate f))))
        (fun _ => ?_) rfl hg1 (fun _ _ h => by cases h)
      simp only [runChecks, hb, if_true]
    · rename_i hb
      refine (ih _ _ _ _ h hw hg1).of_eq (fun _ => ?_)
      simp only [runChecks, hb]
      rfl

theorem ruleBody_c {srec : SRec} (hc : Comp env u inp srec) (hp : PureHooks env.hooks) {r0 : Rule}
    {s g r} (h : Spec.ruleBody env u srec r0 (clr s) = some r) (hw : WfSt inp s) (hg : Good env u inp g) :
    CPost env u inp (fun n => ruleBody env (eval env n) r0 s g) r := by
  unfold Spec.ruleBody at h
  unfold ruleBody
  split at h
  · rename_i fields hf
    simp only [hf]
    simp only at h
    split at h
    · rename_i hcnd
      simp only [if_pos hcnd]
      refine bindR_c h (fun rx hx => hc.expr _ _ _ _ _ hx hw hg) ?_
      intro v s1 g1 r h hw1 hg1
      exact runChecks_c hp _ _ _ _ _ h hw1 hg1
    · rename_i hcnd
      simp only [if_neg hcnd]
      split at h
      · rename_i hc2
        simp only [if_pos hc2]
        refine bindR_c h (fun rx hx => hc.expr _ _ _ _ _ hx hw hg) ?_
        intro v s1 g1 r h hw1 hg1
        split at h
        · rename_i ov hv
          simp only [hv]
          exact runChecks_c hp _ _ _ _ _ h hw1 hg1
        · rename_i hv
          simp only [Option.some.injEq] at h
          subst h
          exact CPost.const (r' := .panic "codegen: override value missing") (fun _ => by simp only [hv])
            rfl hg1 (fun _ _ h => by cases h)
      · rename_i hc2
        simp only [if_neg hc2]
        split at h
        · rename_i hc3
          simp only [Option.some.injEq] at h
          subst h
          exact CPost.const (r' := .panic "uncompilable: Mixing simple and override fields is not allowed.")
            (fun _ => by simp only [if_pos hc3]) rfl hg (fun _ _ h => by cases h)
        · rename_i hc3
          simp only [if_neg hc3]
          refine bindR_c h (fun rx hx => hc.expr _ _ _ _ _ hx hw hg) ?_
          intro v s1 g1 r h hw1 hg1
          split at h
          · rename_i fs hfs
            simp only [hfs]
            exact runChecks_c hp _ _ _ _ _ h hw1 hg1
          · rename_i msg hfs
            simp only [Option.some.injEq] at h
            subst h
            exact CPost.const (r' := .panic ("codegen: " ++ msg)) (fun _ => by simp only [hfs])
              rfl hg1 (fun _ _ h => by cases h)
  · rename_i hne
    simp only [Option.some.injEq] at h
    subst h
    refine CPost.const (r' := .panic "uncompilable: get_fields failed") (fun _ => ?_) rfl hg
      (fun _ _ h => by cases h)
    split
    · rename_i fields hf; exact absurd hf (hne _)
    · rfl

theorem Good.traceResult {g : Global} (hg : Good env u inp g) (res : Res Val) :
    Good env u inp (traceResult g res) := by
  cases res <;> simp only [Peg.traceResult] <;> first | exact hg.emit _ | exact hg

/-- the global state after a `@memoize` miss: non-panic results are inserted -/
def missGlobal (key : String × Nat) (res : Res Val) (g' : Global) : Global :=
  match res with
  | .panic _ => g'
  | _ => g'.insert key res

theorem memoBody_miss {flags : RuleFlags} {name : String} {body : St → Global → Out Val} {n : Nat}
    {s : St} {g : Global} {res : Res Val} {g' : Global}
    (hlr : flags.leftRecursive = false) (hm : flags.memoize = true)
    (hl : g.lookup (name, s.off) = none)
    (hb : body s (g.emit (.bodyEval name s.off)) = some (res, g')) :
    memoBody flags name body n s g = some (res, missGlobal (name, s.off) res g') := by
  unfold memoBody
  simp only [hlr, Bool.false_eq_true, if_false, hm, if_true, hl, hb]
  cases res <;> rfl

theorem memoBody_hit {flags : RuleFlags} {name : String} {body : St → Global → Out Val} {n : Nat}
    {s : St} {g : Global} {cached : Res Val}
    (hlr : flags.leftRecursive = false) (hm : flags.memoize = true)
    (hl : g.lookup (name, s.off) = some cached) :
    memoBody flags name body n s g = some (cached, g.emit (.info "Cache hit")) := by
  unfold memoBody
  simp only [hlr, Bool.false_eq_true, if_false, hm, if_true, hl]

theorem memoBody_plain {flags : RuleFlags} {name : String} {body : St → Global → Out Val} {n : Nat}
    {s : St} {g : Global}
    (hlr : flags.leftRecursive = false) (hm : ¬ flags.memoize = true) :
    memoBody flags name body n s g = body s g := by
  unfold memoBody
  simp only [hlr, Bool.false_eq_true, if_false, hm]

/-- a normal rule: trace, `@memoize` (hit: the cached entry is the unique reference answer;
    miss: run the body and insert), trace -/
theorem normalRule_c {m : Nat} (hc : Comp env u inp (Spec.eval env u m)) (hp : PureHooks env.hooks)
    {r0 : Rule} (hlr : r0.flags.leftRecursive = false) {s g r}
    (hrule : (Spec.eval env u (m + 1)).rule r0.name (clr s) = some r)
    (h : Spec.ruleBody env u (Spec.eval env u m) r0 (clr s) = some r)
    (hw : WfSt inp s) (hg : Good env u inp g) :
    CPost env u inp (fun n => normalRule env (eval env n) n r0 s g) r := by
  have hg0 : Good env u inp (g.emit (.traceStart r0.name s.off)) := hg.emit _
  by_cases hmemo : r0.flags.memoize = true
  · cases hl : (g.emit (.traceStart r0.name s.off)).lookup (r0.name, s.off) with
    | some cached =>
      obtain ⟨hev, hwr⟩ := hg0.cache _ _ _ hl
      rw [← clr_eq_of_wf hw] at hev
      obtain ⟨m0, h0⟩ := hev
      have hab : abs cached = r := Spec.eval_rule_det env u (h0 m0 (Nat.le_refl _)) hrule
      refine CPost.const (r' := cached)
        (g := traceResult ((g.emit (.traceStart r0.name s.off)).emit (.info "Cache hit")) cached)
        (fun n => ?_) hab ((hg0.emit _).traceResult _) hwr
      simp only [normalRule, memoBody_hit hlr hmemo hl]
    | none =>
      obtain ⟨r', g', ⟨n0, h0⟩, ha, hg', hw'⟩ :=
        ruleBody_c hc hp h hw (hg0.emit (.bodyEval r0.name s.off))
      refine ⟨r', traceResult (missGlobal (r0.name, s.off) r' g') r', ⟨n0, fun n hn => ?_⟩, ha, ?_, hw'⟩
      · simp only [normalRule, memoBody_miss hlr hmemo hl (h0 n hn)]
      · refine Good.traceResult ?_ _
        have hins : Good env u inp (g'.insert (r0.name, s.off) r') := by
          refine Good.insert hg' hw ⟨m + 1, fun m' hm' => ?_⟩ hw'
          rw [ha]
          exact (Spec.eval_mono env u hm').rule _ _ _ hrule
        cases r' with
        | ok v s1 => exact hins
        | err e => exact hins
        | panic msg => exact hg'
  · obtain ⟨r', g', ⟨n0, h0⟩, ha, hg', hw'⟩ := ruleBody_c hc hp h hw hg0
    refine ⟨r', traceResult g' r', ⟨n0, fun n hn => ?_⟩, ha, hg'.traceResult _, hw'⟩
    simp only [normalRule, memoBody_plain hlr hmemo, h0 n hn]

theorem charParts_c {srec : SRec} (hc : Comp env u inp srec) (name : String) :
    ∀ ps s g r, Spec.charParts srec ps (clr s) = some r → WfSt inp s → Good env u inp g →
      CPost env u inp (fun n => charParts (eval env n) name ps s g) r := by
  intro ps
  induction ps with
  | nil =>
    intro s g r h hw hg
    simp only [Spec.charParts, Option.some.injEq] at h
    subst h
    exact CPost.const (r' := .err (s.reportError (.expectedCharacterClass name))) (fun _ => rfl) rfl hg
      (fun v s' h => by cases h)
  | cons p ps ih =>
    intro s g r h hw hg
    -- the outcome of the first part, in both worlds
    have key : ∀ (x : SOut Val) (fx : Nat → Out Val),
        (∀ rx, x = some rx → CPost env u inp fx rx) →
        (match x with
          | none => none
          | some (.ok v s') => some (.ok v s')
          | some (.err _) => Spec.charParts srec ps (clr s)
          | some (.panic m) => some (.panic m)) = some r →
        CPost env u inp (fun n =>
          match fx n with
          | none => none
          | some (.ok v s', g') => some (.ok v s', g')
          | some (.err _, g') => charParts (eval env n) name ps s g'
          | some (.panic m, g') => some (.panic m, g')) r := by
      intro x fx hx h
      cases x with
      | none => simp at h
      | some rx =>
        have hx' := hx rx rfl
        cases rx with
        | ok v s0 =>
          obtain ⟨s1, g1, ⟨n0, h0⟩, rfl, hg1, hw1⟩ := hx'.ok_inv
          simp only [Option.some.injEq] at h
          subst h
          refine ⟨.ok v s1, g1, ⟨n0, fun n hn => ?_⟩, rfl, hg1, fun v s' h => by cases h; exact hw1⟩
          simp only [h0 n hn]
        | err e0 =>
          obtain ⟨e, g1, ⟨n0, h0⟩, hg1⟩ := hx'.err_inv
          simp only at h
          obtain ⟨r', g', ⟨n1, h1⟩, rest⟩ := ih _ g1 _ h hw hg1
          refine ⟨r', g', ⟨max n0 n1, fun n hn => ?_⟩, rest⟩
          simp only [h0 n (by omega)]
          exact h1 n (by omega)
        | panic msg =>
          obtain ⟨g1, ⟨n0, h0⟩, hg1⟩ := hx'.panic_inv
          simp only [Option.some.injEq] at h
          subst h
          refine ⟨.panic msg, g1, ⟨n0, fun n hn => ?_⟩, rfl, hg1, fun v s' h => by cases h⟩
          simp only [h0 n hn]
    cases p with
    | chr item =>
      simp only [Spec.charParts] at h
      simp only [charParts]
      cases hi : item.toChar with
      | ok c =>
        simp only [hi] at h ⊢
        refine key _ (fun _ => some ((parseCharacterLiteral s c).map .chr, g)) ?_ h
        intro rx hx
        simp only [Option.some.injEq] at hx
        subst hx
        refine CPost.const (r' := (parseCharacterLiteral s c).map .chr) (fun _ => rfl)
          (by simp only [abs_map, abs_parseCharacterLiteral]) hg ?_
        intro v s' h
        obtain ⟨v0, hv0⟩ := map_ok h
        exact wf_parseCharacterLiteral hw hv0
      | err msg =>
        simp only [hi] at h ⊢
        simp only [Option.some.injEq] at h
        subst h
        exact CPost.const (r' := .panic "uncompilable: char rule literal") (fun _ => rfl) rfl hg
          (fun _ _ h => by cases h)
      | fuel =>
        simp only [hi] at h ⊢
        simp only [Option.some.injEq] at h
        subst h
        exact CPost.const (r' := .panic "uncompilable: char rule literal") (fun _ => rfl) rfl hg
          (fun _ _ h => by cases h)
    | range lo hi =>
      simp only [Spec.charParts] at h
      simp only [charParts]
      cases hlo : lo.toChar with
      | ok a =>
        cases hhi : hi.toChar with
        | ok b =>
          simp only [hlo, hhi] at h ⊢
          refine key _ (fun _ => some ((parseCharacterRange s a b).map .chr, g)) ?_ h
          intro rx hx
          simp only [Option.some.injEq] at hx
          subst hx
          refine CPost.const (r' := (parseCharacterRange s a b).map .chr) (fun _ => rfl)
            (by simp only [abs_map, abs_parseCharacterRange]) hg ?_
          intro v s' h
          obtain ⟨v0, hv0⟩ := map_ok h
          exact wf_parseCharacterRange hw hv0
        | err msg =>
          simp only [hlo, hhi] at h ⊢
          simp only [Option.some.injEq] at h
          subst h
          exact CPost.const (r' := .panic "uncompilable: char rule range") (fun _ => rfl) rfl hg
            (fun _ _ h => by cases h)
        | fuel =>
          simp only [hlo, hhi] at h ⊢
          simp only [Option.some.injEq] at h
          subst h
          exact CPost.const (r' := .panic "uncompilable: char rule range") (fun _ => rfl) rfl hg
            (fun _ _ h => by cases h)
      | err msg =>
        simp only [hlo] at h ⊢
        simp only [Option.some.injEq] at h
        subst h
        exact CPost.const (r' := .panic "uncompilable: char rule range") (fun _ => rfl) rfl hg
          (fun _ _ h => by cases h)
      | fuel =>
        simp only [hlo] at h ⊢
        simp only [Option.some.injEq] at h
        subst h
        exact CPost.const (r' := .panic "uncompilable: char rule range") (fun _ => rfl) rfl hg
          (fun _ _ h => by cases h)
    | ident id =>
      simp only [Spec.charParts] at h
      simp only [charParts]
      exact key _ (fun n => (eval env n).rule id s g) (fun rx hx => hc.rule _ _ _ _ hx hw hg) h

theorem stepRule_c {m : Nat} (hc : Comp env u inp (Spec.eval env u m)) (hp : PureHooks env.hooks)
    (hnl : NoLeftrec env.g) {name s g r}
    (h : Spec.stepRule env u (Spec.eval env u m) name (clr s) = some r)
    (hw : WfSt inp s) (hg : Good env u inp g) :
    CPost env u inp (fun n => stepRule env (eval env n) n name s g) r := by
  have hrule : (Spec.eval env u (m + 1)).rule name (clr s) = some r := h
  unfold Spec.stepRule at h
  unfold stepRule
  split at h
  · -- normal rule
    rename_i r0 hfind
    simp only [hfind]
    have hmem : RuleEntry.rule r0 ∈ env.g.rules := List.mem_of_find?_eq_some hfind
    have hlr := hnl r0 hmem
    have hname : r0.name = name := by
      have := List.find?_some hfind
      simpa [RuleEntry.name] using this
    subst hname
    exact normalRule_c hc hp hlr hrule h hw hg
  · -- @char rule
    rename_i cr hfind
    simp only [hfind]
    unfold Spec.charRule at h
    unfold charRule
    split at h
    · rename_i hcnd
      simp only [if_pos hcnd]
      exact charParts_c hc _ _ _ _ _ h hw hg
    · rename_i hcnd
      simp only [if_neg hcnd]
      simp only [clr_rest] at h
      split at h
      · rename_i hd
        simp only [hd]
        simp only [Option.some.injEq] at h
        subst h
        exact CPost.const (r' := .err (s.reportError (.expectedCharacterClass cr.name))) (fun _ => rfl) rfl hg
          (fun _ _ h => by cases h)
      · rename_i c hd
        simp only [hd]
        cases hcc : charChecks env cr.name cr.directives c s g with
        | mk o g1 =>
          obtain ⟨h1, h2, h3⟩ := charChecks_spec _ _ _ _ _ _ _ hcc
          have hgg : Good env u inp g1 :=
            ⟨h3 ▸ hg.uctx, fun n o r hl => hg.cache n o r (by simpa [Global.lookup, h2] using hl)⟩
          split at h
          · rename_i hck
            rw [hck] at h1
            cases o with
            | some e => simp at h1
            | none =>
              simp only
              exact charParts_c hc _ _ _ _ _ h hw hgg
          · rename_i hck
            cases o with
            | none => simp at h1; exact absurd h1 hck
            | some e =>
              simp only [Option.some.injEq] at h
              subst h
              exact CPost.const (r' := .err e) (fun _ => rfl) rfl hgg (fun _ _ h => by cases h)
  · -- @extern rule
    rename_i er hfind
    simp only [hfind]
    unfold Spec.externRule at h
    have hgu := hg.uctx
    subst hgu
    have hu : (env.hooks.extern ("::".intercalate er.function) s.rest g.uctx).2 = g.uctx := hp.1 _ _ _
    have hg1 : Good env g.uctx inp
        ({ g with uctx := (env.hooks.extern ("::".intercalate er.function) s.rest g.uctx).2 }.emit
          (.externCall ("::".intercalate er.function) s.off g.uctx)) :=
      ⟨hu, fun n o r hl => hg.cache n o r hl⟩
    simp only [clr_rest] at h
    split at h
    · rename_i v adv hres
      simp only [Option.some.injEq] at h
      subst h
      refine CPost.const (r' := s.advanceSafe adv v) (fun _ => ?_) (abs_advanceSafe ..).symm hg1 ?_
      · unfold externRule
        simp only [hres]
      · intro v' s' h
        exact wf_advanceSafe hw h
    · rename_i msg hres
      simp only [Option.some.injEq] at h
      subst h
      refine CPost.const (r' := .err (s.reportError (.externRuleFailed msg))) (fun _ => ?_) rfl hg1
        (fun _ _ h => by cases h)
      unfold externRule
      simp only [hres]
  · -- builtins
    rename_i hfind
    simp only [hfind]
    split at h
    · rename_i hcnd
      simp only [Option.some.injEq] at h
      subst h
      refine CPost.const (r' := (parseChar s).map .chr) (fun _ => by simp only [hcnd, if_true])
        (by simp only [abs_map, abs_parseChar]) hg ?_
      intro v s' h
      obtain ⟨v0, hv0⟩ := map_ok h
      exact wf_parseChar hw hv0
    · rename_i hcnd
      split at h
      · rename_i hc2
        simp only [Option.some.injEq] at h
        subst h
        refine CPost.const (r' := (parseWhitespace s).map (fun _ => Val.unit))
          (fun _ => by simp only [hcnd, hc2, if_true]; rfl)
          (by simp only [abs_map, abs_parseWhitespace]) hg ?_
        intro v s' h
        obtain ⟨v0, hv0⟩ := map_ok h
        exact wf_parseWhitespace hw hv0
      · rename_i hc2
        simp only [Option.some.injEq] at h
        subst h
        exact CPost.const (r' := .panic ("uncompilable: undefined rule " ++ name))
          (fun _ => by simp only [hcnd, hc2]; rfl) rfl hg (fun _ _ h => by cases h)

/-- one unfolding of the reference evaluator preserves completeness -/
theorem step_comp {m : Nat} (hc : Comp env u inp (Spec.eval env u m)) (hp : PureHooks env.hooks)
    (hnl : NoLeftrec env.g) : Comp env u inp (Spec.eval env u (m + 1)) := by
  constructor
  · intro ctx e s g r h hw hg
    exact (stepExpr_c hc m (e := e) h hw hg).succ
  · intro name s g r h hw hg
    exact (stepRule_c hc hp hnl h hw hg).succ

/-- **Completeness, strong form**: the implementation model converges (answers for every large
    enough fuel) to an answer abstracting to the reference answer, in a good global state. -/
theorem eval_comp (hp : PureHooks env.hooks) (hnl : NoLeftrec env.g) :
    ∀ m, Comp env u inp (Spec.eval env u m) := by
  intro m
  induction m with
  | zero =>
    exact ⟨fun _ _ _ _ _ h => by simp [Spec.eval] at h, fun _ _ _ _ h => by simp [Spec.eval] at h⟩
  | succ m ih => exact step_comp ih hp hnl

/-- **Completeness theorem** (converse of `eval_ref`). -/
theorem eval_complete {env : Env} {u : Nat} {inp : List UInt8} (hp : PureHooks env.hooks)
    (hnl : NoLeftrec env.g) :
    ∀ m,
      (∀ ctx e s g r, (Spec.eval env u m).expr ctx e (Spec.clr s) = some r → WfSt inp s →
        Good env u inp g →
        ∃ n r' g', (eval env n).expr ctx e s g = some (r', g') ∧ Spec.abs r' = r) ∧
      (∀ name s g r, (Spec.eval env u m).rule name (Spec.clr s) = some r → WfSt inp s →
        Good env u inp g →
        ∃ n r' g', (eval env n).rule name s g = some (r', g') ∧ Spec.abs r' = r) := by
  intro m
  have hc := eval_comp (u := u) (inp := inp) hp hnl m
  constructor
  · intro ctx e s g r h hw hg
    obtain ⟨r', g', ⟨n0, h0⟩, ha, _, _⟩ := hc.expr ctx e s g r h hw hg
    exact ⟨n0, r', g', h0 n0 (Nat.le_refl _), ha⟩
  · intro name s g r h hw hg
    obtain ⟨r', g', ⟨n0, h0⟩, ha, _, _⟩ := hc.rule name s g r h hw hg
    exact ⟨n0, r', g', h0 n0 (Nat.le_refl _), ha⟩

theorem good_init (env : Env) (u : Nat) (inp : List UInt8) : Good env u inp (Global.init u) :=
  ⟨rfl, fun _ _ _ hl => by simp [Global.init, Global.lookup] at hl⟩

theorem wf_new (inp : List UInt8) : WfSt inp (St.new inp) := by
  simp [WfSt, St.new]

/-- the implementation model answers on (rule, input) iff the reference semantics does, and the answers agree -/
theorem parse_complete (env : Env) (hp : PureHooks env.hooks) (hnl : NoLeftrec env.g) (rule : String)
    (inp : List UInt8) (u m : Nat) {r}
    (h : Spec.parse env u m rule inp = some r) :
    ∃ n r' g', parseAdvanced env n rule inp u = some (r', g') ∧ Spec.abs r' = r :=
  (eval_complete (inp := inp) hp hnl m).2 rule (St.new inp) (Global.init u) r h (wf_new inp)
    (good_init env u inp)

/-- the other direction (from `eval_ref`), for the record: together with `parse_complete` this is
    the "iff" -/
theorem parse_sound (env : Env) (hp : PureHooks env.hooks) (hnl : NoLeftrec env.g) (rule : String)
    (inp : List UInt8) (u n : Nat) {r' g'}
    (h : parseAdvanced env n rule inp u = some (r', g')) :
    ∃ m, Spec.parse env u m rule inp = some (Spec.abs r') := by
  obtain ⟨⟨m0, h0⟩, _, _⟩ :=
    (eval_ref (u := u) (inp := inp) hp hnl n).rule rule (St.new inp) (Global.init u) r' g' h (wf_new inp)
      (good_init env u inp)
  exact ⟨m0, h0 m0 (Nat.le_refl _)⟩

/-- with `eval_mono`: an answer of the implementation at *some* fuel is its answer at every larger
    fuel, so "answers with enough fuel" and "converges" coincide -/
theorem cv_of_answer {env : Env} {name s g n r' g'} (h : (eval env n).rule name s g = some (r', g')) :
    Cv (fun k => (eval env k).rule name s g) r' g' :=
  ⟨n, fun _ hk => (eval_mono env hk).rule _ _ _ _ h⟩

/-- the hypotheses are satisfiable (default hooks are pure; a grammar without rules has no `@leftrec`) -/
example : PureHooks (default : Hooks) ∧ NoLeftrec ⟨[]⟩ :=
  ⟨⟨fun _ _ _ => rfl, fun _ _ _ => rfl⟩, fun _ h => by cases h⟩

end
end Peg
