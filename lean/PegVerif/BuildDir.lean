import PegVerif.Build
/-
  Directory mode of the build-script helper (`Compile::directory(..).run()`, codegen/src/buildscript.rs
  `run_recursively`): every `.ebnf` file found by the recursive walk is compiled next to itself with the
  single-file routine, in the order `read_dir` yields the entries (an environment parameter: the list order),
  and `try_for_each` ends the walk at the first error.
-/
namespace Peg
namespace Build

/-- one candidate `g.ebnf` / `g.rs` pair of the walk; an absent `.ebnf` file is simply not seen -/
def runEntry (k : Consts) (compile : List UInt8 → Option (List UInt8)) (f : FS) : FS × Out :=
  match f.grammar with
  | none => (f, .ok false)
  | some _ => runOnce k compile f

/-- the walk: per file the new state and what happened to it (`.none`: not reached, an earlier file failed) -/
def runDir (k : Consts) (compile : List UInt8 → Option (List UInt8)) : List FS → List (FS × Out)
  | [] => []
  | f :: rest =>
    match runEntry k compile f with
    | (f', .ok w) => (f', .ok w) :: runDir k compile rest
    | (f', _) => (f', .err) :: rest.map (fun x => (x, .none))

/-- the `Result` of `run()` -/
def dirResult (r : List (FS × Out)) : Out :=
  if r.any (fun e => e.2 == .err) then .err else .ok (r.any (fun e => e.2 == .ok true))

end Build
end Peg
