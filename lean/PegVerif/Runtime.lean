import PegVerif.Utf8
/-
  Byte-level mirror of runtime/src/{state,builtin_parsers,choice_helper,error}.rs.
-/
namespace Peg

/-- mirror of `ParseErrorSpecifics` (constructor list is cross-checked against
    `Extracted.specificsCtors`) -/
inductive Spec where
  | expectedAnyCharacter
  | expectedCharacter (c : Char)
  | expectedCharacterRange (lo hi : Char)
  | expectedString (s : List Char)
  | expectedCharacterClass (name : String)
  | expectedEoi
  | negativeLookaheadFailed
  | checkFunctionFailed (name : String)
  | externRuleFailed (msg : String)
  | leftRecursionSentinel
  | other
deriving DecidableEq, Repr, Inhabited

/-- `ParseError` -/
structure PErr where
  pos : Nat
  spec : Spec
deriving DecidableEq, Repr, Inhabited

/-- `ParseState`: `partial_string`, `start_index`, `farthest_error` -/
structure St where
  rest : List UInt8
  off : Nat
  far : Option PErr
deriving DecidableEq, Repr, Inhabited

/-- outcome of a parse function.  `panic` is a Rust panic (never folded into `err`). -/
inductive Res (α : Type) where
  | ok (v : α) (s : St)
  | err (e : PErr)
  | panic (msg : String)
deriving Repr, Inhabited

def Res.map {α β} (f : α → β) : Res α → Res β
  | .ok v s => .ok (f v) s
  | .err e => .err e
  | .panic m => .panic m

def St.new (inp : List UInt8) : St := { rest := inp, off := 0, far := none }

def St.isEmpty (s : St) : Bool := s.rest.isEmpty

/-- `record_error`: newer error wins when its position is ≥ the recorded one -/
def St.recordError (s : St) (e : PErr) : St :=
  match s.far with
  | some f => if f.pos ≤ e.pos then { s with far := some e } else s
  | none => { s with far := some e }

/-- `report_farthest_error` -/
def St.reportFarthest (s : St) : PErr :=
  match s.far with
  | some f => f
  | none => { pos := s.off, spec := .other }

/-- `report_error` -/
def St.reportError (s : St) (sp : Spec) : PErr :=
  (s.recordError { pos := s.off, spec := sp }).reportFarthest

/-- `advance` (the unsafe one): panics on overrun; the caller owes the boundary condition -/
def St.advance {α} (s : St) (n : Nat) (v : α) : Res α :=
  if n > s.rest.length then .panic "String length overrun in advance()"
  else .ok v { s with rest := s.rest.drop n, off := s.off + n }

/-- is `n` a char boundary of the remaining (valid UTF-8) bytes: `str::is_char_boundary` -/
def isCharBoundary (bs : List UInt8) (n : Nat) : Bool :=
  if n == 0 then true
  else match bs[n]? with
    | none => n == bs.length
    | some b => (b &&& 0xC0) != 0x80   -- not a continuation byte (std: `(b as i8) >= -0x40`)

/-- `advance_safe`: additionally panics when `n` is not a char boundary (`&s[n..]`) -/
def St.advanceSafe {α} (s : St) (n : Nat) (v : α) : Res α :=
  if n > s.rest.length then .panic "String length overrun in advance()"
  else if !isCharBoundary s.rest n then .panic "byte index is not a char boundary"
  else .ok v { s with rest := s.rest.drop n, off := s.off + n }

/-- `slice_until` -/
def St.sliceUntil (s other : St) : List UInt8 := s.rest.take (other.off - s.off)

/-- `is_further_than` -/
def St.isFurtherThan (s other : St) : Bool := s.off > other.off

/-! ### builtin_parsers.rs -/

/-- `parse_char` -/
def parseChar (s : St) : Res Char :=
  match decodeHead s.rest with
  | none => .err (s.reportError .expectedAnyCharacter)
  | some c => s.advance c.utf8Size c

/-- the loop of `parse_Whitespace` on the remaining bytes: number of bytes skipped -/
def wsPrefixLen : List UInt8 → Nat
  | [] => 0
  | b :: bs => if isAsciiWhitespace b then wsPrefixLen bs + 1 else 0

/-- builtin `parse_Whitespace` (never fails) -/
def parseWhitespace (s : St) : Res Unit :=
  let n := wsPrefixLen s.rest
  .ok () { s with rest := s.rest.drop n, off := s.off + n }

/-- `parse_string_literal` -/
def parseStringLiteral (s : St) (lit : List Char) : Res Unit :=
  let bs := enc lit
  if !(bs.isPrefixOf s.rest) then .err (s.reportError (.expectedString lit))
  else s.advance bs.length ()

/-- `parse_character_literal` -/
def parseCharacterLiteral (s : St) (c : Char) : Res Char :=
  if isAscii c then
    match s.rest with
    | [] => .err (s.reportError (.expectedCharacter c))
    | b :: _ =>
      if b != charAsU8 c then .err (s.reportError (.expectedCharacter c))
      else s.advance 1 c
  else if !((String.utf8EncodeChar c).isPrefixOf s.rest) then
    .err (s.reportError (.expectedCharacter c))
  else s.advance c.utf8Size c

/-- `parse_character_range` -/
def parseCharacterRange (s : St) (lo hi : Char) : Res Char :=
  if isAscii lo && isAscii hi then
    match s.rest with
    | [] => .err (s.reportError (.expectedCharacterRange lo hi))
    | b :: _ =>
      if b < charAsU8 lo || b > charAsU8 hi then
        .err (s.reportError (.expectedCharacterRange lo hi))
      else s.advance 1 (u8AsChar b)
  else
    match decodeHead s.rest with
    | none => .err (s.reportError (.expectedCharacterRange lo hi))
    | some c =>
      if c < lo || c > hi then .err (s.reportError (.expectedCharacterRange lo hi))
      else s.advance c.utf8Size c

/-- `parse_string_literal_insensitive` (`lit` is the lowercased ASCII literal) -/
def parseStringLiteralInsensitive (s : St) (lit : List Char) : Res Unit :=
  let bs := enc lit
  let pre := (s.rest.take bs.length).map toAsciiLower
  if bs != pre then .err (s.reportError (.expectedString lit))
  else s.advance bs.length ()

/-- `parse_character_literal_insensitive` -/
def parseCharacterLiteralInsensitive (s : St) (c : Char) : Res Char :=
  match s.rest with
  | [] => .err (s.reportError (.expectedCharacter c))
  | b :: _ =>
    if toAsciiLower b != charAsU8 c then .err (s.reportError (.expectedCharacter c))
    else s.advance 1 c

/-- `parse_end_of_input` -/
def parseEndOfInput (s : St) : Res Unit :=
  if s.isEmpty then .ok () s else .err (s.reportError .expectedEoi)

end Peg
