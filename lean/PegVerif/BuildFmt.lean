import PegVerif.Build
/-
  `Compile::…​.format()`: after the destination is written, `rustfmt` rewrites it in place.  `rustfmt` is an
  external program: it is a parameter `fmt : bytes → bytes` here (the correspondence run feeds the model a table
  built by running the real `rustfmt` on the unformatted outputs).  The comment lines of the header survive
  formatting, the prefix text need not (`use b;use a;` becomes two sorted lines), so with formatting the
  up-to-date test can only compare the header *lines* – which carry the CRC-32 of the prefix (fix F8).
-/
namespace Peg
namespace Build

/-- the header lines: the common header and the line with the CRC-32 of the prefix -/
def headerLines (k : Consts) (grammar pfx : List UInt8) : List UInt8 :=
  sourceHeader k grammar ++ str "// CRC-32/ISO-HDLC of the prefix: " ++ hex8 (crc32 pfx) ++ str "\n"

/-- `Compile::run` on a single file, with or without `.format()` -/
def runOnceF (k : Consts) (compile : List UInt8 → Option (List UInt8)) (fmt : List UInt8 → List UInt8)
    (format : Bool) (fs : FS) : FS × Out :=
  match fs.grammar with
  | none => (fs, .err)
  | some g =>
    let hdr := fullHeader k g fs.pfx
    let cmp := if format then headerLines k g fs.pfx else hdr
    let upToDate := match fs.dest with
      | some d => d.take cmp.length == cmp
      | none => false
    if upToDate then (fs, .ok false)
    else match compile g with
      | none => (fs, .err)
      | some code =>
        let out := hdr ++ str "\n" ++ code
        ({ fs with dest := some (if format then fmt out else out) }, .ok true)

def stepF (k : Consts) (compile : List UInt8 → Option (List UInt8)) (fmt : List UInt8 → List UInt8)
    (format : Bool) (fs : FS) : Op → FS × Out
  | .editGrammar t => ({ fs with grammar := t }, .none)
  | .setPrefix p => ({ fs with pfx := p }, .none)
  | .deleteDest => ({ fs with dest := none }, .none)
  | .run => runOnceF k compile fmt format fs

def runOpsF (k : Consts) (compile : List UInt8 → Option (List UInt8)) (fmt : List UInt8 → List UInt8)
    (format : Bool) : FS → List Op → FS
  | fs, [] => fs
  | fs, op :: ops => runOpsF k compile fmt format (stepF k compile fmt format fs op).1 ops

end Build
end Peg
