import PegVerif.Eval
import PegVerif.Extracted.MetaGrammar
/-
  Model of the grammar front end: `Grammar::from_str` = the generated parser for grammar.ebnf.
  The model is `eval` on `Extracted.metaGrammar` (re-extracted from /repo/grammar.ebnf on every run)
  followed by the generic conversion below from the value tree (`Val`) to `Syntax.Grammar` – the
  mirror image of the types peginator generates for grammar.ebnf.
-/
namespace Peg
namespace FrontEnd

def strOf (bs : List UInt8) : String :=
  match String.fromUTF8? (ByteArray.mk bs.toArray) with
  | some s => s
  | none => ""

def fieldOf (fs : List (String × Val)) (n : String) : Option Val := (fs.find? (·.1 == n)).map (·.2)

def asStr : Val → Option String
  | .str bs => some (strOf bs)
  | _ => none

def asChr : Val → Option Char
  | .chr c => some c
  | _ => none

def asList : Val → Option (List Val)
  | .list vs => some vs
  | _ => none

def unbox : Val → Val
  | .boxed v => v
  | v => v

def toPath (v : Val) : Option (List String) := do
  let vs ← asList v
  vs.mapM asStr

def toSimple : String → Option SimpleEsc
  | "SimpleEscapeNewline" => some .newline
  | "SimpleEscapeCarriageReturn" => some .cr
  | "SimpleEscapeTab" => some .tab
  | "SimpleEscapeBackslash" => some .backslash
  | "SimpleEscapeQuote" => some .quote
  | "SimpleEscapeDQuote" => some .dquote
  | _ => none

def optChr (fs : List (String × Val)) (n : String) : Option (Option Char) :=
  match fieldOf fs n with
  | some (.some (.chr c)) => some (some c)
  | some .none => some none
  | _ => none

/-- a `StringItem` value -/
def toItem : Val → Option StringItem
  | .variant "char" (.chr c) => some (.chr c)
  | .variant "SimpleEscape" (.variant k _) => (toSimple k).map .simple
  | .variant "HexaEscape" (.node _ fs _) => do
    let c1 ← fieldOf fs "c1" >>= asChr
    let c2 ← fieldOf fs "c2" >>= asChr
    pure (.hexa c1 c2)
  | .variant "Utf8Escape" (.node _ fs _) => do
    let c1 ← fieldOf fs "c1" >>= asChr
    let c2 ← optChr fs "c2"
    let c3 ← optChr fs "c3"
    let c4 ← optChr fs "c4"
    let c5 ← optChr fs "c5"
    let c6 ← optChr fs "c6"
    pure (.utf8 (c1 :: [c2, c3, c4, c5, c6].filterMap id))
  | _ => none

def isSome? : Val → Option Bool
  | .some _ => some true
  | .none => some false
  | _ => Option.none

def toFieldName : Val → Option (Option FieldName)
  | .none => some none
  | .some (.variant "Identifier" (.str bs)) => some (some (.ident (strOf bs)))
  | .some (.variant "OverrideMarker" _) => some (some .override)
  | _ => Option.none

mutual
/-- fuel = nesting depth -/
def toChoice : Nat → Val → Option Expr
  | 0, _ => none
  | n+1, .node "Choice" fs _ => do
    let cs ← fieldOf fs "choices" >>= asList
    let ss ← cs.mapM (toSequence n)
    pure (.choice ss)
  | _, _ => none
def toSequence : Nat → Val → Option Expr
  | 0, _ => none
  | n+1, .node "Sequence" fs _ => do
    let ps ← fieldOf fs "parts" >>= asList
    let es ← ps.mapM (toDelim n)
    pure (.seq es)
  | _, _ => none
def toDelim : Nat → Val → Option Expr
  | 0, _ => none
  | n+1, v =>
    match unbox v with
    | .variant "Group" (.node _ fs _) => do pure (.group (← fieldOf fs "body" >>= toChoice n))
    | .variant "Optional" (.node _ fs _) => do pure (.opt (← fieldOf fs "body" >>= toChoice n))
    | .variant "Closure" (.node _ fs _) => do
      let b ← fieldOf fs "body" >>= toChoice n
      let p ← fieldOf fs "at_least_one" >>= isSome?
      pure (.closure b p)
    | .variant "NegativeLookahead" (.node _ fs _) => do pure (.neg (← fieldOf fs "expr" >>= toDelim n))
    | .variant "PositiveLookahead" (.node _ fs _) => do pure (.pos (← fieldOf fs "expr" >>= toDelim n))
    | .variant "CharacterRange" (.node _ fs _) => do
      pure (.range (← fieldOf fs "from" >>= toItem) (← fieldOf fs "to" >>= toItem))
    | .variant "StringLiteral" (.node _ fs _) => do
      let ins ← fieldOf fs "insensitive" >>= isSome?
      let body ← fieldOf fs "body" >>= asList
      pure (.lit ins (← body.mapM toItem))
    | .variant "EndOfInput" _ => some .eoi
    | .variant "IncludeRule" (.node _ fs _) => do pure (.incl (← fieldOf fs "rule" >>= asStr))
    | .variant "Field" (.node _ fs _) => do
      let nm ← fieldOf fs "name" >>= toFieldName
      let bx ← fieldOf fs "boxed" >>= isSome?
      let typ ← fieldOf fs "typ" >>= asStr
      pure (.field nm bx typ)
    | _ => none
end

def toDirective : Val → Option Directive
  | .variant "StringDirective" _ => some .string
  | .variant "NoSkipWsDirective" _ => some .noSkipWs
  | .variant "ExportDirective" _ => some .export
  | .variant "PositionDirective" _ => some .position
  | .variant "MemoizeDirective" _ => some .memoize
  | .variant "LeftrecDirective" _ => some .leftrec
  | .variant "CheckDirective" (.node _ fs _) => do pure (.check (← fieldOf fs "function" >>= toPath))
  | _ => none

def toCharPart : Val → Option CharRulePart
  | .variant "CharacterRange" (.node _ fs _) => do
    pure (.range (← fieldOf fs "from" >>= toItem) (← fieldOf fs "to" >>= toItem))
  | .variant "CharRangePart" v => (toItem v).map .chr
  | .variant "Identifier" (.str bs) => some (.ident (strOf bs))
  | _ => none

def toRuleEntry (depth : Nat) : Val → Option RuleEntry
  | .variant "Rule" (.node _ fs _) => do
    let ds ← fieldOf fs "directives" >>= asList
    let name ← fieldOf fs "name" >>= asStr
    let d ← fieldOf fs "definition" >>= toChoice depth
    pure (.rule { directives := ← ds.mapM toDirective, name := name, definition := d })
  | .variant "CharRule" (.node _ fs _) => do
    let ds ← fieldOf fs "directives" >>= asList
    let checks ← ds.mapM fun d => match d with
      | .node _ dfs _ => fieldOf dfs "function" >>= toPath
      | _ => none
    let name ← fieldOf fs "name" >>= asStr
    let cs ← fieldOf fs "choices" >>= asList
    pure (.charRule { directives := checks, name := name, choices := ← cs.mapM toCharPart })
  | .variant "ExternRule" (.node _ fs _) => do
    let name ← fieldOf fs "name" >>= asStr
    match fieldOf fs "directive" with
    | some (.node _ dfs _) =>
      let fn ← fieldOf dfs "function" >>= toPath
      let ret ← match fieldOf dfs "return_type" with
        | some (.some v) => (toPath v).map some
        | some .none => some none
        | _ => none
      pure (.externRule { function := fn, returnType := ret, name := name })
    | _ => none
  | _ => none

def toGrammar (depth : Nat) : Val → Option Grammar
  | .node "Grammar" fs _ => do
    let rs ← fieldOf fs "rules" >>= asList
    pure ⟨← rs.mapM (toRuleEntry depth)⟩
  | _ => none

/-- the environment of the front end: default settings, no user functions -/
def metaEnv : Env := { g := Extracted.metaGrammar, settings := {}, hooks := default, nf := 64 }

inductive Outcome where
  | grammar (g : Grammar)
  | parseError (e : PErr)
  | other (msg : String)

/-- `Grammar::from_str` -/
def parse (fuel : Nat) (text : List UInt8) : Outcome :=
  match parseAdvanced metaEnv fuel "Grammar" text 0 with
  | none => .other "out of fuel"
  | some (.ok v _, _) => (match toGrammar fuel v with
    | some g => .grammar g
    | none => .other "unexpected value shape")
  | some (.err e, _) => .parseError e
  | some (.panic m, _) => .other ("panic: " ++ m)

end FrontEnd
end Peg
