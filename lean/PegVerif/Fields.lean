import PegVerif.Syntax
/-
  The generator's field analysis: mirror of every `get_fields` in codegen/src
  (sequence.rs, choice.rs, closure.rs, optional.rs, lookahead.rs, include_rule.rs, field.rs,
  string.rs, eoi.rs, misc.rs) and of `combine_field_types` (common.rs).

  Fuel is *depth* (one unit per AST level or include hop), so the functions are structurally
  recursive on the fuel.  `CR.fuel` always and only means "out of fuel".
-/
namespace Peg

inductive Arity where
  | one | optional | multiple
deriving DecidableEq, Repr, Inhabited

/-- `FieldDescriptor`.  `types` mirrors the `BTreeMap<&str, FieldProperties>`: sorted by
    type name (byte-wise `str` order), no duplicates; the Bool is `boxed`. -/
structure FieldDesc where
  name : String
  types : List (String × Bool)
  arity : Arity
deriving DecidableEq, Repr, Inhabited

/-- result of a generator-side computation -/
inductive CR (α : Type) where
  | ok (a : α)
  | err (msg : String)
  | fuel
deriving Repr, Inhabited

instance : Monad CR where
  pure := .ok
  bind x f := match x with
    | .ok a => f a
    | .err m => .err m
    | .fuel => .fuel

/-- the nine arms of `combine_arities_for_choice` (choice.rs) – cross-checked against
    `Extracted.combineChoice` -/
def combineChoice : Arity → Arity → Arity
  | .one, .one => .one
  | .one, .optional => .optional
  | .one, .multiple => .multiple
  | .optional, .one => .optional
  | .optional, .optional => .optional
  | .optional, .multiple => .multiple
  | .multiple, .one => .multiple
  | .multiple, .optional => .multiple
  | .multiple, .multiple => .multiple

/-- `set_arity_to_optional` (optional.rs) -/
def toOptional : Arity → Arity
  | .one => .optional
  | .optional => .optional
  | .multiple => .multiple

/-- Rust `str` ordering = lexicographic on UTF-8 bytes -/
def strLt (a b : String) : Bool := a.toUTF8.toList < b.toUTF8.toList

/-- `BTreeMap::entry(k).or_insert(v)` followed by `boxed ||= v.boxed` -/
def insertType : List (String × Bool) → String × Bool → List (String × Bool)
  | [], kv => [kv]
  | (k, b) :: rest, (k', b') =>
    if k == k' then (k, b || b') :: rest
    else if strLt k' k then (k', b') :: (k, b) :: rest
    else (k, b) :: insertType rest (k', b')

/-- `combine_field_types` -/
def combineTypes (l r : List (String × Bool)) : List (String × Bool) := r.foldl insertType l

def findField (fs : List FieldDesc) (n : String) : Option FieldDesc := fs.find? (·.name == n)

def hasField (fs : List FieldDesc) (n : String) : Bool := fs.any (·.name == n)

/-- `Sequence::get_fields`: merge the fields of one more part -/
def seqMerge (all : List FieldDesc) (new : List FieldDesc) : List FieldDesc :=
  new.foldl (fun all nf =>
    if hasField all nf.name then
      all.map fun o => if o.name == nf.name then
        { o with arity := .multiple, types := combineTypes o.types nf.types } else o
    else all ++ [nf]) all

/-- `Choice::get_fields`: merge the fields of one more arm -/
def choiceMerge (first : Bool) (all : List FieldDesc) (new : List FieldDesc) : List FieldDesc :=
  let all := if first then all else
    all.map fun f => if f.arity == .one && !hasField new f.name then { f with arity := .optional } else f
  new.foldl (fun all nf =>
    if hasField all nf.name then
      all.map fun o => if o.name == nf.name then
        { o with arity := combineChoice o.arity nf.arity, types := combineTypes o.types nf.types } else o
    else if first || nf.arity != .one then all ++ [nf]
    else all ++ [{ nf with arity := .optional }]) all

def choiceFields : Bool → List FieldDesc → List (List FieldDesc) → List FieldDesc
  | _, all, [] => all
  | first, all, new :: rest => choiceFields false (choiceMerge first all new) rest

def mapMCR {α β} (f : α → CR β) : List α → CR (List β)
  | [] => .ok []
  | a :: as => match f a with
    | .ok b => (match mapMCR f as with
      | .ok bs => .ok (b :: bs)
      | .err m => .err m
      | .fuel => .fuel)
    | .err m => .err m
    | .fuel => .fuel

/-- every `get_fields`, one case per construct -/
def getFields (g : Grammar) : Nat → Expr → CR (List FieldDesc)
  | 0, _ => .fuel
  | n+1, e =>
    match e with
    | .choice alts =>
      match mapMCR (getFields g n) alts with
      | .ok fss => .ok (choiceFields true [] fss)
      | .err m => .err m
      | .fuel => .fuel
    | .seq parts =>
      match mapMCR (getFields g n) parts with
      | .ok fss => .ok (fss.foldl seqMerge [])
      | .err m => .err m
      | .fuel => .fuel
    | .group b => getFields g n b
    | .opt b =>
      match getFields g n b with
      | .ok fs => .ok (fs.map fun f => { f with arity := toOptional f.arity })
      | r => r
    | .closure b _ =>
      match getFields g n b with
      | .ok fs => .ok (fs.map fun f => { f with arity := .multiple })
      | r => r
    | .neg b =>
      match getFields g n b with
      | .ok [] => .ok []
      | .ok _ => .err "The body of negative lookaheads should not contain named fields"
      | r => r
    | .pos b =>
      match getFields g n b with
      | .ok [] => .ok []
      | .ok _ => .err "The body of positive lookaheads should not contain named fields"
      | r => r
    | .range _ _ => .ok []
    | .lit _ _ => .ok []
    | .eoi => .ok []
    | .incl r =>
      match g.findRule r with
      | none => .err s!"Could not find normal (not char or extern) rule named {r}"
      | some rule => getFields g n rule.definition
    | .field none _ _ => .ok []
    | .field (some nm) boxed typ => .ok [{ name := nm.key, types := [(typ, boxed)], arity := .one }]

/-- names only (what `get_filtered_rule_fields` and the result converters consult) -/
def fieldNames (fs : List FieldDesc) : List String := fs.map (·.name)

/-- `get_filtered_rule_fields`: the rule-level descriptors of the fields occurring in a
    sub-expression, in rule-field order -/
def filterRuleFields (ruleFields : List FieldDesc) (own : List FieldDesc) : List FieldDesc :=
  ruleFields.filter fun rf => hasField own rf.name

end Peg
