import PegVerif.Syntax
import PegVerif.Runtime
import PegVerif.Fields
import PegVerif.Value
import PegVerif.Literal
/-
  `Impl.eval`: the model of a *generated parser*.  It follows the code templates of codegen/src
  construct by construct (field plumbing, whitespace call sites, error bookkeeping, rule wrappers
  for @string / override / struct rules, @check, @char, @extern, tracer callbacks, @memoize,
  @leftrec), not the PEG textbook.

  Style: open recursion + fuel.  `step rec n` is non-recursive in the evaluator; list/loop helpers
  are structurally recursive; `eval 0 = ⊥`, `eval (n+1) = step (eval n) n`.
  `none` always and only means "out of fuel"; a Rust panic is `Res.panic`.

  The memoized / left-recursive wrapper models the code *after* the fix F1 (the rule body is
  evaluated in its own closure, so its early exits cannot skip the cache insert).
-/
namespace Peg

/-- `CodegenSettings` (the parts that influence behaviour) -/
structure Settings where
  skipWhitespace : Bool := true
  hasUserContext : Bool := false
  derives : List String := ["Debug", "Clone"]
deriving Repr, Inhabited

/-- user functions.  Keyed by the `::`-joined path written in the grammar.  The user context is
    modelled as a `Nat` threaded through every call (`&mut T`). -/
structure Hooks where
  extern : String → List UInt8 → Nat → Except String (Val × Nat) × Nat
  check : String → Val → Nat → Bool × Nat
  charCheck : String → Char → Bool

instance : Inhabited Hooks :=
  ⟨{ extern := fun _ _ u => (.error "no such extern", u), check := fun _ _ u => (true, u),
     charCheck := fun _ _ => true }⟩

/-- ghost events: tracer callbacks and user-function invocations, newest first -/
inductive Ev where
  | traceStart (rule : String) (off : Nat)
  | traceOk (off : Nat)
  | traceErr (spec : Spec)
  | info (msg : String)
  | externCall (fn : String) (off : Nat) (uctx : Nat)
  | checkCall (fn : String) (arg : String) (uctx : Nat)
  | charCheckCall (fn : String) (c : Char)
  | bodyEval (rule : String) (off : Nat)      -- ghost: a memoized / leftrec body evaluation starts
deriving Repr, Inhabited

/-- `ParseGlobal`: cache (`ParseCache`, one map per rule, keyed by offset), tracer (as a log),
    user context -/
structure Global where
  cache : List ((String × Nat) × Res Val)
  log : List Ev
  uctx : Nat
deriving Inhabited

def Global.init (uctx : Nat) : Global := { cache := [], log := [], uctx := uctx }

def Global.emit (g : Global) (e : Ev) : Global := { g with log := e :: g.log }

def Global.lookup (g : Global) (k : String × Nat) : Option (Res Val) :=
  (g.cache.find? (fun kv => kv.1 == k)).map (·.2)

def Global.insert (g : Global) (k : String × Nat) (v : Res Val) : Global :=
  { g with cache := (k, v) :: g.cache }

/-- the result of one construct: values of the (filtered) rule fields it contains -/
abbrev Parsed := List (String × Val)

def Parsed.get (p : Parsed) (n : String) : Option Val := (p.find? (·.1 == n)).map (·.2)

def Parsed.set (p : Parsed) (n : String) (v : Val) : Parsed :=
  if p.any (·.1 == n) then p.map fun kv => if kv.1 == n then (n, v) else kv else p ++ [(n, v)]

/-- per-rule generation context: the settings after `@no_skip_ws`, and the rule-level fields -/
structure Ctx where
  skipWs : Bool
  ruleFields : List FieldDesc
deriving Repr, Inhabited

/-- static environment of a parse -/
structure Env where
  g : Grammar
  settings : Settings
  hooks : Hooks
  /-- fuel for `getFields` (any bound on AST depth + include chain length) -/
  nf : Nat

abbrev Out (α : Type) := Option (Res α × Global)

structure Rec where
  expr : Ctx → Expr → St → Global → Out Parsed
  rule : String → St → Global → Out Val

/-- sequencing on success; errors, panics and fuel exhaustion propagate -/
@[inline] def bindR {α β} (x : Out α) (k : α → St → Global → Out β) : Out β :=
  match x with
  | none => none
  | some (.ok v s, g) => k v s g
  | some (.err e, g) => some (.err e, g)
  | some (.panic m, g) => some (.panic m, g)

def pureR {α} (r : Res α) (g : Global) : Out α := some (r, g)

/-- names of the fields of a sub-expression (`[]` when `get_fields` fails: such grammars are
    rejected by `Compile.check`) -/
def ownFields (env : Env) (e : Expr) : List FieldDesc :=
  match getFields env.g env.nf e with
  | .ok fs => fs
  | _ => []

/-- `generate_skip_ws`: `parse_Whitespace(state, global).and_then(|ParseOk{state, ..}| …)` -/
def withSkipWs {α} (rec : Rec) (ctx : Ctx) (s : St) (g : Global)
    (k : St → Global → Out α) : Out α :=
  if ctx.skipWs then bindR (rec.rule "Whitespace" s g) (fun _ s' g' => k s' g') else k s g

/-! ### field plumbing (sequence.rs, choice.rs, optional.rs, closure.rs, field.rs) -/

/-- `Choice::generate_default_field` / `Default::default()` of a declared field type -/
def defaultField (f : FieldDesc) : Except String Val :=
  match f.arity with
  | .one => .error "Outer field cannot be One if inner does not exist"
  | .optional => .ok .none
  | .multiple => .ok (.list [])

def defaults : List FieldDesc → Except String Parsed
  | [] => .ok []
  | f :: fs => match defaultField f, defaults fs with
    | .ok v, .ok p => .ok ((f.name, v) :: p)
    | .error m, _ => .error m
    | _, .error m => .error m

/-- `field.rs: generate_postprocess_calls`: box, enum-wrap, then `Some` / `vec![…]` according to
    the rule-level descriptor -/
def postprocessField (ruleFields : List FieldDesc) (name typ : String) (v : Val) : Except String Val :=
  match findField ruleFields name with
  | none => .error "Field not found in rule_fields"
  | some f =>
    match f.types.find? (·.1 == typ) with
    | none => .error "Field type not found in field"
    | some (_, boxed) =>
      let v := if boxed then Val.boxed v else v
      let v := if f.types.length > 1 then Val.variant typ v else v
      .ok (match f.arity with
        | .one => v
        | .optional => .some v
        | .multiple => .list [v])

/-- `Vec::extend` -/
def extendVal : Val → Val → Except String Val
  | .list a, .list b => .ok (.list (a ++ b))
  | _, _ => .error "extend on a non-Vec"

/-- one part of `Sequence::generate_parse_function`: bind on first sight, `extend` afterwards -/
def mergePart : List FieldDesc → List String → Parsed → Parsed → Except String (List String × Parsed)
  | [], seen, env, _ => .ok (seen, env)
  | f :: fs, seen, env, r =>
    match r.get f.name with
    | none => .error "sequence part result lacks a field"
    | some v =>
      if !seen.contains f.name then
        mergePart fs (f.name :: seen) (env.set f.name v) r
      else if f.arity != .multiple then
        .error "assertion failed: field.arity == Arity::Multiple"
      else match env.get f.name with
        | none => .error "extend of an unbound field"
        | some old => match extendVal old v with
          | .error m => .error m
          | .ok nv => mergePart fs seen (env.set f.name nv) r

/-- the final `Parsed { … }` of a construct: its filtered rule fields, in rule-field order -/
def project : List FieldDesc → Parsed → Except String Parsed
  | [], _ => .ok []
  | f :: fs, env =>
    match env.get f.name, project fs env with
    | some v, .ok p => .ok ((f.name, v) :: p)
    | none, _ => .error "unbound field in result"
    | _, .error m => .error m

/-- `Choice::generate_result_converter` -/
def convertArm (fields : List FieldDesc) (inner : List FieldDesc) (r : Parsed) : Except String Parsed :=
  match fields with
  | [] => .ok []
  | [f] =>
    if inner.isEmpty then (match defaultField f with | .ok v => .ok [(f.name, v)] | .error m => .error m)
    else match r.get f.name with
      | some v => .ok [(f.name, v)]
      | none => .error "arm result lacks the field"
  | _ =>
    let rec go : List FieldDesc → Except String Parsed
      | [] => .ok []
      | f :: fs =>
        let v := if hasField inner f.name then
            (match r.get f.name with | some v => Except.ok v | none => .error "arm result lacks a field")
          else defaultField f
        match v, go fs with
        | .ok v, .ok p => .ok ((f.name, v) :: p)
        | .error m, _ => .error m
        | _, .error m => .error m
    go fields

/-- the closure's `name.extend(__result.name)` for every field -/
def extendAll : List FieldDesc → Parsed → Parsed → Except String Parsed
  | [], acc, _ => .ok acc
  | f :: fs, acc, r =>
    match acc.get f.name, r.get f.name with
    | some a, some b => (match extendVal a b with
      | .ok v => extendAll fs (acc.set f.name v) r
      | .error m => .error m)
    | _, _ => .error "closure result lacks a field"

/-- the closure's `let mut name: <declared type> = Vec::new();` – ill-typed unless `Multiple` -/
def closureInit : List FieldDesc → Except String Parsed
  | [] => .ok []
  | f :: fs =>
    if f.arity != .multiple then .error "closure field is not declared as Vec"
    else match closureInit fs with
      | .ok p => .ok ((f.name, .list []) :: p)
      | .error m => .error m

/-! ### list / loop helpers -/

/-- `Sequence::generate_parse_function` (≥ 2 parts) -/
def evalSeq (env : Env) (rec : Rec) (ctx : Ctx) :
    List Expr → List String → Parsed → St → Global → Out (List String × Parsed)
  | [], seen, acc, s, g => some (.ok (seen, acc) s, g)
  | p :: ps, seen, acc, s, g =>
    bindR (rec.expr ctx p s g) fun r s' g' =>
      let inner := filterRuleFields ctx.ruleFields (ownFields env p)
      match mergePart inner seen acc r with
      | .error m => some (.panic ("codegen: " ++ m), g')
      | .ok (seen', acc') => evalSeq env rec ctx ps seen' acc' s' g'

/-- `ChoiceHelper::new(state).choice(…)….end()` with the per-arm result converter -/
def evalAlts (env : Env) (rec : Rec) (ctx : Ctx) (fields : List FieldDesc) :
    List Expr → St → Global → Out Parsed
  | [], s, g => some (.err s.reportFarthest, g)
  | a :: as, s, g =>
    match rec.expr ctx a s g with
    | none => none
    | some (.ok r s', g') =>
      (match convertArm fields (ownFields env a) r with
       | .ok p => some (.ok p s', g')
       | .error m => some (.panic ("codegen: " ++ m), g'))
    | some (.err e, g') => evalAlts env rec ctx fields as (s.recordError e) g'
    | some (.panic m, g') => some (.panic m, g')

/-- the `loop` of closure.rs; the counter is loop fuel -/
def evalLoop (body : St → Global → Out Parsed) (fields : List FieldDesc) :
    Nat → Nat → Parsed → St → Global → Out (Nat × Parsed)
  | 0, _, _, _, _ => none
  | k+1, iters, acc, s, g =>
    match body s g with
    | none => none
    | some (.ok r s', g') =>
      (match extendAll fields acc r with
       | .ok acc' => evalLoop body fields k (iters + 1) acc' s' g'
       | .error m => some (.panic ("codegen: " ++ m), g'))
    | some (.err e, g') => some (.ok (iters, acc) (s.recordError e), g')
    | some (.panic m, g') => some (.panic m, g')

/-! ### one construct -/

def stepExpr (env : Env) (rec : Rec) (n : Nat) (ctx : Ctx) (e : Expr) (s : St) (g : Global) : Out Parsed :=
  match e with
  | .choice [] => some (.panic "index out of bounds: choices[0]", g)
  | .choice [a] => rec.expr ctx a s g
  | .choice alts =>
    evalAlts env rec ctx (filterRuleFields ctx.ruleFields (ownFields env e)) alts s g
  | .seq [] => some (.ok [] s, g)
  | .seq [p] => rec.expr ctx p s g
  | .seq parts =>
    bindR (evalSeq env rec ctx parts [] [] s g) fun (_, acc) s' g' =>
      match project (filterRuleFields ctx.ruleFields (ownFields env e)) acc with
      | .ok p => some (.ok p s', g')
      | .error m => some (.panic ("codegen: " ++ m), g')
  | .group b => rec.expr ctx b s g
  | .opt b =>
    match rec.expr ctx b s g with
    | none => none
    | some (.ok r s', g') => some (.ok r s', g')
    | some (.err err, g') =>
      (match defaults (filterRuleFields ctx.ruleFields (ownFields env b)) with
       | .ok p => some (.ok p (s.recordError err), g')
       | .error m => some (.panic ("codegen: " ++ m), g'))
    | some (.panic m, g') => some (.panic m, g')
  | .closure b atLeastOne =>
    let fields := filterRuleFields ctx.ruleFields (ownFields env b)
    match closureInit fields with
    | .error m => some (.panic ("codegen: " ++ m), g)
    | .ok init =>
      bindR (evalLoop (rec.expr ctx b) fields n 0 init s g) fun (iters, acc) s' g' =>
        if atLeastOne && iters == 0 then some (.err s'.reportFarthest, g')
        else some (.ok acc s', g')
  | .neg b =>
    match rec.expr ctx b s g with
    | none => none
    | some (.ok _ _, g') => some (.err (s.reportError .negativeLookaheadFailed), g')
    | some (.err _, g') => some (.ok [] s, g')
    | some (.panic m, g') => some (.panic m, g')
  | .pos b =>
    bindR (rec.expr ctx b s g) fun _ _ g' => some (.ok [] s, g')
  | .range lo hi =>
    match lo.toChar, hi.toChar with
    | .ok lo, .ok hi =>
      withSkipWs rec ctx s g fun s g => some ((parseCharacterRange s lo hi).map (fun _ => []), g)
    | _, _ => some (.panic "uncompilable: range bound", g)
  | .lit ins body =>
    match compileLit ins body with
    | .ok m =>
      withSkipWs rec ctx s g fun s g =>
        match m with
        | .charLit c => some ((parseCharacterLiteral s c).map (fun _ => []), g)
        | .strLit l => some ((parseStringLiteral s l).map (fun _ => []), g)
        | .charLitI c => some ((parseCharacterLiteralInsensitive s c).map (fun _ => []), g)
        | .strLitI l => some ((parseStringLiteralInsensitive s l).map (fun _ => []), g)
    | _ => some (.panic "uncompilable: literal", g)
  | .eoi => withSkipWs rec ctx s g fun s g => some ((parseEndOfInput s).map (fun _ => []), g)
  | .incl r =>
    match env.g.findRule r with
    | none => some (.panic "uncompilable: include of a missing rule", g)
    | some rule => rec.expr ctx rule.definition s g
  | .field name boxed typ =>
    let _ := boxed
    withSkipWs rec ctx s g fun s g =>
      bindR (rec.rule typ s g) fun v s' g' =>
        match name with
        | none => some (.ok [] s', g')
        | some nm =>
          match postprocessField ctx.ruleFields nm.key typ v with
          | .ok fv => some (.ok [(nm.key, fv)] s', g')
          | .error m => some (.panic ("codegen: " ++ m), g')

/-! ### rule wrappers (rule.rs, char_rule.rs, extern_rule.rs) -/

/-- `generate_check_calls`: every `@check` in source order on the finished value -/
def runChecks (env : Env) : List (List String) → Val → St → Global → Out Val
  | [], v, s, g => some (.ok v s, g)
  | f :: fs, v, s, g =>
    let fname := "::".intercalate f
    let (b, u) := env.hooks.check fname v g.uctx
    let g := ({ g with uctx := u }).emit (.checkCall fname v.render g.uctx)
    if !b then some (.err (s.reportError (.checkFunctionFailed fname)), g)
    else runChecks env fs v s g

/-- the three rule bodies of `Rule::generate_code`, without tracing and caching -/
def ruleBody (env : Env) (rec : Rec) (r : Rule) (s : St) (g : Global) : Out Val :=
  let flags := r.flags
  match getFields env.g env.nf r.definition with
  | .ok fields =>
    let ctx : Ctx := { skipWs := env.settings.skipWhitespace && !flags.noSkipWs, ruleFields := fields }
    if flags.string then
      bindR (rec.expr ctx r.definition s g) fun _ s' g' =>
        let str := Val.str (s.sliceUntil s')
        let v := if flags.position then Val.node r.name [("string", str)] (some (s.off, s'.off)) else str
        runChecks env r.checks v s' g'
    else if fields.length == 1 && (fields.head?.map (·.name)) == some "_override" then
      bindR (rec.expr ctx r.definition s g) fun p s' g' =>
        match p.get "_override" with
        | some v => runChecks env r.checks v s' g'
        | none => some (.panic "codegen: override value missing", g')
    else if hasField fields "_override" then
      some (.panic "uncompilable: Mixing simple and override fields is not allowed.", g)
    else
      bindR (rec.expr ctx r.definition s g) fun p s' g' =>
        match project fields p with
        | .ok fs =>
          let v := Val.node r.name fs (if flags.position then some (s.off, s'.off) else none)
          runChecks env r.checks v s' g'
        | .error m => some (.panic ("codegen: " ++ m), g')
  | _ => some (.panic "uncompilable: get_fields failed", g)

/-- the grow loop of the `left_recursive` branch of `generate_memoized_body` -/
def growLoop (body : St → Global → Out Val) (key : String × Nat) (s : St) :
    Nat → Res Val → Global → Out Val
  | 0, _, _ => none
  | k+1, best, g =>
    let g := (g.emit (.info "Starting new left recursive loop")).emit (.bodyEval key.1 key.2)
    match body s g with
    | none => none
    | some (.panic m, g') => some (.panic m, g')
    | some (.ok v ns, g') =>
      (match best with
       | .ok _ bs =>
         if ns.isFurtherThan bs then growLoop body key s k (.ok v ns) (g'.insert key (.ok v ns))
         else some (best, g')
       | _ => growLoop body key s k (.ok v ns) (g'.insert key (.ok v ns)))
    | some (.err e, g') =>
      (match best with
       | .ok _ _ => some (best, g')
       | _ => some (.err e, g'.insert key (.err e)))

/-- `generate_memoized_body` -/
def memoBody (flags : RuleFlags) (name : String) (body : St → Global → Out Val) (n : Nat)
    (s : St) (g : Global) : Out Val :=
  let key := (name, s.off)
  if flags.leftRecursive then
    match g.lookup key with
    | some cached => some (cached, g.emit (.info "Cache hit (left recursive)"))
    | none =>
      let best : Res Val := .err (s.reportError .leftRecursionSentinel)
      growLoop body key s n best (g.insert key best)
  else if flags.memoize then
    match g.lookup key with
    | some cached => some (cached, g.emit (.info "Cache hit"))
    | none =>
      match body s (g.emit (.bodyEval name s.off)) with
      | none => none
      | some (.panic m, g') => some (.panic m, g')
      | some (r, g') => some (r, g'.insert key r)
  else body s g

def traceResult (g : Global) : Res Val → Global
  | .ok _ s => g.emit (.traceOk s.off)
  | .err e => g.emit (.traceErr e.spec)
  | .panic _ => g

/-- `Rule::generate_code`: trace start, (cached) body in a closure, trace result -/
def normalRule (env : Env) (rec : Rec) (n : Nat) (r : Rule) (s : St) (g : Global) : Out Val :=
  let g := g.emit (.traceStart r.name s.off)
  match memoBody r.flags r.name (ruleBody env rec r) n s g with
  | none => none
  | some (res, g') => some (res, traceResult g' res)

/-- `CharRule::generate_check_calls`: the first failing check yields the class error -/
def charChecks (env : Env) (name : String) : List (List String) → Char → St → Global → Option PErr × Global
  | [], _, _, g => (none, g)
  | f :: fs, c, s, g =>
    let fname := "::".intercalate f
    let g := g.emit (.charCheckCall fname c)
    if !env.hooks.charCheck fname c then (some (s.reportError (.expectedCharacterClass name)), g)
    else charChecks env name fs c s g

/-- the alternatives of a `@char` rule: first success wins, errors of the parts are dropped -/
def charParts (rec : Rec) (name : String) : List CharRulePart → St → Global → Out Val
  | [], s, g => some (.err (s.reportError (.expectedCharacterClass name)), g)
  | p :: ps, s, g =>
    let r : Out Val := match p with
      | .chr item => (match item.toChar with
        | .ok c => some ((parseCharacterLiteral s c).map .chr, g)
        | _ => some (.panic "uncompilable: char rule literal", g))
      | .range lo hi => (match lo.toChar, hi.toChar with
        | .ok lo, .ok hi => some ((parseCharacterRange s lo hi).map .chr, g)
        | _, _ => some (.panic "uncompilable: char rule range", g))
      | .ident id => rec.rule id s g
    match r with
    | none => none
    | some (.ok v s', g') => some (.ok v s', g')
    | some (.err _, g') => charParts rec name ps s g'
    | some (.panic m, g') => some (.panic m, g')

/-- `CharRule::generate_code` -/
def charRule (env : Env) (rec : Rec) (r : CharRule) (s : St) (g : Global) : Out Val :=
  if r.directives.isEmpty then charParts rec r.name r.choices s g
  else match decodeHead s.rest with
    | none => some (.err (s.reportError (.expectedCharacterClass r.name)), g)
    | some c =>
      match charChecks env r.name r.directives c s g with
      | (some e, g') => some (.err e, g')
      | (none, g') => charParts rec r.name r.choices s g'

/-- `ExternRule::generate_code` -/
def externRule (env : Env) (r : ExternRule) (s : St) (g : Global) : Out Val :=
  let fname := "::".intercalate r.function
  let (res, u) := env.hooks.extern fname s.rest g.uctx
  let g := ({ g with uctx := u }).emit (.externCall fname s.off g.uctx)
  match res with
  | .ok (v, adv) => some (s.advanceSafe adv v, g)
  | .error msg => some (.err (s.reportError (.externRuleFailed msg)), g)

/-- a call of `parse_<name>` inside the generated module -/
def stepRule (env : Env) (rec : Rec) (n : Nat) (name : String) (s : St) (g : Global) : Out Val :=
  match env.g.find name with
  | some (.rule r) => normalRule env rec n r s g
  | some (.charRule r) => charRule env rec r s g
  | some (.externRule r) => externRule env r s g
  | none =>
    if name == "char" then some ((parseChar s).map .chr, g)
    else if name == "Whitespace" then some ((parseWhitespace s).map (fun _ => .unit), g)
    else some (.panic ("uncompilable: undefined rule " ++ name), g)

def step (env : Env) (rec : Rec) (n : Nat) : Rec :=
  { expr := stepExpr env rec n, rule := stepRule env rec n }

def eval (env : Env) : Nat → Rec
  | 0 => { expr := fun _ _ _ _ => none, rule := fun _ _ _ => none }
  | n+1 => step env (eval env n) n

/-- the generated `PegParserAdvanced::parse_advanced`: fresh state, fresh global (empty cache) -/
def parseAdvanced (env : Env) (fuel : Nat) (rule : String) (inp : List UInt8) (uctx : Nat) : Out Val :=
  (eval env fuel).rule rule (St.new inp) (Global.init uctx)

end Peg
