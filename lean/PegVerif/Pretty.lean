import PegVerif.Runtime
/-
  Model of `PrettyParseError::from_parse_error` and of `ParseErrorSpecifics::to_string`
  (runtime/src/error.rs), after fix F2.  The text is a list of characters (a valid `&str`);
  positions are byte offsets.
-/
namespace Peg
namespace Pretty

/-- split the text at the largest character boundary ≤ `pos` (this is `min(len)` followed by the
    `while !is_char_boundary` loop) -/
def splitAtByte : List Char → Nat → List Char × List Char
  | [], _ => ([], [])
  | c :: cs, pos =>
    if c.utf8Size ≤ pos then
      let (a, b) := splitAtByte cs (pos - c.utf8Size)
      (c :: a, b)
    else ([], c :: cs)

/-- the part of `pre` after its last newline (`rfind('\n')`) -/
def afterLastNewline (pre : List Char) : List Char :=
  (pre.reverse.takeWhile (· != '\n')).reverse

/-- `char::is_whitespace` (Unicode White_Space) – what `str::trim_end` removes -/
def isRustWhitespace (c : Char) : Bool :=
  let n := c.toNat
  (9 ≤ n && n ≤ 13) || n == 0x20 || n == 0x85 || n == 0xA0 || n == 0x1680 || (0x2000 ≤ n && n ≤ 0x200A) ||
  n == 0x2028 || n == 0x2029 || n == 0x202F || n == 0x205F || n == 0x3000

def trimEnd (l : List Char) : List Char := (l.reverse.dropWhile isRustWhitespace).reverse

structure Loc where
  /-- 0-based line number = number of newlines before the position -/
  lineno : Nat
  /-- 0-based column in characters from the line start -/
  col : Nat
  /-- the line containing the position, without its newline -/
  line : List Char
deriving Repr, DecidableEq

def locate (text : List Char) (pos : Nat) : Loc :=
  let (pre, post) := splitAtByte text pos
  let linePre := afterLastNewline pre
  { lineno := pre.count '\n', col := linePre.length, line := linePre ++ post.takeWhile (· != '\n') }

/-- `ParseErrorSpecifics::to_string` -/
def message : Spec → String
  | .expectedAnyCharacter => "expected any character (found end of input)"
  | .expectedCharacter c => "expected character '" ++ String.singleton c ++ "'"
  | .expectedCharacterRange a b => "expected character from range '" ++ String.singleton a ++ "'-'" ++ String.singleton b ++ "'"
  | .expectedCharacterClass n => "expected character from character class " ++ n
  | .expectedString s => "expected string \"" ++ String.ofList s ++ "\""
  | .expectedEoi => "expected end of input"
  | .negativeLookaheadFailed => "negative lookahead condition failed"
  | .checkFunctionFailed n => "check function '" ++ n ++ "' failed"
  | .externRuleFailed m => "extern function failed with '" ++ m ++ "'"
  | .leftRecursionSentinel => "Left recursion sentinel reached, will probably retry."
  | .other => "Unknown error. Sorry :("

/-- the Display output (colours off) -/
def render (e : PErr) (text : List Char) (file : Option String) : String :=
  let l := locate text e.pos
  let position := match file with
    | some f => f ++ ":" ++ toString (l.lineno + 1) ++ ":" ++ toString (l.col + 1)
    | none => "Line " ++ toString (l.lineno + 1) ++ " character " ++ toString (l.col + 1)
  message e.spec ++ "\n--> " ++ position ++ "\n |  \n |  " ++ String.ofList (trimEnd l.line) ++ "\n |  " ++
    String.ofList (List.replicate l.col ' ') ++ "^\n"

end Pretty
end Peg
