import PegVerif
import PegVerif.Proofs.Termination
import PegVerif.Proofs.Sentinel
import Driver.Sexp
/-
  `pegclass <case file>`: for every grammar of a case file, which hypotheses of the property theorems it satisfies
  (decided by the compiled definitions the theorems are about).  A separate executable: it imports proof files (the
  definitions of `wfCheck` and `RecFirst` live there), and the model driver `pegverif` must stay buildable when a proof
  about the extracted tables no longer checks.
-/
open Peg Peg.Driver

partial def classLoop (h : IO.FS.Stream) (out : IO.FS.Stream) : IO Unit := do
  let line ← h.getLine
  if line.isEmpty then return ()
  match line.trimAscii.toString.splitOn " " with
  | ["G", id, skip, uctx, _] =>
    let sline ← h.getLine
    match parseSexp sline >>= toGrammar with
    | some g =>
      let settings : Settings := { skipWhitespace := skip == "1", hasUserContext := uctx == "1" }
      let noLeftrec := g.rules.all fun e => match e with | .rule r => !r.flags.leftRecursive | _ => true
      let noMemo := g.rules.all fun e => match e with | .rule r => !r.flags.memoize && !r.flags.leftRecursive | _ => true
      let wf := wfCheck g settings
      let lrok := decide (LROk g settings)
      let recFirst := RecFirst g settings (fun _ => 0) 20
      out.putStrLn s!"{id}\t-1\tCLASS\tnoleftrec={noLeftrec}\tnomemo={noMemo}\twf={wf}\tlrok={lrok}\trecfirst={recFirst}"
    | none => pure ()
    classLoop h out
  | _ => classLoop h out

def main (args : List String) : IO Unit := do
  match args with
  | [file] =>
    let h ← IO.FS.Handle.mk file .read
    classLoop (IO.FS.Stream.ofHandle h) (← IO.getStdout)
  | _ => IO.eprintln "usage: pegclass <case file>"
