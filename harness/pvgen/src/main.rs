//! Drives the real generator: `pvgen gen <list>` / `pvgen ast <list>`.
//! list lines: `<id>\t<ebnf path>\t<out path or ->\t<uctx type or ->\t<derives a,b or - or EMPTY>`
use peginator_codegen::{CodegenGrammar, CodegenSettings, Grammar};
use pvglue::canon::canon;
use std::io::Write;
use std::panic::{catch_unwind, AssertUnwindSafe};
use std::str::FromStr;

fn one(mode: &str, id: &str, path: &str, out: &str, uctx: &str, derives: &str) -> String {
    let text = match std::fs::read_to_string(path) {
        Ok(t) => t,
        Err(e) => return format!("{}\tIOERR\t{}", id, e),
    };
    let r = catch_unwind(AssertUnwindSafe(|| -> String {
        let g = match Grammar::from_str(&text) {
            Ok(g) => g,
            Err(e) => {
                return format!("PARSE_ERR\t{}\t{}", e.position, canon(&format!("{:?}", e.specifics)));
            }
        };
        if mode == "ast" {
            return format!("OK\t{}", canon(&format!("{:?}", g)));
        }
        let mut settings = CodegenSettings::default();
        if uctx != "-" {
            settings.set_user_context_type(uctx);
        }
        if derives == "EMPTY" {
            settings.derives = vec![];
        } else if derives != "-" {
            settings.derives = derives.split(',').map(|s| s.to_string()).collect();
        }
        match g.generate_code(&settings) {
            Ok(code) => {
                if out != "-" {
                    std::fs::write(out, format!("{}", code)).unwrap();
                }
                "OK".to_string()
            }
            Err(e) => format!("GEN_ERR\t{}", format!("{:#}", e).replace('\t', " ").replace('\n', " ")),
        }
    }));
    match r {
        Ok(s) => format!("{}\t{}", id, s),
        Err(e) => {
            let m = if let Some(s) = e.downcast_ref::<&str>() {
                s.to_string()
            } else if let Some(s) = e.downcast_ref::<String>() {
                s.clone()
            } else {
                "?".into()
            };
            format!("{}\tPANIC\t{}", id, m.replace('\t', " ").replace('\n', " "))
        }
    }
}

fn main() {
    std::panic::set_hook(Box::new(|_| {}));
    let args: Vec<String> = std::env::args().collect();
    if args.len() != 3 || (args[1] != "gen" && args[1] != "ast") {
        eprintln!("usage: pvgen gen|ast <listfile>");
        std::process::exit(2);
    }
    let list = std::fs::read_to_string(&args[2]).unwrap();
    let stdout = std::io::stdout();
    let mut o = stdout.lock();
    for line in list.lines() {
        let p: Vec<&str> = line.split('\t').collect();
        if p.len() != 5 {
            continue;
        }
        writeln!(o, "{}", one(&args[1], p[0], p[1], p[2], p[3], p[4])).unwrap();
        o.flush().unwrap();
    }
}
