//! stdin: lines `pretty <hextext> <pos> <hexfile|->`; stdout: `P <hex of Display output>` | `PANIC` (same protocol as pvunit)
use peginator::{ParseError, ParseErrorSpecifics, PrettyParseError};
use std::io::{BufRead, Write};
use std::panic::{catch_unwind, AssertUnwindSafe};

fn unhex(s: &str) -> Option<Vec<u8>> {
    if s == "-" {
        return Some(vec![]);
    }
    if s.len() % 2 != 0 {
        return None;
    }
    (0..s.len() / 2).map(|i| u8::from_str_radix(&s[2 * i..2 * i + 2], 16).ok()).collect()
}

fn main() {
    std::panic::set_hook(Box::new(|_| {}));
    let stdin = std::io::stdin();
    let stdout = std::io::stdout();
    let mut o = stdout.lock();
    for line in stdin.lock().lines() {
        let line = line.unwrap();
        let parts: Vec<&str> = line.trim_end().split(' ').collect();
        if parts.len() < 4 || parts[0] != "pretty" {
            writeln!(o, "BADOP").unwrap();
            continue;
        }
        let text = match unhex(parts[1]).and_then(|b| String::from_utf8(b).ok()) {
            Some(s) => s,
            None => {
                writeln!(o, "BADINPUT").unwrap();
                continue;
            }
        };
        let pos: usize = parts[2].parse().unwrap_or(0);
        let file = if parts[3] == "-" { None } else { Some(String::from_utf8(unhex(parts[3]).unwrap()).unwrap()) };
        let r = catch_unwind(AssertUnwindSafe(|| {
            let e = ParseError { position: pos, specifics: ParseErrorSpecifics::ExpectedEoi };
            format!("{}", PrettyParseError::from_parse_error(&e, &text, file.as_deref()))
        }));
        match r {
            Ok(s) => writeln!(o, "P {}", s.bytes().map(|b| format!("{:02x}", b)).collect::<String>()).unwrap(),
            Err(_) => writeln!(o, "PANIC").unwrap(),
        }
    }
}
