//! In-process unit operations on the real runtime / codegen library:
//!   pvunit unit          (ops on stdin)     – matchers, PrettyParseError, source header
//!   pvunit fs <dir>      – build-script histories in a scratch directory
use peginator::{
    parse_Whitespace, parse_char, parse_character_literal, parse_character_literal_insensitive,
    parse_character_range, parse_end_of_input, parse_string_literal, parse_string_literal_insensitive,
    ParseError, ParseErrorSpecifics, ParseResult, ParseSettings, ParseState, PrettyParseError,
};
use pvglue::canon::{canon, unhex};
use std::io::{BufRead, Write};
use std::panic::{catch_unwind, AssertUnwindSafe};

fn hex(bs: &[u8]) -> String {
    bs.iter().map(|b| format!("{:02x}", b)).collect()
}
fn leak(s: String) -> &'static str {
    Box::leak(s.into_boxed_str())
}
fn cp(s: &str) -> Option<char> {
    char::from_u32(s.parse().ok()?)
}
fn show<T: std::fmt::Debug>(r: ParseResult<T>) -> String {
    match r {
        Ok(ok) => format!("OK {} {}", ok.state.cache_key(), canon(&format!("{:?}", ok.result))),
        Err(e) => format!("ERR {} {}", e.position, canon(&format!("{:?}", e.specifics))),
    }
}

fn matcher(parts: &[&str]) -> String {
    // m <name> <hexinput> <off> <far|-> args…
    if parts.len() < 5 {
        return "BAD".into();
    }
    let input = match unhex(parts[2]).and_then(|b| String::from_utf8(b).ok()) {
        Some(s) => s,
        None => return "BADINPUT".into(),
    };
    let off: usize = parts[3].parse().unwrap_or(0);
    if off > input.len() || !input.is_char_boundary(off) {
        return "BADOFF".into();
    }
    let far: Option<usize> = parts[4].parse().ok();
    let args = &parts[5..];
    let name = parts[1].to_string();
    let r = catch_unwind(AssertUnwindSafe(|| {
        let settings = ParseSettings::default();
        let mut st = ParseState::new(&input, &settings).advance_safe(off);
        if let Some(p) = far {
            st = st.record_error(ParseError { position: p, specifics: ParseErrorSpecifics::Other });
        }
        match name.as_str() {
            "char" => show(parse_char(st, ())),
            "ws" => show(parse_Whitespace(st, ())),
            "eoi" => show(parse_end_of_input(st)),
            "strlit" => show(parse_string_literal(st, leak(String::from_utf8(unhex(args[0]).unwrap()).unwrap()))),
            "strliti" => show(parse_string_literal_insensitive(st, leak(String::from_utf8(unhex(args[0]).unwrap()).unwrap()))),
            "chrlit" => show(parse_character_literal(st, cp(args[0]).unwrap())),
            "chrliti" => show(parse_character_literal_insensitive(st, cp(args[0]).unwrap())),
            "range" => show(parse_character_range(st, cp(args[0]).unwrap(), cp(args[1]).unwrap())),
            _ => "BADMATCHER".into(),
        }
    }));
    match r {
        Ok(s) => s,
        Err(e) => {
            let m = if let Some(s) = e.downcast_ref::<&str>() { s.to_string() } else if let Some(s) = e.downcast_ref::<String>() { s.clone() } else { "?".into() };
            format!("PANIC {}", m)
        }
    }
}

fn pretty(parts: &[&str]) -> String {
    // pretty <hextext> <pos> <hexfile|->  (spec is always ExpectedEoi)
    let text = match unhex(parts[1]).and_then(|b| String::from_utf8(b).ok()) {
        Some(s) => s,
        None => return "BADINPUT".into(),
    };
    let pos: usize = parts[2].parse().unwrap_or(0);
    let file = if parts[3] == "-" { None } else { Some(String::from_utf8(unhex(parts[3]).unwrap()).unwrap()) };
    let r = catch_unwind(AssertUnwindSafe(|| {
        let e = ParseError { position: pos, specifics: ParseErrorSpecifics::ExpectedEoi };
        format!("{}", PrettyParseError::from_parse_error(&e, &text, file.as_deref()))
    }));
    match r {
        Ok(s) => format!("P {}", hex(s.as_bytes())),
        Err(_) => "PANIC".into(),
    }
}

fn header(parts: &[&str]) -> String {
    let text = String::from_utf8(unhex(parts[1]).unwrap()).unwrap();
    let h = peginator_codegen::generate_source_header(&text);
    format!("H {}", hex(h.as_bytes()))
}

fn unit_main() {
    colored::control::set_override(false);
    std::panic::set_hook(Box::new(|_| {}));
    let stdin = std::io::stdin();
    let stdout = std::io::stdout();
    let mut o = stdout.lock();
    for line in stdin.lock().lines() {
        let line = line.unwrap();
        let parts: Vec<&str> = line.trim_end().split(' ').collect();
        let out = match parts[0] {
            "m" => matcher(&parts),
            "pretty" => pretty(&parts),
            "prettyc" => {
                // the same with colours forced on (what `Compile::run_exit_on_error` and terminals use); the styling
                // escape sequences are removed again, the text and its alignment must be the same
                colored::control::set_override(true);
                let r = pretty(&parts);
                colored::control::set_override(false);
                match r.strip_prefix("P ") {
                    Some(h) => {
                        let bytes = unhex(h).unwrap_or_default();
                        let s = String::from_utf8_lossy(&bytes).to_string();
                        let mut out = String::new();
                        let mut it = s.chars().peekable();
                        while let Some(c) = it.next() {
                            if c == '\u{1b}' && it.peek() == Some(&'[') {
                                for d in it.by_ref() {
                                    if d == 'm' {
                                        break;
                                    }
                                }
                            } else {
                                out.push(c);
                            }
                        }
                        format!("P {}", hex(out.as_bytes()))
                    }
                    None => r,
                }
            }
            "hdr" => header(&parts),
            _ => "BADOP".into(),
        };
        writeln!(o, "{}", out).unwrap();
    }
}

fn fnv64(bs: &[u8]) -> u64 {
    let mut h: u64 = 0xcbf29ce484222325;
    for b in bs {
        h = (h ^ (*b as u64)).wrapping_mul(0x100000001b3);
    }
    h
}

/// histories: `H <id> <mode: file|dest|dir|dirlink|dir2|fmt>`, then `G <hex|NONE>`, `P <hex|->`, `D`, `R`;
/// mode `dir2` (two grammar files in one walked tree, `sub/g.ebnf` and `sub/deep/h.ebnf`) also has `G2 <hex>` and `D2`,
/// and its answer is `<id> <k> <res> <hash0> <touched0> <hash1> <touched1> <order in which read_dir lists the two>`
fn fs_main(dir: &str) {
    colored::control::set_override(false);
    std::panic::set_hook(Box::new(|_| {}));
    let hist = std::fs::read_to_string(format!("{}/histories.txt", dir)).unwrap();
    let stdout = std::io::stdout();
    let mut o = stdout.lock();
    let work = format!("{}/work", dir);
    let mut id = String::new();
    let mut mode = String::new();
    let mut prefix = String::new();
    let mut k = 0usize;
    let old = std::time::SystemTime::UNIX_EPOCH + std::time::Duration::from_secs(1_000_000_000);
    for line in hist.lines() {
        let p: Vec<&str> = line.split(' ').collect();
        let src = format!("{}/sub/g.ebnf", work);
        let dst = if mode == "dest" { format!("{}/out/g_out.rs", work) } else { format!("{}/sub/g.rs", work) };
        let src2 = format!("{}/sub/deep/h.ebnf", work);
        let dst2 = format!("{}/sub/deep/h.rs", work);
        match p[0] {
            "G2" => std::fs::write(&src2, unhex(p[1]).unwrap()).unwrap(),
            "D2" => {
                let _ = std::fs::remove_file(&dst2);
            }
            "R" if mode == "dir2" => {
                for d in [&dst, &dst2] {
                    if let Ok(f) = std::fs::OpenOptions::new().write(true).open(d) {
                        let _ = f.set_modified(old);
                    }
                }
                // the order in which the operating system lists `g.ebnf` and `deep` (an environment parameter of the model)
                let names: Vec<String> = std::fs::read_dir(format!("{}/sub", work)).unwrap()
                    .map(|e| e.unwrap().file_name().to_string_lossy().to_string()).collect();
                let pg = names.iter().position(|n| n == "g.ebnf");
                let pd = names.iter().position(|n| n == "deep");
                let ord = match (pg, pd) {
                    (Some(a), Some(b)) if b < a => "10",
                    _ => "01",
                };
                let r = catch_unwind(AssertUnwindSafe(|| {
                    peginator_codegen::Compile::directory(&work).prefix(prefix.clone()).run()
                }));
                let res = match r {
                    Ok(Ok(())) => "OK",
                    Ok(Err(_)) => "ERR",
                    Err(_) => "PANIC",
                };
                let mut cols = String::new();
                for d in [&dst, &dst2] {
                    let after = std::fs::read(d).ok();
                    let touched = match std::fs::metadata(d).and_then(|m| m.modified()) {
                        Ok(t) => t != old,
                        Err(_) => false,
                    };
                    cols.push_str(&format!(" {} {}", after.as_ref().map(|b| format!("{:016x}", fnv64(b))).unwrap_or_else(|| "NONE".into()),
                        if touched { 1 } else { 0 }));
                }
                writeln!(o, "{} {} {}{} {}", id, k, res, cols, ord).unwrap();
                k += 1;
            }
            "H" => {
                id = p[1].to_string();
                mode = p[2].to_string();
                prefix.clear();
                k = 0;
                let _ = std::fs::remove_dir_all(&work);
                let linked = format!("{}/linked", dir);
                let _ = std::fs::remove_dir_all(&linked);
                if mode == "dirlink" {
                    // the grammar directory is reached through a symbolic link (a directory shared between crates)
                    std::fs::create_dir_all(&work).unwrap();
                    std::fs::create_dir_all(&linked).unwrap();
                    std::os::unix::fs::symlink(&linked, format!("{}/sub", work)).unwrap();
                } else {
                    std::fs::create_dir_all(format!("{}/sub", work)).unwrap();
                }
                std::fs::create_dir_all(format!("{}/out", work)).unwrap();
                if mode == "dir2" {
                    std::fs::create_dir_all(format!("{}/sub/deep", work)).unwrap();
                }
                if mode.starts_with("dir") {
                    // bystanders the directory walk must ignore
                    std::fs::write(format!("{}/sub/notes.txt", work), "not a grammar").unwrap();
                    std::fs::create_dir_all(format!("{}/sub/empty.ebnf.d", work)).unwrap();
                    std::fs::write(format!("{}/README", work), "x").unwrap();
                }
            }
            "G" => {
                if p[1] == "NONE" {
                    let _ = std::fs::remove_file(&src);
                } else {
                    std::fs::write(&src, unhex(p[1]).unwrap()).unwrap();
                }
            }
            "P" => prefix = String::from_utf8(unhex(p[1]).unwrap()).unwrap(),
            "D" => {
                let _ = std::fs::remove_file(&dst);
            }
            "R" => {
                // make a rewrite observable even when the content stays the same
                if let Ok(f) = std::fs::OpenOptions::new().write(true).open(&dst) {
                    let _ = f.set_modified(old);
                }
                let before = std::fs::read(&dst).ok();
                let r = catch_unwind(AssertUnwindSafe(|| {
                    let c = match mode.as_str() {
                        "dir" | "dirlink" => peginator_codegen::Compile::directory(&work),
                        "dest" => peginator_codegen::Compile::file(&src).destination(&dst),
                        "fmt" => peginator_codegen::Compile::file(&src).format(),
                        _ => peginator_codegen::Compile::file(&src),
                    };
                    c.prefix(prefix.clone()).run()
                }));
                let after = std::fs::read(&dst).ok();
                let touched = match std::fs::metadata(&dst).and_then(|m| m.modified()) {
                    Ok(t) => t != old,
                    Err(_) => false,
                };
                let res = match r {
                    Ok(Ok(())) => "OK",
                    Ok(Err(_)) => "ERR",
                    Err(_) => "PANIC",
                };
                let _ = before;
                writeln!(o, "{} {} {} {} {}", id, k, res,
                    after.as_ref().map(|b| format!("{:016x}", fnv64(b))).unwrap_or_else(|| "NONE".into()),
                    if touched { 1 } else { 0 }).unwrap();
                k += 1;
            }
            _ => {}
        }
    }
    let _ = std::fs::remove_dir_all(&work);
    let _ = std::fs::remove_dir_all(format!("{}/linked", dir));
}

fn main() {
    let args: Vec<String> = std::env::args().collect();
    if args.len() >= 2 && args[1] == "unit" {
        unit_main();
    } else if args.len() >= 3 && args[1] == "fs" {
        fs_main(&args[2]);
    } else if args.len() >= 6 && args[1] == "compile" {
        // compile <src> <dst> <hexprefix|-> <derives csv|->
        let prefix = String::from_utf8(unhex(&args[4]).unwrap()).unwrap();
        let mut c = peginator_codegen::Compile::file(&args[2]).destination(&args[3]).prefix(prefix);
        // optional 7th argument `uctx-first:<type>` / `uctx-last:<type>`: the builder calls in either order
        let uctx = if args.len() >= 7 { args[6].split_once(':') } else { None };
        if let Some(("uctx-first", ty)) = uctx {
            c = c.user_context_type(ty);
        }
        if args[5] != "-" {
            c = c.derives(args[5].split(',').map(|s| s.to_string()).collect());
        }
        if let Some(("uctx-last", ty)) = uctx {
            c = c.user_context_type(ty);
        }
        if args.len() >= 7 && args[6] == "fmt" {
            c = c.format();
        }
        match c.run() {
            Ok(()) => println!("OK"),
            Err(e) => {
                println!("ERR {}", format!("{:#}", e).replace('\n', " "));
                std::process::exit(1);
            }
        }
    } else {
        eprintln!("usage: pvunit unit | pvunit fs <dir>");
        std::process::exit(2);
    }
}
