//! Thread-local observation log shared by the tracer and the user functions.
use std::cell::RefCell;

thread_local! {
    pub static LOG: RefCell<Vec<String>> = RefCell::new(Vec::new());
    pub static TOTAL_LEN: RefCell<usize> = RefCell::new(0);
    pub static UCTX0: RefCell<u64> = RefCell::new(0);
    pub static ENABLED: RefCell<bool> = RefCell::new(true);
}

pub fn push(s: String) {
    if ENABLED.with(|e| *e.borrow()) {
        LOG.with(|l| l.borrow_mut().push(s));
    }
}
pub fn take() -> Vec<String> {
    LOG.with(|l| std::mem::take(&mut *l.borrow_mut()))
}
pub fn set_input(len: usize, u0: u64) {
    TOTAL_LEN.with(|t| *t.borrow_mut() = len);
    UCTX0.with(|t| *t.borrow_mut() = u0);
}
pub fn offset_of(rest: &str) -> usize {
    TOTAL_LEN.with(|t| *t.borrow()) - rest.len()
}
pub fn uctx0() -> u64 {
    UCTX0.with(|t| *t.borrow())
}
pub fn set_enabled(b: bool) {
    ENABLED.with(|e| *e.borrow_mut() = b);
}
