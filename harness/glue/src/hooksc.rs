//! User functions, two-parameter flavour (`user_context_type`): they count their invocations in
//! the context.  Mirrored in /verif/lean/Driver/HooksLib.lean (module name `hooksc`).
use crate::canon::canon;
use crate::hooks::{cc_impl, chk_impl, ext_impl};
pub use crate::hooks::Num;
use crate::log;
use crate::Ctx;
use std::fmt::Debug;

macro_rules! ext_string {
    ($name:ident) => {
        pub fn $name(s: &str, ctx: &mut Ctx) -> Result<(String, usize), &'static str> {
            let u = ctx.n;
            ctx.n += 1;
            log::push(format!("X:hooksc::{}@{}/{}", stringify!($name), log::offset_of(s), u));
            ext_impl(stringify!($name), s, u).map(|(v, n, _)| (v, n))
        }
    };
}
ext_string!(ext_probe);
ext_string!(ext_ident);
ext_string!(ext_two);
ext_string!(ext_fail);
ext_string!(ext_budget);

pub fn ext_num(s: &str, ctx: &mut Ctx) -> Result<(Num, usize), &'static str> {
    let u = ctx.n;
    ctx.n += 1;
    log::push(format!("X:hooksc::ext_num@{}/{}", log::offset_of(s), u));
    ext_impl("ext_num", s, u).map(|(_, n, v)| (Num(v.unwrap()), n))
}

macro_rules! chk {
    ($name:ident) => {
        pub fn $name<T: Debug>(v: &T, ctx: &mut Ctx) -> bool {
            let u = ctx.n;
            ctx.n += 1;
            let r = canon(&format!("{:?}", v));
            log::push(format!("K:hooksc::{}({})/{}", stringify!($name), r, u));
            chk_impl(stringify!($name), &r, u)
        }
    };
}
chk!(chk_true);
chk!(chk_false);
chk!(chk_hash2);
chk!(chk_hash3);
chk!(chk_budget);

macro_rules! cc {
    ($name:ident) => {
        pub fn $name(c: char) -> bool {
            log::push(format!("C:hooksc::{}({:x})", stringify!($name), c as u32));
            cc_impl(stringify!($name), c)
        }
    };
}
cc!(cc_vowel);
cc!(cc_not_x);
cc!(cc_ascii);
cc!(cc_false);
