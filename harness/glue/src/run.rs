//! Running one exported rule of a generated parser and rendering the observables in the line
//! format the Lean driver prints.
use crate::canon::{atom_str, canon, unhex};
use crate::log;
use crate::tracer::LogTracer;
use crate::Ctx;
use peginator::{NoopTracer, ParseError, ParseSettings, PegParserAdvanced};
use std::fmt::Debug;
use std::io::{BufRead, Write};
use std::panic::{catch_unwind, AssertUnwindSafe};

fn panic_msg(e: Box<dyn std::any::Any + Send>) -> String {
    if let Some(s) = e.downcast_ref::<&str>() {
        s.to_string()
    } else if let Some(s) = e.downcast_ref::<String>() {
        s.clone()
    } else {
        "?".to_string()
    }
}

fn boundary_note(input: &str, offs: &[usize]) -> String {
    for o in offs {
        if !input.is_char_boundary(*o) {
            return format!("\tNONBOUNDARY:{}", o);
        }
    }
    String::new()
}

fn render<T: Debug>(input: &str, r: Result<Result<T, ParseError>, String>, uctx: u64, plain: Option<String>) -> String {
    let logv = log::take();
    let end = logv
        .iter()
        .rev()
        .find_map(|l| l.strip_prefix("O:").map(|s| s.to_string()))
        .unwrap_or_else(|| "-".into());
    let logs = logv.join(";");
    // every offset seen in the log must be a char boundary of the input
    let mut offs: Vec<usize> = Vec::new();
    for l in &logv {
        if let Some(r) = l.strip_prefix("O:") {
            if let Ok(v) = r.parse() { offs.push(v) }
        } else if l.starts_with("S:") {
            if let Some(p) = l.rfind('@') {
                if let Ok(v) = l[p + 1..].parse() { offs.push(v) }
            }
        }
    }
    match r {
        Ok(Ok(v)) => {
            let tree = canon(&format!("{:?}", v));
            let same = match plain { Some(p) => if p == format!("OK {}", tree) { "" } else { "\tTRACEDIFF" }, None => "" };
            format!("OK\t{}\t{}\t{}\t\t{}{}{}", tree, end, logs, uctx, boundary_note(input, &offs), same)
        }
        Ok(Err(e)) => {
            offs.push(e.position);
            let spec = canon(&format!("{:?}", e.specifics));
            let same = match plain { Some(p) => if p.starts_with("ERR") { "" } else { "\tTRACEDIFF" }, None => "" };
            format!("ERR\t{}\t{}\t{}\t\t{}{}{}", e.position, spec, logs, uctx, boundary_note(input, &offs), same)
        }
        Err(m) => format!("PANIC\t{}\t\t{}\t\t{}", m.replace('\t', " ").replace('\n', " "), logs, uctx),
    }
}

/// run a rule of a grammar compiled without user context
pub fn run<T: PegParserAdvanced<()> + Debug>(input: &str, u0: u64) -> String {
    // plain run first (NoopTracer), hooks not logged
    log::set_input(input.len(), u0);
    log::set_enabled(false);
    let plain = catch_unwind(AssertUnwindSafe(|| T::parse_advanced::<NoopTracer>(input, &ParseSettings::default(), ())));
    let plain_s = match plain {
        Ok(Ok(v)) => Some(format!("OK {}", canon(&format!("{:?}", v)))),
        Ok(Err(_)) => Some("ERR".to_string()),
        Err(_) => None,
    };
    log::set_enabled(true);
    log::take();
    let r = catch_unwind(AssertUnwindSafe(|| T::parse_advanced::<LogTracer>(input, &ParseSettings::default(), ())));
    let mut tracediff = false;
    if std::env::var("PV_INDENTED").is_ok() {
        // the shipped tracer (what `parse_with_trace` uses; it prints to stderr): same result as the plain parse
        log::set_enabled(false);
        // through the public entry point `PegParser::parse_with_trace` (what users call), not `parse_advanced` directly
        let t = catch_unwind(AssertUnwindSafe(|| <T as peginator::PegParser>::parse_with_trace(input)));
        log::set_enabled(true);
        let t_s = match t {
            Ok(Ok(v)) => Some(format!("OK {}", canon(&format!("{:?}", v)))),
            Ok(Err(_)) => Some("ERR".to_string()),
            Err(_) => None,
        };
        if t_s.is_none() && plain_s.is_some() {
            log::take();
            return format!("PANIC\tparse_with_trace (IndentedTracer) panicked, the plain parse did not\t\t\t\t{}", u0);
        }
        tracediff = t_s != plain_s;
    }
    let mut line = render(input, r.map_err(panic_msg), u0, plain_s);
    if tracediff && !line.contains("TRACEDIFF") {
        line.push_str("\tTRACEDIFF");
    }
    line
}

/// run a rule of a grammar compiled with `user_context_type = pvglue::Ctx`
pub fn run_ctx<T: for<'a> PegParserAdvanced<&'a mut Ctx> + Debug>(input: &str, u0: u64) -> String {
    log::set_input(input.len(), u0);
    log::take();
    let mut ctx = Ctx { n: u0 };
    let r = catch_unwind(AssertUnwindSafe(|| T::parse_advanced::<LogTracer>(input, &ParseSettings::default(), &mut ctx)));
    render(input, r.map_err(panic_msg), ctx.n, None)
}

/// stdin: the case file (`G <id> …`, sexp line, `I <rule> <hex> <uctx>` lines)
pub fn main_loop(dispatch: fn(&str, &str, &str, u64) -> Option<String>) {
    std::panic::set_hook(Box::new(|_| {}));
    let stdin = std::io::stdin();
    let stdout = std::io::stdout();
    let mut out = stdout.lock();
    let mut case = String::new();
    let mut idx = 0usize;
    let mut skip_next = false;
    let history = std::env::var("PV_HISTORY").is_ok();
    let mut records: Vec<(String, usize, String, String, u64, String)> = Vec::new();
    for line in stdin.lock().lines() {
        let line = line.unwrap();
        if skip_next {
            skip_next = false;
            continue;
        }
        let parts: Vec<&str> = line.trim_end().split(' ').collect();
        if parts.len() == 5 && parts[0] == "G" {
            case = parts[1].to_string();
            idx = 0;
            skip_next = true; // the sexp line
        } else if parts.len() == 4 && parts[0] == "I" {
            let rule = atom_str(parts[1]);
            let u: u64 = parts[3].parse().unwrap_or(0);
            let res = match unhex(parts[2]).and_then(|b| String::from_utf8(b).ok()) {
                None => "BADINPUT".to_string(),
                Some(input) => match dispatch(&case, &rule, &input, u) {
                    Some(s) => {
                        if history {
                            records.push((case.clone(), idx, rule.clone(), input.clone(), u, s.clone()));
                        }
                        s
                    }
                    None => "NORULE".to_string(),
                },
            };
            writeln!(out, "{}\t{}\t{}", case, idx, res).unwrap();
            out.flush().unwrap();
            idx += 1;
        }
    }
    if history {
        history_check(dispatch, &records, &mut out);
    }
}

fn lcg(x: &mut u64) -> u64 {
    *x = x.wrapping_mul(6364136223846793005).wrapping_add(1442695040888963407);
    *x >> 33
}

/// C20: every input again, in another order, after all the others; then all of them from 16 threads
/// with randomised yields.  Each re-execution must reproduce the first result exactly.
fn history_check<W: Write>(
    dispatch: fn(&str, &str, &str, u64) -> Option<String>,
    records: &[(String, usize, String, String, u64, String)],
    out: &mut W,
) {
    let seed: u64 = std::env::var("PV_SEED").ok().and_then(|s| s.parse().ok()).unwrap_or(1);
    let mut rng = seed ^ 0x9e3779b97f4a7c15;
    let n = records.len();
    let mut order: Vec<usize> = (0..n).collect();
    for i in (1..n).rev() {
        let j = (lcg(&mut rng) as usize) % (i + 1);
        order.swap(i, j);
    }
    let mut seq_runs = 0usize;
    let mut diffs: Vec<String> = Vec::new();
    // a user function that panics in the middle of a (traced) parse on some thread must not change what later parses
    // return: make the next extern calls panic for a few parses, then switch that off and re-execute everything
    {
        crate::hooks::PANIC_NOW.store(true, std::sync::atomic::Ordering::SeqCst);
        let mut hit = 0usize;
        for r in records.iter().filter(|r| r.5.contains("X:")).take(40) {
            let rr = (r.0.clone(), r.2.clone(), r.3.clone(), r.4);
            let h = std::thread::spawn(move || dispatch(&rr.0, &rr.1, &rr.2, rr.3).unwrap_or_default());
            if let Ok(s) = h.join() {
                if s.starts_with("PANIC") {
                    hit += 1;
                }
            }
            if hit >= 3 {
                break;
            }
        }
        crate::hooks::PANIC_NOW.store(false, std::sync::atomic::Ordering::SeqCst);
        crate::log::take();
        writeln!(out, "#HP\t{}", hit).unwrap();
    }
    for (n_exec, &k) in order.iter().chain(order.iter().rev()).enumerate() {
        let r = &records[k];
        // the same text at another address (and another alignment): a slice of a larger buffer
        let pad = n_exec % 8;
        let buf = format!("{}{}", "#".repeat(pad), r.3);
        let got = dispatch(&r.0, &r.2, &buf[pad..], r.4).unwrap_or_default();
        seq_runs += 1;
        if got != r.5 {
            diffs.push(format!("#HD\t{}\t{}\tsequential\t{}", r.0, r.1, got.replace('\t', " | ")));
        }
    }
    let threads = 16usize;
    let thr_diffs = std::sync::Mutex::new(Vec::<String>::new());
    let thr_runs = std::sync::atomic::AtomicUsize::new(0);
    std::thread::scope(|sc| {
        for t in 0..threads {
            let thr_diffs = &thr_diffs;
            let thr_runs = &thr_runs;
            sc.spawn(move || {
                let mut rng = seed.wrapping_add(t as u64 * 7919) ^ 0xdeadbeef;
                // every thread takes a random half of all records, in its own order, so that the same
                // grammar (and the same input) is parsed by several threads at once
                let mut mine: Vec<usize> = (0..n).filter(|_| lcg(&mut rng) % 2 == 0).collect();
                for i in (1..mine.len()).rev() {
                    let j = (lcg(&mut rng) as usize) % (i + 1);
                    mine.swap(i, j);
                }
                for k in mine {
                    if lcg(&mut rng) % 4 == 0 {
                        std::thread::yield_now();
                    }
                    let r = &records[k];
                    let got = dispatch(&r.0, &r.2, &r.3, r.4).unwrap_or_default();
                    thr_runs.fetch_add(1, std::sync::atomic::Ordering::Relaxed);
                    if got != r.5 {
                        thr_diffs.lock().unwrap().push(format!("#HD\t{}\t{}\tthread{}\t{}", r.0, r.1, t, got.replace('\t', " | ")));
                    }
                }
            });
        }
    });
    diffs.extend(thr_diffs.into_inner().unwrap());
    writeln!(out, "#H\t{}\t{}\t{}\t{}", n, seq_runs, thr_runs.load(std::sync::atomic::Ordering::Relaxed), diffs.len()).unwrap();
    for d in diffs.iter().take(50) {
        writeln!(out, "{}", d).unwrap();
    }
}
