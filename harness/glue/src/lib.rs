pub mod canon;
pub mod hooks;
pub mod hooksc;
pub mod log;
pub mod run;
pub mod tracer;

/// the user context type of the `user_context_type` configuration
#[derive(Debug, Clone, PartialEq, Eq)]
pub struct Ctx {
    pub n: u64,
}
