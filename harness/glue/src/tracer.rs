use crate::canon::canon;
use crate::log;
use peginator::{ParseResult, ParseState, ParseTracer};

/// A custom tracer that records every callback.
#[derive(Debug, Clone, Copy)]
pub struct LogTracer;

impl ParseTracer for LogTracer {
    fn print_informative(&mut self, s: &str) {
        log::push(format!("I:{}", s));
    }
    fn print_trace_start(&mut self, state: &ParseState, name: &str) {
        log::push(format!("S:{}@{}", name, state.cache_key()));
    }
    fn print_trace_result<T>(&mut self, result: &ParseResult<T>) {
        match result {
            Ok(ok) => log::push(format!("O:{}", ok.state.cache_key())),
            Err(e) => log::push(format!("E:{}", canon(&format!("{:?}", e.specifics)))),
        }
    }
    fn new() -> Self {
        LogTracer
    }
}
