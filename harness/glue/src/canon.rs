//! Canonicalisation of Rust `{:?}` output: string literals become `S"<hex of utf-8>"`, char
//! literals `C'<hex code point>'`; everything else is copied.  The Lean model renders its values
//! in exactly this form.

fn hex_bytes(bs: &[u8]) -> String {
    let mut s = String::with_capacity(bs.len() * 2);
    for b in bs {
        s.push_str(&format!("{:02x}", b));
    }
    s
}

/// Parse the body of a Rust string/char literal starting after the opening quote.
/// Returns the decoded chars and the index after the closing quote.
fn read_literal(cs: &[char], mut i: usize, quote: char) -> (Vec<char>, usize) {
    let mut out = Vec::new();
    while i < cs.len() {
        let c = cs[i];
        if c == quote {
            return (out, i + 1);
        }
        if c == '\\' {
            i += 1;
            let e = cs[i];
            match e {
                'n' => out.push('\n'),
                'r' => out.push('\r'),
                't' => out.push('\t'),
                '0' => out.push('\0'),
                '\\' => out.push('\\'),
                '\'' => out.push('\''),
                '"' => out.push('"'),
                'u' => {
                    // \u{XXXX}
                    i += 2;
                    let mut v: u32 = 0;
                    while cs[i] != '}' {
                        v = v * 16 + cs[i].to_digit(16).unwrap();
                        i += 1;
                    }
                    out.push(char::from_u32(v).unwrap());
                }
                other => out.push(other),
            }
            i += 1;
        } else {
            out.push(c);
            i += 1;
        }
    }
    (out, i)
}

pub fn canon(debug: &str) -> String {
    let cs: Vec<char> = debug.chars().collect();
    let mut out = String::new();
    let mut i = 0;
    while i < cs.len() {
        let c = cs[i];
        if c == '"' {
            let (lit, j) = read_literal(&cs, i + 1, '"');
            let s: String = lit.into_iter().collect();
            out.push_str("S\"");
            out.push_str(&hex_bytes(s.as_bytes()));
            out.push('"');
            i = j;
        } else if c == '\'' {
            let (lit, j) = read_literal(&cs, i + 1, '\'');
            out.push_str("C'");
            out.push_str(&format!("{:x}", lit[0] as u32));
            out.push('\'');
            i = j;
        } else {
            out.push(c);
            i += 1;
        }
    }
    out
}

pub fn unhex(s: &str) -> Option<Vec<u8>> {
    if s == "-" {
        return Some(Vec::new());
    }
    if s.len() % 2 != 0 {
        return None;
    }
    (0..s.len() / 2)
        .map(|i| u8::from_str_radix(&s[2 * i..2 * i + 2], 16).ok())
        .collect()
}

/// decode an atom of the case files (`#<hex>` = hex-encoded utf-8)
pub fn atom_str(s: &str) -> String {
    if let Some(h) = s.strip_prefix('#') {
        if let Some(bs) = unhex(if h.is_empty() { "-" } else { h }) {
            if let Ok(s) = String::from_utf8(bs) {
                return s;
            }
        }
    }
    s.to_string()
}

pub fn fnv1a(bs: &[u8]) -> u32 {
    let mut h: u32 = 2166136261;
    for b in bs {
        h = (h ^ (*b as u32)).wrapping_mul(16777619);
    }
    h
}
