//! User functions (one-parameter flavour).  Mirrored in /verif/lean/Driver/HooksLib.lean.
use crate::canon::{canon, fnv1a};
use crate::log;
use std::fmt::Debug;

#[derive(Debug, Clone, PartialEq, Eq)]
pub struct Num(pub u64);

/// set by the history re-execution (run.rs): the next extern call panics, as a buggy user function would
pub static PANIC_NOW: std::sync::atomic::AtomicBool = std::sync::atomic::AtomicBool::new(false);

pub(crate) fn ext_impl(f: &str, s: &str, u: u64) -> Result<(String, usize, Option<u64>), &'static str> {
    if PANIC_NOW.load(std::sync::atomic::Ordering::SeqCst) {
        panic!("probe: user function panicked");
    }
    match f {
        "ext_probe" => Ok((String::new(), 0, None)),
        "ext_ident" => {
            let n = s.bytes().take_while(|b| (97..=122).contains(b)).count();
            if n == 0 { Err("no ident") } else { Ok((s[..n].to_string(), n, None)) }
        }
        "ext_two" => {
            let mut it = s.chars();
            match (it.next(), it.next()) {
                (Some(a), Some(b)) => {
                    let n = a.len_utf8() + b.len_utf8();
                    Ok((s[..n].to_string(), n, None))
                }
                _ => Err("short"),
            }
        }
        "ext_fail" => Err("always"),
        "ext_num" => {
            let n = s.bytes().take_while(|b| (48..=57).contains(b)).count();
            if n == 0 || n > 9 { Err("no num") } else { Ok((String::new(), n, Some(s[..n].parse().unwrap()))) }
        }
        "ext_budget" => match s.bytes().next() {
            Some(b) if (97..=122).contains(&b) && u < 3 => Ok((s[..1].to_string(), 1, None)),
            _ => Err("budget"),
        },
        _ => Err("unknown extern"),
    }
}

pub(crate) fn chk_impl(f: &str, rendered: &str, u: u64) -> bool {
    match f {
        "chk_true" => true,
        "chk_false" => false,
        "chk_hash2" => fnv1a(rendered.as_bytes()) % 2 == 0,
        "chk_hash3" => fnv1a(rendered.as_bytes()) % 3 != 0,
        "chk_budget" => u < 4,
        _ => true,
    }
}

pub(crate) fn cc_impl(f: &str, c: char) -> bool {
    match f {
        "cc_vowel" => "aeiouAEIOU".contains(c),
        "cc_not_x" => c != 'x',
        "cc_ascii" => (c as u32) < 128,
        "cc_false" => false,
        _ => true,
    }
}

macro_rules! ext_string {
    ($name:ident) => {
        pub fn $name(s: &str) -> Result<(String, usize), &'static str> {
            let u = log::uctx0();
            log::push(format!("X:hooks::{}@{}/{}", stringify!($name), log::offset_of(s), u));
            ext_impl(stringify!($name), s, u).map(|(v, n, _)| (v, n))
        }
    };
}
ext_string!(ext_probe);
ext_string!(ext_ident);
ext_string!(ext_two);
ext_string!(ext_fail);
ext_string!(ext_budget);

pub fn ext_num(s: &str) -> Result<(Num, usize), &'static str> {
    let u = log::uctx0();
    log::push(format!("X:hooks::ext_num@{}/{}", log::offset_of(s), u));
    ext_impl("ext_num", s, u).map(|(_, n, v)| (Num(v.unwrap()), n))
}

macro_rules! chk {
    ($name:ident) => {
        pub fn $name<T: Debug>(v: &T) -> bool {
            let u = log::uctx0();
            let r = canon(&format!("{:?}", v));
            log::push(format!("K:hooks::{}({})/{}", stringify!($name), r, u));
            chk_impl(stringify!($name), &r, u)
        }
    };
}
chk!(chk_true);
chk!(chk_false);
chk!(chk_hash2);
chk!(chk_hash3);
chk!(chk_budget);

macro_rules! cc {
    ($name:ident) => {
        pub fn $name(c: char) -> bool {
            log::push(format!("C:hooks::{}({:x})", stringify!($name), c as u32));
            cc_impl(stringify!($name), c)
        }
    };
}
cc!(cc_vowel);
cc!(cc_not_x);
cc!(cc_ascii);
cc!(cc_false);
