#!/usr/bin/env python3
"""Confirm a seeded change and run the checks against it.

  tools/verify_seeded.py <src dir containing patch.diff, demo/, meta.json> <property id> <name> [check ids…]

1. scratch worktree of /repo HEAD (outside /repo and /verif): apply the patch, force regeneration of the test crate's
   parsers, run the repository's test-suite (must pass), run demo/run.sh against it (must fail);
   undo the patch there, run demo/run.sh again (must pass); remove the worktree with its build output.
2. apply the patch to /repo, run the listed checks (default: the property's own check, then every other registered
   check if that one stays silent), undo it straight afterwards.
3. keep the change as /verif/seeded/<name>/ (patch.diff, demo/, meta.json with what was run and which checks caught it).
"""
import json
import os
import shutil
import subprocess
import sys
import time

VERIF = '/verif'
REPO = '/repo'


def sh(cmd, cwd=None, timeout=3600, env=None):
    p = subprocess.run(cmd, cwd=cwd, shell=isinstance(cmd, str), stdout=subprocess.PIPE, stderr=subprocess.STDOUT, text=True,
                       timeout=timeout, env=env)
    return p.returncode, p.stdout


def main():
    if sys.argv[1] == '--cleanup':
        sh('git -C %s worktree remove --force /tmp/vs_wt' % REPO)
        shutil.rmtree('/tmp/vs_wt', ignore_errors=True)
        return 0
    src, pid, name = sys.argv[1], sys.argv[2], sys.argv[3]
    only = sys.argv[4:]
    patch = os.path.join(src, 'patch.diff')
    meta = json.load(open(os.path.join(src, 'meta.json'))) if os.path.exists(os.path.join(src, 'meta.json')) else {}
    report = dict(property=pid, name=name, source_meta=meta, steps=[])
    # one scratch worktree (outside /repo and /verif) reused across seeded changes so that cargo rebuilds
    # incrementally; `tools/verify_seeded.py --cleanup` removes it with its build output
    wt = '/tmp/vs_wt'
    if os.path.isdir(os.path.join(wt, '.git')) or os.path.isfile(os.path.join(wt, '.git')):
        sh('git checkout -q --detach %s && git checkout -- . && git clean -fdq -e target' % sh('git -C %s rev-parse HEAD' % REPO)[1].strip(), cwd=wt)
    else:
        shutil.rmtree(wt, ignore_errors=True)
        rc, out = sh('git -C %s worktree add --detach %s HEAD' % (REPO, wt))
        assert rc == 0, out
    env = dict(os.environ, CARGO_NET_OFFLINE='true', CARGO_TARGET_DIR=os.path.join(wt, 'target'))
    confirmed = False
    try:
        rc, out = sh('git apply %s' % patch, cwd=wt)
        report['steps'].append(dict(step='git apply in scratch worktree', rc=rc, out=out[-300:]))
        if rc != 0:
            raise RuntimeError('patch does not apply: ' + out)
        sh('find test/src -name grammar.rs -delete; touch test/build.rs', cwd=wt)
        rc, out = sh('cargo test --workspace --no-fail-fast --offline 2>&1 | grep -E "^test result|FAILED|^error" ', cwd=wt, env=env)
        failed = [l for l in out.splitlines() if ('FAILED' in l or l.startswith('error')) or (l.startswith('test result') and ' 0 failed' not in l)]
        passed = sum(int(l.split(' passed')[0].split()[-1]) for l in out.splitlines() if l.startswith('test result'))
        report['steps'].append(dict(step='existing test-suite with the change (generated test parsers regenerated)', passed=passed, failed=failed[:5]))
        suite_ok = not failed and passed >= 65
        # run the demonstration from a scratch copy whose path dependencies point at the scratch worktree
        dcopy = '/tmp/vsdemo_%s' % name
        shutil.rmtree(dcopy, ignore_errors=True)
        shutil.copytree(os.path.join(src, 'demo'), dcopy, ignore=shutil.ignore_patterns('target'))
        import re
        for root, dirs, files in os.walk(dcopy):
            for f in files:
                if f.endswith(('.toml', '.in', '.rs', '.sh', '.md', '.lock')) and f != 'Cargo.lock':
                    fp = os.path.join(root, f)
                    t = open(fp).read()
                    t2 = re.sub(r'/tmp/wt/C\d\d', wt, t)
                    if t2 != t:
                        open(fp, 'w').write(t2)
        denv = dict(env, CARGO_TARGET_DIR=os.path.join(dcopy, 'target'))
        if os.path.exists(os.path.join(dcopy, 'run.sh')):
            demo_cmd = 'bash run.sh %s' % wt
        else:
            demo_cmd = 'cargo run --offline -q'
        if not os.path.exists(os.path.join(dcopy, 'Cargo.lock')) and os.path.exists(os.path.join(dcopy, 'Cargo.toml')):
            shutil.copy(os.path.join(REPO, 'Cargo.lock'), os.path.join(dcopy, 'Cargo.lock'))
        rc_mut, out_mut = sh(demo_cmd, cwd=dcopy, env=denv, timeout=1800)
        report['steps'].append(dict(step='demo with the change (%s)' % demo_cmd, rc=rc_mut, tail=out_mut[-400:]))
        sh('git checkout -- . && git clean -fdq -e target', cwd=wt)
        sh('find test/src -name grammar.rs -delete; touch test/build.rs', cwd=wt)
        rc_clean, out_clean = sh(demo_cmd, cwd=dcopy, env=denv, timeout=1800)
        report['steps'].append(dict(step='demo without the change', rc=rc_clean, tail=out_clean[-300:]))
        shutil.rmtree(dcopy, ignore_errors=True)
        confirmed = suite_ok and rc_mut != 0 and rc_clean == 0
        report['confirmed'] = confirmed
    finally:
        sh('git checkout -- . && git clean -fdq -e target', cwd=wt)
        shutil.rmtree(os.path.join(src, 'demo', 'target'), ignore_errors=True)
        shutil.rmtree('/tmp/vsdemo_%s' % name, ignore_errors=True)
    print('confirmed:', confirmed, json.dumps(report['steps'], indent=1)[:1500])
    if not confirmed:
        json.dump(report, open(os.path.join(src, 'verify_report.json'), 'w'), indent=1)
        return 1
    # ---- run the checks against it
    manifest = json.load(open(os.path.join(VERIF, 'MANIFEST.json')))
    all_ids = [c['property_id'] for c in manifest['checks']]
    caught = {}
    rc, out = sh('git -C %s status --porcelain' % REPO)
    assert out.strip() == '', '/repo is not clean: ' + out
    try:
        rc, out = sh('git -C %s apply %s' % (REPO, patch))
        assert rc == 0, out
        order = only or ([pid] if pid in all_ids else []) + [i for i in all_ids if i != pid]
        for cid in order:
            t0 = time.time()
            # the property's own check runs in full (directed search for a failing input included); the other checks
            # skip that search (VERIF_NO_SEARCH): they still report failing inputs found in their quick tier
            cenv = dict(os.environ) if cid == pid else dict(os.environ, VERIF_NO_SEARCH='1')
            rc, out = sh('tools/check %s quick' % cid, cwd=VERIF, timeout=3600, env=cenv)
            viol = [l for l in out.splitlines() if l.startswith('VIOLATION')]
            caught[cid] = dict(rc=rc, violation=viol[:2], wall_s=round(time.time() - t0, 1))
            print(cid, rc, viol[:1], round(time.time() - t0, 1), flush=True)
            # keep a copy of the first replay of a catching check
            if viol and 'replay=' in viol[0] and 'first_replay' not in report:
                rp = viol[0].split('replay=')[1].split()[0]
                if os.path.exists(rp):
                    report['first_replay'] = json.load(open(rp))
                    report['first_replay_check'] = cid
    finally:
        sh('git -C %s checkout -- .' % REPO)
        sh('git -C %s clean -fdq' % REPO)       # files a patch added (ignored build outputs stay)
        rc, out = sh('git -C %s status --porcelain' % REPO)
        assert out.strip() == '', 'could not restore /repo: ' + out
        # the evidence / replay files written while the change was applied are not evidence for the unchanged tree
        sh('git -C %s checkout -- evidence' % VERIF)
        sh('git -C %s clean -fdq replays' % VERIF)
    dst = os.path.join(VERIF, 'seeded', name)
    if only and os.path.exists(os.path.join(dst, 'meta.json')):
        # re-run of some checks (after strengthening them): keep the recorded results of the others
        prev = json.load(open(os.path.join(dst, 'meta.json')))
        history = prev.get('earlier_runs', [])
        for cid in only:
            if cid in prev.get('checks_run', {}):
                history.append({cid: prev['checks_run'][cid]})
        merged = dict(prev.get('checks_run', {}))
        merged.update(caught)
        caught = merged
        report['earlier_runs'] = history
    report['checks'] = caught
    report['caught_by'] = [c for c, v in caught.items() if v['rc'] != 0]
    shutil.rmtree(dst, ignore_errors=True)
    os.makedirs(dst)
    shutil.copy(patch, os.path.join(dst, 'patch.diff'))
    shutil.copytree(os.path.join(src, 'demo'), os.path.join(dst, 'demo'), ignore=shutil.ignore_patterns('target', 'Cargo.lock'))
    rp = report.pop('first_replay', None)
    if rp is not None:
        json.dump(rp, open(os.path.join(dst, 'replay_from_check.json'), 'w'), indent=1, default=str)
    m = dict(breaks_property=pid, summary=meta.get('summary'), mechanism=meta.get('mechanism'),
             needs_to_manifest=meta.get('needs_to_manifest'), confirmed_by=report['steps'],
             checks_run=caught, caught_by=report['caught_by'], first_replay_check=report.get('first_replay_check'))
    if report.get('earlier_runs'):
        m['earlier_runs'] = report['earlier_runs']
    json.dump(m, open(os.path.join(dst, 'meta.json'), 'w'), indent=1)
    print('caught by:', report['caught_by'])
    return 0


if __name__ == '__main__':
    sys.exit(main())
