#!/usr/bin/env python3
"""Regenerates /verif/MANIFEST.json from the table below (single source for the claims)."""
import json
import os

IDS = [json.loads(l)['id'] for l in open('/verif/properties.jsonl')]
NOTE = ('Trusted: Lean 4.33 kernel with axioms propext, Classical.choice, Quot.sound only (audited by #print axioms on every run; no sorry/admit/native_decide/bv_decide); '
        'the hand-written Lean model (modelled rather than verified: runtime/ and the codegen templates), tied to /repo by the correspondence run of the same check and by tables re-extracted from the Rust source (tools/extract.py); '
        'the Rust harness (glue, Debug canonicaliser, hook library duplicated in Rust and Lean), python orchestration, rustc/cargo.')

CLAIMS = {
    'C01': dict(engine='pegdiff', ref='6 C01',
                text='Lean theorems: C01_sound / C01_sound_expr (the model of the generated parser, with any memo set, computes the answer of the reference PEG semantics Spec.eval: acceptance, tree, consumed bytes, for every grammar, rule, input), C01_complete (converse), C01_unique (the PEG answer is unique), C01_exactly_the_peg_language (the functional reference = the big-step PEG relation Sem, one constructor per rule), C01_terminates / C01_terminates_impl (every grammar passing the decidable well-formedness check wfCheck – refs defined, no include cycle, no closure over a nullable body, a rank decreasing along left-call edges – answers every rule on every input; grammar.ebnf as extracted passes it), C01_sound_leftrec / C01_complete_leftrec / C01_iff_leftrec (grammars with @leftrec rules in the decidable class LROk: the model answers exactly what the reference semantics with left recursion SpecLR answers), the PEG laws of Spec, terminal readings of every matcher at character level (Boundary.lean). Tie: pegdiff correspondence on generated grammars/inputs + exhaustive matcher table.',
                tech='Lean 4 refinement proof (model of generated parser = PEG reference semantics, both directions) + differential correspondence'),
    'C04': dict(engine='pegdiff+unitdiff', ref='6 C04',
                text='Lean theorems: eval_boundary / C04_no_runtime_panic / C04_offsets_on_boundaries / C04_values_on_boundaries for the whole evaluator (every state, error position, @position range and @string slice is on a UTF-8 boundary inside the input; advance never overruns), per-matcher boundary theorems, necessity of the ASCII guard. Tie: pegdiff with cfg assertion in advance + is_char_boundary on all observed offsets; exhaustive matcher table.',
                tech='Lean 4 invariant proof (UTF-8 boundary invariant over the whole evaluator) + differential correspondence with guarded assertion'),
    'C05': dict(engine='pegdiff', ref='6 C05',
                text='Lean theorem C05_transparent: any two sets of @memoize rules give the same acceptance, tree and consumed bytes for every grammar/rule/input (cache invariant CacheOk + refinement to the memo-free reference semantics + setMemo invariance); C05_fresh; C05_transparent_with_leftrec (grammars that also have @leftrec rules, memo markers outside the cycles, class LROk: both variants refine SpecLR). Tie: pegdiff memo family (4 variants per grammar, impl-vs-impl and impl-vs-model) incl. directed groups: a @check-ed rule revisited at one offset, a rule reached at one offset from skipping and non-skipping callers.',
                tech='Lean 4 proof: cache invariant + refinement + determinism of the reference semantics; differential memo variants'),
    'C07': dict(engine='pegdiff', ref='6 C07, 13.2',
                text='Lean theorems: C07_terminates (the grow loop needs at most remaining-length + 2 iterations; progress and the offset bound are proved for the real rule body), C07_longest_growth (the answer is the last element of a strictly growing chain of body results), C07_direct (shape A = A x | b: left-nested tree after exactly m+2 body evaluations, from semantic hypotheses), C07_usual_shape (the same from the SYNTAX of the grammar: rule A = l:*A xs | base…, xs/base reach no @memoize/@leftrec rule; greedy iteration stated in the reference semantics; each extension holds the previous result), C07_result_is_the_growth (for the class LROk = the quantifier of the property, the model computes the answer of SpecLR, the reference semantics with the documented growth meaning of @leftrec), C07_extension_holds_previous, C07_seed_replaced. Tie: pegdiff leftrec family (six shapes incl. nullable base alternatives, failing inputs, wrapper calling the rule twice at one offset) with a watchdog + an independent regex oracle for the usual shape (b x* greedy, nesting depth). Known finding K4 (leading whitespace before a @leftrec rule; proved at model level).',
                tech='Lean 4 proofs about the seed-and-grow loop (progress measure, run relation, shape lemma) + differential correspondence'),
    'C09': dict(engine='pegdiff', ref='6 C09',
                text='Lean theorems: C09_range (range = entry/exit offsets, @string slice, also on cache hits), offsets monotone, C09_nested (all ranges inside the parent), C09_ordered (successive matches in consecutive intervals). Tie: pegdiff (positions are part of the compared tree; boundary/inside-input oracle on the implementation tree).',
                tech='Lean 4 invariant proofs over the evaluator (ranges, monotone offsets, nesting) + differential correspondence'),
    'C11': dict(engine='unitdiff', ref='6 C11',
                text='Lean theorems: C11_linecol (line = newlines before + 1, column = characters since the last newline + 1, printed line), totality with clamping (C11_any_position), caret under the column. Tie: unitdiff, exhaustive over all texts over {a, e-acute, newline, space} up to length 5 (quick) / 7 (thorough) x all boundary positions, Display output compared byte for byte with the model and with an independent oracle, in three renderings: colours off, colours forced on (escape sequences stripped), and a build of the runtime without its `colored` feature. Lines longer than 65 535 characters included (defect F10, repaired).',
                tech='Lean 4 proof about the model of PrettyParseError + exhaustive small-scope differential table'),
    'C13': dict(engine='pegdiff', ref='6 C13',
                text='Lean theorems: C13_parsers_agree (parseAdvanced of the grammar with includes textually inlined = parseAdvanced of the original, as an equation: acceptance, tree, positions, error, cache), C13_types (same field descriptors), C13_in_context, C13_site. Tie: pegdiff incl family (grammar vs printed inlined twin, impl-vs-impl and impl-vs-model).',
                tech='Lean 4 simulation proof (include = parenthesised body at equal fuel) + differential twin grammars'),
    'C18': dict(engine='fsdiff', ref='6 C18',
                text='Lean theorems over operation histories: C18_failure_preserves, C18_untouched, C18_rewrite_only_when_needed, C18_fresh_partial (freshness after any history, under non-collision of CRC-32 on the texts of the history), and the proved negation of the unconditional statement with a concrete colliding pair (known finding K1); with `.format()`: rustfmt as a parameter fmt, C18_format_untouched / C18_format_fresh_partial under the assumption KeepsHeaderLines (checked on every rustfmt output of the run), and the proved failure of the pre-fix behaviour (defect F8, fixed); directory mode (BuildDir.lean: the recursive walk as runDir over the files in listing order, first error ends it): C18_dir_success_is_per_file, C18_dir_failure_preserves, C18_dir_ok_iff, C18_dir_order_irrelevant (any listing order, on success), C18_dir_untouched, and a checked instance that the order matters on failure. Tie: fsdiff histories against the real Compile in a scratch directory (file, explicit destination, directory, symlinked-directory, directory with two grammar files at different depths – listing order reported by the harness and handed to runDir – and .format() mode, bystander files, prefixes rustfmt rewrites).',
                tech='Lean 4 invariant proof over operation histories of a file-system state machine + differential histories'),
    'C19': dict(engine='pegdiff', ref='6 C19',
                text='Lean theorems: log erasure (no evaluator step reads the log: result, cache, user context independent of it) and Dyck balance / no underflow of tracer events on every exit path (failure, cache hit, left-recursion re-evaluation). Tie: pegdiff with a custom ParseTracer (callback sequence equal to the model, traced result equals plain result) and with the shipped IndentedTracer (result equal to the plain parse, no panic; deep-nesting family).',
                tech='Lean 4 proof: log erasure + Dyck-balance invariant; differential tracer callback comparison'),
}

EXTRA = {}
p = os.path.join(os.path.dirname(os.path.abspath(__file__)), 'manifest_extra.json')
if os.path.exists(p):
    EXTRA = json.load(open(p))
CLAIMS.update(EXTRA.get('claims', {}))
NA = EXTRA.get('not_applicable', {})

checks = []
for i in IDS:
    if i in CLAIMS:
        c = CLAIMS[i]
        checks.append(dict(property_id=i, quick_cmd='tools/check %s quick' % i, thorough_cmd='tools/check %s thorough' % i,
                           evidence_file='/verif/evidence/%s.json' % i, replay_cmd_template='tools/check %s --replay {path}' % i,
                           engine=c['engine'], level_claimed=dict(category='proof', text=c['text'], design_ref=c['ref']),
                           level_note=NOTE, technique=c['tech']))
m = dict(version=1, setup_cmd='tools/setup',
         hooks=dict(guard='peginator_verif', enable="RUSTFLAGS='--cfg peginator_verif' (set by the checks when building /repo crates)",
                    baseline_off_cmd='cd /repo && cargo test --workspace --no-fail-fast --offline', source_commits=['a610e9b'], add_only=True),
         engines=[dict(name='pegdiff', path='tools/pv/pegdiff.py', serves_properties=['C01', 'C02', 'C04', 'C05', 'C06', 'C07', 'C08', 'C09', 'C10', 'C13', 'C14', 'C19', 'C20'],
                       kind_free_text='differential: real generator + rustc + real runtime vs Lean model driver on generated grammars/inputs'),
                  dict(name='unitdiff', path='tools/pv/other.py', serves_properties=['C04', 'C11', 'C01'],
                       kind_free_text='differential: runtime functions called in-process vs the Lean model on enumerated operations'),
                  dict(name='fsdiff', path='tools/pv/other.py', serves_properties=['C18'],
                       kind_free_text='differential: build-script operation histories against the real Compile in a scratch directory vs the Lean state machine'),
                  dict(name='gendiff', path='tools/pv/gendiff.py', serves_properties=['C03', 'C15'],
                       kind_free_text='differential: real generator outcome classes and declared types vs the Lean model of the generator, raw-text totality stream in isolated processes'),
                  dict(name='routes', path='tools/pv/routes.py', serves_properties=['C16', 'C15', 'C12'],
                       kind_free_text='byte comparison of the library call in fresh processes, the command-line tool, the build-script helper (settings in either order) and the peginate! macro (tools/pv/macroroute.py: behaviour and nightly -Zunpretty=expanded text)'),
                  dict(name='frontend', path='tools/pv/frontend.py', serves_properties=['C12', 'C17'],
                       kind_free_text='three-way differential: generating AST / shipped Grammar::from_str / Lean model front end (eval on the meta-grammar extracted from grammar.ebnf) on printed layouts and mutants; stage-2 bootstrap vs shipped generated.rs'),
                  dict(name='proofstage', path='tools/pv/proofstage.py', serves_properties=IDS,
                       kind_free_text='tables re-extracted from /repo (tools/extract.py), lake build of the property module, forbidden-token scan, #print axioms audit of every theorem, leanchecker in the thorough tier')],
         checks=checks,
         not_applicable=[dict(property_id=i, reason=NA.get(i, 'check under construction (framework being built; see DESIGN.md section 11)')) for i in IDS if i not in CLAIMS],
         notes='All checks share one entry point tools/check; proofs are in lean/PegVerif/Props/<ID>.lean (helper lemmas in lean/PegVerif/Proofs/). See DESIGN.md.')
json.dump(m, open('/verif/MANIFEST.json', 'w'), indent=1)
print('claimed:', [c['property_id'] for c in checks])
