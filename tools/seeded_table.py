#!/usr/bin/env python3
"""Prints the markdown table 'which checks catch which seeded changes' from /verif/seeded/*/meta.json."""
import glob
import json
import os

rows = []
for f in sorted(glob.glob('/verif/seeded/*/meta.json')):
    m = json.load(open(f))
    name = os.path.basename(os.path.dirname(f))
    own = m['breaks_property']
    caught = m.get('caught_by', [])
    checks = m.get('checks_run', {})
    def kind(c):
        v = checks.get(c, {}).get('violation', [])
        return 'input' if v and 'no-failing-input-found' not in v[0] else 'nfi'
    own_res = ('caught (failing input)' if kind(own) == 'input' else 'caught (no-failing-input-found)') if own in caught else 'MISSED'
    others_in = [c for c in caught if c != own and kind(c) == 'input']
    others_nfi = [c for c in caught if c != own and kind(c) == 'nfi']
    summary = (m.get('summary') or '').replace('|', '/').replace('\n', ' ')[:150]
    rows.append('| %s | %s | %s | %s | %s | %s |' % (name, own, summary, own_res, ' '.join(others_in) or '–', ' '.join(others_nfi) or '–'))
print('| seeded change | breaks | what it does | its own check | other checks with a failing input | other checks: proof/correspondence broken only |')
print('|---|---|---|---|---|---|')
print('\n'.join(rows))
