#!/usr/bin/env python3
import sys, random, json, collections
sys.path.insert(0, '/verif/tools')
from pv import gen, gast, pegdiff
from pv.common import CACHE
import os
seed = int(sys.argv[1]) if len(sys.argv) > 1 else 1
n = int(sys.argv[2]) if len(sys.argv) > 2 else 20
fam = sys.argv[3] if len(sys.argv) > 3 else 'mix'
rng = random.Random(seed)
cases = []
for i in range(n):
    opts = {}
    if fam == 'hooks':
        opts = dict(checks=True, externs=True, uctx=(i % 3 == 0))
    g = gen.Gen(rng, fam, opts)
    rules = g.build()
    inputs = []
    for ex in gen.exported_rules(rules):
        for s in gen.gen_inputs(rng, rules, ex, 25, g.multibyte):
            inputs.append((ex, s))
    cases.append(dict(id='c%d' % i, rules=rules, settings=dict(uctx=g.uctx), inputs=inputs, tags=[fam]))
res = pegdiff.run_cases(cases, os.path.join(CACHE, 'try'))
print(res['timing'])
cnt = collections.Counter()
for cid, (cls, det) in res['gen'].items():
    cnt['gen:' + cls] += 1
    if cls != 'OK':
        print('GEN', cid, cls, det[:200])
for cid, msg in res['compile_fail'].items():
    print('COMPILE_FAIL', cid, msg[:300])
shown = 0
for k in sorted(res['model']):
    m = res['model'][k]
    i = res['impl'].get(k)
    if i is None:
        cnt['noimpl'] += 1
        continue
    cnt['kind:' + i[0]] += 1
    # compare: kind, a, b(end off / spec), log, uctx ; ghost ignored
    mi = [m[0], m[1], m[2], m[3], m[5]] if len(m) > 5 else m
    ii = [i[0], i[1], i[2], i[3], i[5]] if len(i) > 5 else i
    extra = i[6:] if len(i) > 6 else []
    if mi != ii or extra:
        cnt['DIFF'] += 1
        if shown < 8:
            shown += 1
            c = next(c for c in cases if c['id'] == k[0])
            print('---- DIFF', k, c['inputs'][k[1]])
            print(gast.pp_grammar(c['rules']))
            print(' model:', m)
            print(' impl :', i)
    else:
        cnt['same'] += 1
print(dict(cnt))
