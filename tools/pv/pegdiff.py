"""pegdiff: generated parsers (real generator + rustc + real runtime) vs. the Lean model `Impl.eval`.

run_cases(cases, workdir) takes case dicts
   {id, rules, settings{uctx}, inputs: [(rule, text)], tags: [...]}
and returns per case: gen outcome, compile outcome, and per input the implementation and model
observation lines (already split into columns)."""
import os
import re
import shutil
import subprocess
import time
from . import gast
from .common import (CACHE, HARNESS, PEGVERIF, REPO, TARGET, TARGET_BATCH, CARGO_ENV, Lock, log, run,
                     ensure_clean_repo_crates, build_harness, build_lean)

BATCH_WS = os.path.join(CACHE, 'batchws')
FUEL = 3000


def case_file_text(cases):
    out = []
    for c in cases:
        out.append('G %s 1 %d %d' % (c['id'], 1 if c['settings'].get('uctx') else 0, c.get('fuel', FUEL)))
        out.append(c.get('sexp') or gast.sx_grammar(c['rules']))
        for rule, text in c['inputs']:
            hx = text.encode('utf-8').hex() or '-'
            out.append('I %s %s 0' % (gast.atom(rule), hx))
    return '\n'.join(out) + '\n'


def split_cols(line):
    p = line.rstrip('\n').split('\t')
    return p


def parse_out(text):
    """-> {(case, idx): cols}"""
    res = {}
    for line in text.splitlines():
        p = line.split('\t')
        if len(p) >= 3:
            try:
                res[(p[0], int(p[1]))] = p[2:]
            except ValueError:
                pass
    return res


def write_batch_crate(bdir, name, cases, casedir):
    os.makedirs(os.path.join(bdir, 'src'), exist_ok=True)
    with open(os.path.join(bdir, 'Cargo.toml'), 'w') as f:
        f.write('[package]\nname = "%s"\nversion = "0.1.0"\nedition = "2021"\n\n[dependencies]\n'
                'peginator = { path = "%s/runtime" }\npvglue = { path = "%s/glue" }\n' % (name, REPO, HARNESS))
    mods = []
    arms = []
    for c in cases:
        m = 'm_' + c['id']
        mods.append('#[allow(warnings)]\nmod %s {\n    #[allow(unused_imports)]\n    use pvglue::{hooks, hooksc};\n'
                    '    include!("%s/%s.rs");\n}\n' % (m, casedir, c['id']))
        runner = 'run_ctx' if c['settings'].get('uctx') else 'run'
        exports = c.get('exports')
        if exports is None:
            exports = [x['name'] for x in c['rules'] if x['kind'] == 'rule' and 'export' in x['dirs']]
        for name in exports:
            ident = name
            if ident in gast_keywords():
                ident = 'r#' + ident
            arms.append('        ("%s", "%s") => Some(pvglue::run::%s::<%s::%s>(input, u)),\n'
                        % (c['id'], name, runner, m, ident))
    src = ('#![forbid(unsafe_code)]\n#![allow(warnings)]\n' + ''.join(mods) +
           'fn dispatch(case: &str, rule: &str, input: &str, u: u64) -> Option<String> {\n    match (case, rule) {\n' +
           ''.join(arms) + '        _ => None,\n    }\n}\nfn main() {\n    pvglue::run::main_loop(dispatch);\n}\n')
    with open(os.path.join(bdir, 'src', 'main.rs'), 'w') as f:
        f.write(src)


_KW = None


def gast_keywords():
    global _KW
    if _KW is None:
        src = open(os.path.join(REPO, 'codegen/src/common.rs')).read()
        m = re.search(r'RUST_KEYWORDS: \[&str; \d+\] = \[(.*?)\];', src, re.S)
        body = re.sub(r'//[^\n]*', '', m.group(1)) if m else ''
        _KW = set(re.findall(r'"([^"]+)"', body))
    return _KW


def run_pvgen(cases, casedir):
    """real generator on every case -> {id: (class, detail)}"""
    pvgen = os.path.join(TARGET, 'debug', 'pvgen')
    lst = os.path.join(casedir, 'list.txt')
    with open(lst, 'w') as f:
        for c in cases:
            p = os.path.join(casedir, c['id'] + '.ebnf')
            with open(p, 'w') as g:
                g.write(c.get('text') or gast.pp_grammar(c['rules']))
            f.write('%s\t%s\t%s\t%s\t%s\n' % (c['id'], p, os.path.join(casedir, c['id'] + '.rs'),
                                               'pvglue::Ctx' if c['settings'].get('uctx') else '-',
                                               c['settings'].get('derives', '-')))
    res = {}
    remaining = list(cases)
    while remaining:
        with open(lst + '.part', 'w') as f:
            for c in remaining:
                p = os.path.join(casedir, c['id'] + '.ebnf')
                f.write('%s\t%s\t%s\t%s\t%s\n' % (c['id'], p, os.path.join(casedir, c['id'] + '.rs'),
                                                   'pvglue::Ctx' if c['settings'].get('uctx') else '-',
                                                   c['settings'].get('derives', '-')))
        try:
            p = subprocess.run([pvgen, 'gen', lst + '.part'], stdout=subprocess.PIPE, stderr=subprocess.PIPE,
                               text=True, timeout=600)
            out, rc = p.stdout, p.returncode
        except subprocess.TimeoutExpired as e:
            out, rc = (e.stdout or b'').decode() if isinstance(e.stdout, bytes) else (e.stdout or ''), -9
        done = 0
        for line in out.splitlines():
            q = line.split('\t')
            if len(q) >= 2:
                res[q[0]] = (q[1], '\t'.join(q[2:]))
                done += 1
        if rc == 0 and done == len(remaining):
            break
        # the process died (stack overflow / abort) on the case after the last answered one
        if done < len(remaining):
            res[remaining[done]['id']] = ('ABORT', 'rc=%s' % rc)
            remaining = remaining[done + 1:]
        else:
            break
    return res


def build_batches(batches, casedir, jobs=16):
    """batches: list of lists of cases. Returns (ok_cases_per_batch, compile_failures{id: msg}, build seconds)"""
    t0 = time.time()
    failures = {}
    with Lock('batch-build'):
        ensure_clean_repo_crates(TARGET_BATCH, HARNESS)
        if os.path.exists(BATCH_WS):
            shutil.rmtree(BATCH_WS)
        os.makedirs(BATCH_WS)
        shutil.copy(os.path.join(REPO, 'Cargo.lock'), os.path.join(BATCH_WS, 'Cargo.lock'))
        os.makedirs(os.path.join(BATCH_WS, '.cargo'))
        with open(os.path.join(BATCH_WS, '.cargo', 'config.toml'), 'w') as f:
            f.write('[net]\noffline = true\n')
        names = ['b%d' % i for i in range(len(batches))]
        with open(os.path.join(BATCH_WS, 'Cargo.toml'), 'w') as f:
            f.write('[workspace]\nmembers = [%s]\nresolver = "2"\n\n[profile.dev]\ndebug = 0\nopt-level = 0\nincremental = false\n'
                    % ', '.join('"%s"' % n for n in names))
        env = dict(CARGO_ENV, CARGO_TARGET_DIR=TARGET_BATCH, RUSTFLAGS='--cfg peginator_verif -Awarnings')
        live = [list(b) for b in batches]
        for attempt in range(8):
            for n, b in zip(names, live):
                write_batch_crate(os.path.join(BATCH_WS, n), n, b, casedir)
            p, dt = run(['cargo', 'build', '--offline', '--workspace', '-j', str(jobs), '--keep-going',
                         '--message-format', 'short'], cwd=BATCH_WS, env=env)
            if p.returncode == 0:
                break
            # find the failing case files in the diagnostics
            bad = set(re.findall(r'/([A-Za-z0-9_]+)\.rs:\d+:\d+: error', p.stderr))
            bad = {b for b in bad if any(c['id'] == b for bb in live for c in bb)}
            if not bad:
                log(p.stderr[-6000:])
                raise RuntimeError('batch build failed without an identifiable case')
            for b in bad:
                msg = [l for l in p.stderr.splitlines() if ('/%s.rs:' % b) in l and 'error' in l]
                failures[b] = msg[0] if msg else 'compile error'
            live = [[c for c in bb if c['id'] not in bad] for bb in live]
        else:
            raise RuntimeError('batch build did not converge')
        bins = []
        for n in names:
            src = os.path.join(TARGET_BATCH, 'debug', n)
            dst = os.path.join(casedir, n + '.bin')
            shutil.copy(src, dst)
            bins.append(dst)
    return live, bins, failures, time.time() - t0


def run_binary(binpath, casefile, timeout=None, env_extra=None):
    """run a batch binary on a case file; survives crashes/timeouts of single inputs by restarting
    after the offending line.  Returns output text."""
    lines = open(casefile).read().splitlines()
    env = dict(os.environ, **(env_extra or {}))
    if timeout is None:
        # a batch parses its inputs in milliseconds; the budget only has to tell a hang from a slow machine (a hang costs
        # the whole budget once per hanging input): 45 s + 16 ms per input (quick ≈ 1 min, thorough ≈ 4 min)
        timeout = 45 + 0.016 * sum(1 for l in lines if l.startswith('I '))
    out_all = []
    # positions of I lines with their (case, idx)
    start = 0
    guard = 0
    header = []
    while start < len(lines) and guard < 15:
        guard += 1
        chunk = header + lines[start:]
        try:
            p = subprocess.run([binpath], input='\n'.join(chunk) + '\n', stdout=subprocess.PIPE,
                               stderr=subprocess.DEVNULL, text=True, timeout=timeout, env=env)
            out, rc = p.stdout, p.returncode
        except subprocess.TimeoutExpired as e:
            out = e.stdout.decode() if isinstance(e.stdout, bytes) else (e.stdout or '')
            rc = 'timeout'
        outl_all = out.splitlines()
        outl = [l for l in outl_all if not l.startswith('#H')]
        hist = [l for l in outl_all if l.startswith('#H')]
        if hist:
            out_all.append(('hist', hist))
        # renumber: chunk may start in the middle of a case; the binary restarts idx at 0 after a G line
        out_all.append((start, header, outl))
        n_inputs = sum(1 for l in chunk if l.startswith('I '))
        if rc == 0 and len(outl) >= n_inputs:
            break
        # crashed on input number len(outl) of this chunk
        k = -1
        seen = 0
        cur_g = None
        for i, l in enumerate(chunk):
            if l.startswith('G '):
                cur_g = i
            if l.startswith('I '):
                if seen == len(outl):
                    k = i
                    break
                seen += 1
        if k < 0:
            break
        out_all.append(('crash', chunk[cur_g].split(' ')[1] if cur_g is not None else '?', rc, chunk[k]))
        # restart after line k, re-sending the G header + sexp of the current case
        abs_k = start + (k - len(header))
        # find G line of that case in original lines
        g = abs_k
        while g >= 0 and not lines[g].startswith('G '):
            g -= 1
        header = lines[g:g + 2]
        start = abs_k + 1
    return out_all


def assemble_impl_output(out_all, casefile):
    """turn the (possibly restarted) outputs into {(case, idx): cols} with crashes marked"""
    lines = open(casefile).read().splitlines()
    keys = []
    cur = None
    idx = 0
    for l in lines:
        if l.startswith('G '):
            cur = l.split(' ')[1]
            idx = 0
        elif l.startswith('I '):
            keys.append((cur, idx))
            idx += 1
    res = {}
    ki = 0
    for item in out_all:
        if item[0] == 'hist':
            continue
        if item[0] == 'crash':
            res[keys[ki]] = ['CRASH', str(item[2])]
            ki += 1
        else:
            for l in item[2]:
                p = l.split('\t')
                if ki < len(keys):
                    res[keys[ki]] = p[2:]
                    ki += 1
    return res


PEGCLASS = PEGVERIF[:-len('pegverif')] + 'pegclass'
_pegclass_state = {}


def run_model(casefile, timeout=1200):
    p = subprocess.run([PEGVERIF, 'run', casefile], stdout=subprocess.PIPE, stderr=subprocess.PIPE, text=True,
                       timeout=timeout)
    if p.returncode != 0:
        raise RuntimeError('model driver failed: ' + p.stderr[-2000:])
    res = parse_out(p.stdout)
    # best effort: which theorem hypotheses each grammar meets (separate executable that imports proof files; when a proof
    # about the extracted tables no longer checks it does not build, and the statistics are simply absent)
    if 'ok' not in _pegclass_state:
        from .common import build_lean
        try:
            _pegclass_state['ok'] = build_lean(['pegclass'])[0]
        except Exception:
            _pegclass_state['ok'] = False
    if _pegclass_state['ok']:
        try:
            q = subprocess.run([PEGCLASS, casefile], stdout=subprocess.PIPE, stderr=subprocess.DEVNULL, text=True, timeout=600)
            res.update(parse_out(q.stdout))
        except Exception:
            pass
    return res


def run_cases(cases, workdir, nbatch=8, indented=False, seed=1):
    """full pipeline. Returns dict with per-case results."""
    t0 = time.time()
    if os.path.exists(workdir):
        shutil.rmtree(workdir)
    os.makedirs(workdir)
    casedir = workdir
    ok, err, dt = build_harness()
    if not ok:
        raise RuntimeError('harness build failed:\n' + err[-4000:])
    t_h = time.time() - t0
    gen = run_pvgen(cases, casedir)
    good = [c for c in cases if gen.get(c['id'], ('?',))[0] == 'OK']
    solo = [c for c in good if c.get('solo')]
    regular = [c for c in good if not c.get('solo')]
    nb = max(1, min(nbatch, (len(regular) + 3) // 4))
    batches = [regular[i::nb] for i in range(nb)]
    # cases known not to compile (pinned known findings) share one extra batch: rustc reports every offending module
    batches = [b for b in batches if b] + ([solo] if solo else [])
    live, bins, cfail, t_build = build_batches(batches, casedir)
    impl = {}
    model = {}
    hist = []
    t1 = time.time()
    for i, (b, binp) in enumerate(zip(live, bins)):
        cf = os.path.join(casedir, 'cases_b%d.txt' % i)
        with open(cf, 'w') as f:
            f.write(case_file_text(b))
        extra = {'PV_HISTORY': '1', 'PV_SEED': str(seed)}
        if indented:
            extra['PV_INDENTED'] = '1'
        out_all = run_binary(binp, cf, env_extra=extra)
        for item in out_all:
            if item[0] == 'hist':
                hist += item[1]
        impl.update(assemble_impl_output(out_all, cf))
        model.update(run_model(cf))
    # cases that did not reach the binary still get a model run (for compile-outcome comparison)
    rest = [c for c in cases if c['id'] not in {x['id'] for b in live for x in b}]
    if rest:
        cf = os.path.join(casedir, 'cases_rest.txt')
        with open(cf, 'w') as f:
            f.write(case_file_text(rest))
        model.update(run_model(cf))
    t_run = time.time() - t1
    for f in os.listdir(casedir):
        if f.endswith('.bin'):
            os.remove(os.path.join(casedir, f))
    return dict(gen=gen, compile_fail=cfail, impl=impl, model=model, hist=hist,
                timing=dict(harness=t_h, build=t_build, run=t_run, total=time.time() - t0))


def run_cases_text(cases, workdir):
    """cases given by grammar text + sexp (replays): exported rules = the rules used by the inputs"""
    for c in cases:
        c['exports'] = sorted({r for r, _ in c['inputs']})
    return run_cases(cases, workdir, nbatch=1)
