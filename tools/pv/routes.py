"""routes (C16): the same grammar through the library call in fresh processes, the command-line tool
and the build-script helper; bytes compared after the header / prefix."""
import collections
import hashlib
import os
import random
import shutil
import subprocess
import tempfile
import time
from . import gen, gast
from .common import CACHE, TARGET, REPO, CARGO_ENV, Lock, build_harness, ensure_clean_repo_crates, run, log

PVGEN = os.path.join(TARGET, 'debug', 'pvgen')
PVUNIT = os.path.join(TARGET, 'debug', 'pvunit')
TARGET_REPO = os.path.join(CACHE, 'target-repo')


def build_cli():
    with Lock('cli-build'):
        env = dict(CARGO_ENV, CARGO_TARGET_DIR=TARGET_REPO)
        p, dt = run(['cargo', 'build', '--offline', '-p', 'peginator-cli'], cwd=REPO, env=env)
        if p.returncode != 0:
            raise RuntimeError('peginator-cli build failed: ' + p.stderr[-2000:])
    return os.path.join(TARGET_REPO, 'debug', 'peginator-cli')


def strip_header(text):
    lines = text.split('\n')
    k = 0
    while k < len(lines) and lines[k].startswith('//'):
        k += 1
    return lines[:k], '\n'.join(lines[k:])


def cli_failures(cli, d, res):
    """failures must be visible: exit status of the command-line tool on invalid grammars / unreadable files (F3)"""
    out = []
    bad = ["A = ;;;", "@export A = !b:B; B='x';", "1a = 'x';", "A = >A;", "@string @export A = 'x';"]
    for k, t in enumerate(bad):
        p = os.path.join(d, 'bad%d.ebnf' % k)
        open(p, 'w').write(t)
        q = subprocess.run([cli, p], stdout=subprocess.PIPE, stderr=subprocess.PIPE, text=True, timeout=60)
        res['evaluations'] += 1
        res['distribution']['cli on invalid grammar: exit %d' % q.returncode] += 1
        if q.returncode == 0:
            out.append(dict(kind='routes', grammar=t, what='command-line tool exited with status 0 on an invalid grammar'))
        q2 = subprocess.run([PVUNIT, 'compile', p, os.path.join(d, 'bad%d.rs' % k), '-', '-'], stdout=subprocess.PIPE, stderr=subprocess.PIPE, text=True, timeout=60)
        res['evaluations'] += 1
        res['distribution']['Compile::run on invalid grammar: %s' % ('Err' if q2.returncode != 0 else 'Ok')] += 1
        if q2.returncode == 0:
            out.append(dict(kind='routes', grammar=t, what='build-script helper returned Ok on an invalid grammar'))
        # what cargo does after a failed build script: run it again, nothing changed – the failure must still be reported
        q3 = subprocess.run([PVUNIT, 'compile', p, os.path.join(d, 'bad%d.rs' % k), '-', '-'], stdout=subprocess.PIPE, stderr=subprocess.PIPE, text=True, timeout=60)
        res['evaluations'] += 1
        res['distribution']['Compile::run again on the same invalid grammar: %s' % ('Err' if q3.returncode != 0 else 'Ok')] += 1
        if q3.returncode == 0:
            out.append(dict(kind='routes', grammar=t, what='build-script helper returned Ok on an invalid grammar when run a second time (the failure of the first run is no longer reported)'))
    q = subprocess.run([cli, os.path.join(d, 'does-not-exist.ebnf')], stdout=subprocess.PIPE, stderr=subprocess.PIPE, text=True, timeout=60)
    res['evaluations'] += 1
    if q.returncode == 0:
        out.append(dict(kind='routes', grammar='<missing file>', what='command-line tool exited with status 0 on an unreadable file'))
    return out


def run_cli_failures():
    ok, err, dt = build_harness()
    cli = build_cli()
    d = tempfile.mkdtemp(prefix='pvcli-')
    res = dict(evaluations=0, distribution=collections.Counter())
    try:
        return cli_failures(cli, d, res), res
    finally:
        shutil.rmtree(d, ignore_errors=True)


def run_C16(seed, tier):
    t0 = time.time()
    ok, err, dt = build_harness()
    if not ok:
        raise RuntimeError('harness build failed:\n' + err[-3000:])
    cli = build_cli()
    rng = random.Random(seed * 31 + 5)
    n = 150 if tier == 'thorough' else 25
    d = tempfile.mkdtemp(prefix='pvroutes-')
    res = dict(evaluations=0, nontrivial=set(), samples=[], strict=[], prop=[], distribution=collections.Counter())
    try:
        cases = []
        for i in range(n):
            g = gen.Gen(rng, 'mix', dict(checks=i % 3 == 0, externs=i % 3 == 0))
            rules = g.build()
            derives = rng.choice(['-', '-', 'Debug,Clone,PartialEq', 'Clone,Debug'])
            prefix = rng.choice(['', 'use a;', 'use a;\nuse b;\n', '// generated\n'])
            cases.append((rules, derives, prefix))
        # two fixed grammars that both use `>Header`, declared at different positions: compiled one after the other in one
        # process by the library route, each in its own process by the command-line tool (per-process state must not leak)
        FH = lambda n_, t_: ('field', n_, False, t_)
        hdr = dict(kind='rule', dirs=[], name='Header', body=gen.choice(gen.seq(gen.lit('v'), FH('version', 'Num'))))
        num = dict(kind='rule', dirs=['string'], name='Num', body=gen.choice(gen.seq(('plus', gen.choice(gen.seq(('range', gen.C('0'), gen.C('9'))))))))
        alpha = [dict(kind='rule', dirs=['export'], name='Config', body=gen.choice(gen.seq(('incl', 'Header'), gen.lit(';')))), hdr, num]
        beta = [dict(kind='rule', dirs=['export'], name='Config', body=gen.choice(gen.seq(('incl', 'Header'), gen.lit('!')))),
                dict(kind='rule', dirs=[], name='Pair', body=gen.choice(gen.seq(FH('key', 'Num'), gen.lit('='), FH('value', 'Num')))), hdr, num]
        cases = [(alpha, '-', ''), (beta, '-', ''), (alpha, '-', '')] + cases
        # library route, three fresh processes
        outs = []
        for rep in range(3):
            lst = os.path.join(d, 'list%d.txt' % rep)
            with open(lst, 'w') as f:
                for i, (rules, derives, prefix) in enumerate(cases):
                    p = os.path.join(d, 'g%d.ebnf' % i)
                    with open(p, 'w') as fh:
                        fh.write(gast.pp_grammar(rules))
                    f.write('g%d\t%s\t%s\t-\t%s\n' % (i, p, os.path.join(d, 'g%d.lib%d' % (i, rep)), derives))
            env = dict(os.environ, RUST_BACKTRACE='0', PV_REP=str(rep))
            p = subprocess.run([PVGEN, 'gen', lst], stdout=subprocess.PIPE, stderr=subprocess.DEVNULL, text=True, env=env, timeout=600)
            outs.append({l.split('\t')[0]: l.split('\t')[1] for l in p.stdout.splitlines()})
        for i, (rules, derives, prefix) in enumerate(cases):
            text = gast.pp_grammar(rules)
            rp = dict(kind='routes', grammar=text, derives=derives, prefix=prefix, what='')
            if outs[0].get('g%d' % i) != 'OK':
                continue
            lib = [open(os.path.join(d, 'g%d.lib%d' % (i, rep))).read() for rep in range(3)]
            res['evaluations'] += 3
            res['nontrivial'].add((i, 'library'))
            if not (lib[0] == lib[1] == lib[2]):
                rp['what'] = 'library call produced different code in different processes'
                res['prop'].append(dict(rp))
            # command-line tool
            args = [cli, os.path.join(d, 'g%d.ebnf' % i)]
            if derives != '-':
                for dv in derives.split(','):
                    args += ['-d', dv]
            p = subprocess.run(args, stdout=subprocess.PIPE, stderr=subprocess.PIPE, text=True, timeout=120)
            res['evaluations'] += 1
            res['nontrivial'].add((i, 'cli'))
            hdr, body = strip_header(p.stdout)
            if p.returncode != 0:
                rp['what'] = 'command-line tool failed on an accepted grammar (exit %d)' % p.returncode
                res['prop'].append(dict(rp))
            elif body != '\n' + lib[0] + '\n' or len(hdr) != 3:
                rp['what'] = 'command-line output is not header + blank line + the library code + newline'
                rp['cli_head'] = p.stdout[:300]
                res['prop'].append(dict(rp))
            # build-script helper
            dst = os.path.join(d, 'g%d.out.rs' % i)
            p = subprocess.run([PVUNIT, 'compile', os.path.join(d, 'g%d.ebnf' % i), dst, prefix.encode().hex() or '-', derives],
                               stdout=subprocess.PIPE, stderr=subprocess.PIPE, text=True, timeout=120)
            res['evaluations'] += 1
            res['nontrivial'].add((i, 'buildscript'))
            if p.returncode != 0 or not os.path.exists(dst):
                rp['what'] = 'build-script helper failed on an accepted grammar: ' + p.stdout[:200]
                res['prop'].append(dict(rp))
            else:
                out = open(dst).read()
                hdr, body = strip_header(out)
                want = '\n' + prefix + '\n' + lib[0]
                if body != want or len(hdr) != 4:
                    rp['what'] = 'build-script output is not header + prefix + the library code'
                    rp['bs_head'] = out[:400]
                    res['prop'].append(dict(rp))
            if len(res['samples']) < 2:
                res['samples'].append(dict(grammar=text, derives=derives, prefix=prefix, code_sha256=hashlib.sha256(lib[0].encode()).hexdigest(), code_bytes=len(lib[0])))
            res['distribution']['grammars'] += 1
        for v in cli_failures(cli, d, res):
            res['prop'].append(v)
        # settings through the builder of the build-script helper, in either order of the calls, against the library call
        ug = "@export\nS = a:A {b:B};\nA = 'a';\n@check(crate::ck)\nB = v:Num;\n@string\nNum = {'0'..'9'}+;\n"
        up = os.path.join(d, 'uctx.ebnf')
        open(up, 'w').write(ug)
        ul = os.path.join(d, 'uctx.lst')
        open(ul, 'w').write('u\t%s\t%s\tcrate::Ctx\tDebug,Clone,PartialEq\n' % (up, os.path.join(d, 'uctx.lib')))
        subprocess.run([PVGEN, 'gen', ul], stdout=subprocess.PIPE, stderr=subprocess.DEVNULL, text=True, timeout=120)
        if os.path.exists(os.path.join(d, 'uctx.lib')):
            lib = open(os.path.join(d, 'uctx.lib')).read()
            for order in ('uctx-first', 'uctx-last'):
                dst = os.path.join(d, 'uctx_%s.rs' % order)
                subprocess.run([PVUNIT, 'compile', up, dst, '-', 'Debug,Clone,PartialEq', order + ':crate::Ctx'], stdout=subprocess.PIPE, stderr=subprocess.PIPE, text=True, timeout=120)
                res['evaluations'] += 1
                res['nontrivial'].add(('settings', order))
                body = strip_header(open(dst).read())[1] if os.path.exists(dst) else ''
                if lib not in body:
                    res['prop'].append(dict(kind='routes', grammar=ug, derives='Debug,Clone,PartialEq', prefix='',
                                            what='build-script helper with user_context_type and derives (%s) does not produce the code of the library call with the same settings' % order))
        else:
            res['strict'].append(dict(kind='routes', grammar=ug, what='library call with a user context type failed'))
        # the same helper call in a fresh process must give the same bytes whatever an earlier build left behind: compile
        # with one derive set, then with another into the same destination (known finding K6: the header does not cover the settings)
        sg = "@export\nS = a:A;\nA = 'a';\n"
        sp = os.path.join(d, 'settings.ebnf')
        open(sp, 'w').write(sg)
        sdst = os.path.join(d, 'settings.rs')
        subprocess.run([PVUNIT, 'compile', sp, sdst, '-', 'Debug,Clone'], stdout=subprocess.PIPE, stderr=subprocess.PIPE, text=True, timeout=120)
        subprocess.run([PVUNIT, 'compile', sp, sdst, '-', 'Debug,Clone,PartialEq'], stdout=subprocess.PIPE, stderr=subprocess.PIPE, text=True, timeout=120)
        fresh = os.path.join(d, 'settings_fresh.rs')
        subprocess.run([PVUNIT, 'compile', sp, fresh, '-', 'Debug,Clone,PartialEq'], stdout=subprocess.PIPE, stderr=subprocess.PIPE, text=True, timeout=120)
        res['evaluations'] += 1
        res['nontrivial'].add(('settings', 'changed derives, existing destination'))
        if os.path.exists(sdst) and os.path.exists(fresh) and open(sdst).read() != open(fresh).read():
            res['prop'].append(dict(kind='routes', label='settings-change-existing-destination', grammar=sg, derives='Debug,Clone -> Debug,Clone,PartialEq', prefix='',
                                    what='build-script helper: after the derive set changed, the destination of the earlier build is kept (a fresh destination gets different code)'))
        # the macro route
        from . import macroroute
        mr = macroroute.run_macro(seed, tier)
        res['evaluations'] += mr['evaluations']
        res['nontrivial'] |= {('macro',) + tuple(k) for k in mr['nontrivial']}
        res['prop'] += mr['prop']
        res['strict'] += mr['strict']
        for k, v in mr['distribution'].items():
            res['distribution'][k] += v
        res['engine'] = 'routes'
        res['wall_s'] = time.time() - t0
        return res
    finally:
        shutil.rmtree(d, ignore_errors=True)
