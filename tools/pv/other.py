"""Engines other than pegdiff (unitdiff, gendiff, fsdiff, frontend, routes)."""


def run(pid, seed, tier):
    raise RuntimeError('no engine registered for ' + pid)


def replay(pid, v, path):
    print('unknown replay kind', v.get('kind'))
    return 2
