"""Engines other than pegdiff: unitdiff (matchers, pretty errors, header CRC), fsdiff (build-script
histories)."""
import collections
import itertools
import os
import random
import re
import shutil
import subprocess
import tempfile
import time
from .common import CACHE, PEGVERIF, TARGET, REPO, CARGO_ENV, Lock, build_harness, log
from .common import run as run_cmd

PVUNIT = os.path.join(TARGET, 'debug', 'pvunit')
PVGEN = os.path.join(TARGET, 'debug', 'pvgen')


def hx(s):
    b = s.encode('utf-8') if isinstance(s, str) else s
    return b.hex() or '-'


def run_unit(ops, model_too=True):
    """run the same op lines through the real code and the model; returns (impl lines, model lines)"""
    ok, err, dt = build_harness()
    if not ok:
        raise RuntimeError('harness build failed:\n' + err[-3000:])
    d = os.path.join(CACHE, 'unit')
    os.makedirs(d, exist_ok=True)
    f = os.path.join(d, 'ops-%d.txt' % os.getpid())
    with open(f, 'w') as fh:
        fh.write('\n'.join(ops) + '\n')
    p = subprocess.run([PVUNIT, 'unit'], stdin=open(f), stdout=subprocess.PIPE, stderr=subprocess.DEVNULL, text=True, timeout=1800)
    impl = p.stdout.splitlines()
    if p.returncode != 0 or len(impl) != len(ops):
        # crashed: mark the rest
        impl = impl + ['CRASH rc=%s' % p.returncode] * (len(ops) - len(impl))
    if not model_too:
        os.remove(f)
        return impl, []
    m = subprocess.run([PEGVERIF, 'unit', f], stdout=subprocess.PIPE, stderr=subprocess.PIPE, text=True, timeout=1800)
    if m.returncode != 0:
        raise RuntimeError('model driver failed: ' + m.stderr[-1000:])
    model = m.stdout.splitlines()
    os.remove(f)
    return impl, model


# ------------------------------------------------------------------------------------------- C11
RUST_WS = set(map(chr, list(range(9, 14)) + [0x20, 0x85, 0xA0, 0x1680] + list(range(0x2000, 0x200B)) +
                  [0x2028, 0x2029, 0x202F, 0x205F, 0x3000]))


def rust_trim_end(s):
    while s and s[-1] in RUST_WS:
        s = s[:-1]
    return s


def expected_pretty(text, pos, fname):
    """ground truth straight from the property statement"""
    b = text.encode()
    before = b[:pos].decode()
    line_no = before.count('\n') + 1
    start = before.rfind('\n') + 1
    col = len(before[start:]) + 1
    rest = b[pos:].decode()
    end = rest.find('\n')
    line = before[start:] + (rest if end < 0 else rest[:end])
    loc = ('%s:%d:%d' % (fname, line_no, col)) if fname is not None else ('Line %d character %d' % (line_no, col))
    return 'expected end of input\n--> %s\n |  \n |  %s\n |  %s^\n' % (loc, rust_trim_end(line), ' ' * (col - 1))


def pretty_cases(seed, tier):
    rng = random.Random(seed)
    alpha = ['a', 'é', '\n', ' ']
    maxlen = 7 if tier == 'thorough' else 5
    texts = ['']
    for n in range(1, maxlen + 1):
        for t in itertools.product(alpha, repeat=n):
            texts.append(''.join(t))
    # random longer texts with other characters (tabs, CR, non-breaking and ideographic spaces, 3/4-byte chars)
    pool = ['a', 'b', 'é', '€', '😀', '\n', ' ', '\t', '\r', ' ', '　', 'x']
    for _ in range(3000 if tier == 'thorough' else 400):
        n = rng.randint(1, 60)
        texts.append(''.join(rng.choice(pool) for _ in range(n)))
    for _ in range(200):
        line = ''.join(rng.choice(['a', 'é', ' ']) for _ in range(rng.randint(80, 300)))
        texts.append(line + rng.choice(['', '\n', '\nz']))
    cases = []
    for t in texts:
        b = t.encode()
        bounds = [i for i in range(len(b) + 1) if i == len(b) or (b[i] & 0xC0) != 0x80]
        if len(t) > 8:
            bounds = sorted(set(rng.sample(bounds, min(len(bounds), 6)) + [0, len(b)]))
        for p in bounds:
            cases.append((t, p, None if (len(cases) % 3) else 'src/g.ebnf'))
    # very long lines: the column passes 2^16 (a run-time format width is a u16 in recent Rust: defect F10)
    long1 = 'a' * 65534 + '\u00e9' + 'bcd\nnext'
    b1 = long1.encode()
    for p in (65533, 65534, 65536, 65537, 65538, len(b1) - 5, len(b1)):
        cases.append((long1, p, None if p % 2 else 'src/long.ebnf'))
    long2 = 'x\n' + ' ' * 70000 + 'y'
    cases.append((long2, len(long2), None))
    cases.append((long2, 2 + 65535, 'src/long.ebnf'))
    return cases


NOCOLOR_DIR = os.path.join(os.path.dirname(os.path.dirname(os.path.dirname(os.path.abspath(__file__)))), 'harness', 'nocolor')
NOCOLOR_BIN = os.path.join(CACHE, 'target-nocolor', 'debug', 'pvnocolor')


def run_nocolor(ops):
    """the same ops through a build of the runtime WITHOUT its `colored` feature (separate workspace: no feature unification)"""
    with Lock('nocolor-build'):
        if not os.path.exists(os.path.join(NOCOLOR_DIR, 'Cargo.lock')):
            shutil.copy(os.path.join(REPO, 'Cargo.lock'), os.path.join(NOCOLOR_DIR, 'Cargo.lock'))
        env = dict(CARGO_ENV, CARGO_TARGET_DIR=os.path.join(CACHE, 'target-nocolor'))
        p, dt = run_cmd(['cargo', 'build', '--offline'], cwd=NOCOLOR_DIR, env=env)
        if p.returncode != 0:
            raise RuntimeError('no-colour build of the runtime failed: ' + p.stderr[-1500:])
    q = subprocess.run([NOCOLOR_BIN], input='\n'.join(ops) + '\n', stdout=subprocess.PIPE, stderr=subprocess.DEVNULL, text=True, timeout=1800)
    out = q.stdout.splitlines()
    return out + ['CRASH rc=%s' % q.returncode] * (len(ops) - len(out))


def run_C11(seed, tier):
    t0 = time.time()
    cases = pretty_cases(seed, tier)
    ops = ['pretty %s %d %s' % (hx(t), p, hx(f) if f is not None else '-') for t, p, f in cases]
    impl, model = run_unit(ops)
    plain = run_nocolor(ops)
    # colours forced on, escape sequences stripped again by the harness: same text, same alignment
    coloured, _ = run_unit(['prettyc' + o[len('pretty'):] for o in ops], model_too=False)
    res = dict(evaluations=len(cases), nontrivial=set(), samples=[], strict=[], prop=[], distribution=collections.Counter())
    for (t, p, f), i, m in zip(cases, impl, model):
        exp = expected_pretty(t, p, f)
        b = t.encode()
        kind = ('empty' if not t else 'eof' if p == len(b) else 'eol' if b[p:p + 1] == b'\n' else 'bol' if p > 0 and b[p - 1:p] == b'\n' else 'mid')
        res['distribution'][kind] += 1
        res['nontrivial'].add((kind, t.count('\n') > 0, any(ord(c) > 127 for c in t), len(t) > 8, f is not None))
        rp = dict(kind='unit', what='', op='pretty', text=t, text_hex=hx(t), position=p, file=f, impl=i, model=m)
        if not i.startswith('P '):
            rp['what'] = 'conversion to the pretty form panicked/crashed: ' + i
            res['prop'].append(rp)
            continue
        got = bytes.fromhex(i[2:]).decode()
        if got != exp:
            rp['what'] = 'pretty error does not point at line/column of the position'
            rp['expected'] = exp
            rp['got'] = got
            res['prop'].append(rp)
        if i != m:
            rp2 = dict(rp)
            rp2['what'] = 'PrettyParseError output: model vs implementation'
            res['strict'].append(rp2)
    res['distribution']['outputs with colours forced on compared (escape sequences stripped)'] = len(coloured)
    for (t, p, f), i, m in zip(cases, coloured, model):
        res['evaluations'] += 1
        if i != m:
            rp = dict(kind='unit', what='', op='prettyc', text=t, text_hex=hx(t), position=p, file=f, impl=i, model=m, build='colours on')
            exp = expected_pretty(t, p, f)
            got = bytes.fromhex(i[2:]).decode(errors='replace') if i.startswith('P ') else i
            rp['what'] = ('with colours enabled, the pretty error does not point at line/column of the position' if got != exp
                          else 'PrettyParseError output (colours on): model vs implementation')
            rp['expected'], rp['got'] = exp, got
            (res['prop'] if got != exp else res['strict']).append(rp)
    # the build without the `colored` feature must print the same text
    res['distribution']['outputs of the build without the colored feature compared'] = len(plain)
    for (t, p, f), i, m in zip(cases, plain, model):
        res['evaluations'] += 1
        if i != m:
            rp = dict(kind='unit', what='', op='pretty', text=t, text_hex=hx(t), position=p, file=f, impl=i, model=m, build='default-features = false')
            exp = expected_pretty(t, p, f)
            got = bytes.fromhex(i[2:]).decode(errors='replace') if i.startswith('P ') else i
            if got != exp:
                rp['what'] = 'built without the `colored` feature, the pretty error does not point at line/column of the position'
                rp['expected'], rp['got'] = exp, got
                res['prop'].append(rp)
            else:
                rp['what'] = 'PrettyParseError output (no-colour build): model vs implementation'
                res['strict'].append(rp)
        if len(res['samples']) < 4 and kind in ('eol', 'eof', 'bol') and len(t) < 8 and len(res['samples']) < 4 and hash((t, p)) % 50 == 0:
            res['samples'].append(dict(text=t, position=p, file=f, output=got))
    if not res['samples']:
        t, p, f = cases[len(cases) // 2]
        res['samples'].append(dict(text=t, position=p, file=f))
    res['engine'] = 'unitdiff'
    res['rule'] = ('all texts over {a, é, \\n, space} up to length %d x all boundary positions x with/without file name, plus random longer texts '
                   '(tabs, CR, U+00A0, U+3000, 3- and 4-byte characters, long lines); distinct per (position kind, has newline, multi-byte, long, file)' % (7 if tier == 'thorough' else 5))
    res['exhaustive_small'] = True
    res['wall_s'] = time.time() - t0
    return res


# ------------------------------------------------------------------------------------------- matchers (C04 part 2, C01 terminals)
def matcher_ops(seed, tier):
    rng = random.Random(seed)
    alpha = ['a', 'A', 'z', 'Z', '0', 'é', 'É', '€', '😀', ' ', '\n', '\x0b', ' ', '\t']
    maxlen = 3 if tier == 'thorough' else 2
    inputs = ['']
    for n in range(1, maxlen + 1):
        for t in itertools.product(alpha, repeat=n):
            inputs.append(''.join(t))
    chars = ['a', 'A', 'z', 'é', 'É', '€', '😀', ' ', '\n', '~', '\x7f', '\x80', 'ÿ', 'Ā', '￿', '\U00010000']
    lits = ['', 'a', 'az', 'aé', 'é', '€a', 'a ', 'zz', 'É', '😀', 'aa']
    ilits = ['az', 'a', 'za', '0a', 'a a', 'zz']
    ranges = [('a', 'z'), ('A', 'Z'), ('a', 'a'), ('z', 'a'), ('a', 'é'), ('é', '€'), ('\x00', '\x7f'), ('\x7f', '\x80'), ('€', '😀'), ('0', '9'), (' ', '~')]
    ops = []
    for inp in inputs:
        b = inp.encode()
        offs = [i for i in range(len(b) + 1) if i == len(b) or (b[i] & 0xC0) != 0x80]
        for off in offs:
            for far in ['-'] + ([str(len(b))] if len(inp) == 2 else []):
                head = '%s %d %s' % (hx(inp), off, far)
                ops.append('m char ' + head)
                ops.append('m ws ' + head)
                ops.append('m eoi ' + head)
                for c in chars:
                    ops.append('m chrlit %s %d' % (head, ord(c)))
                for c in 'az0 ':
                    ops.append('m chrliti %s %d' % (head, ord(c)))
                for l in lits:
                    ops.append('m strlit %s %s' % (head, hx(l)))
                for l in ilits:
                    ops.append('m strliti %s %s' % (head, hx(l)))
                for a, z in ranges:
                    ops.append('m range %s %d %d' % (head, ord(a), ord(z)))
    # case-insensitive matchers, exhaustively over ASCII: every input byte against every (lower-cased, as the generator passes
    # it) literal character – the neighbours of the letters in the ASCII table ('@' / '`', '[' / '{', …) differ from a letter's
    # case pair by the same bit
    for c in range(128):
        for l in range(128):
            if 65 <= l <= 90:
                continue
            ops.append('m chrliti %s 0 - %d' % (hx(chr(c)), l))
            ops.append('m strliti %s 0 - %s' % (hx(chr(c) + 'Q'), hx(chr(l) + 'q')))
    return ops


def run_matchers(seed, tier, pid):
    t0 = time.time()
    ops = matcher_ops(seed, tier)
    impl, model = run_unit(ops)
    res = dict(evaluations=len(ops), nontrivial=set(), samples=[], strict=[], prop=[], distribution=collections.Counter())
    for op, i, m in zip(ops, impl, model):
        p = op.split(' ')
        inp = bytes.fromhex(p[2]) if p[2] != '-' else b''
        kind = i.split(' ')[0]
        res['distribution'][p[1] + ':' + kind] += 1
        res['nontrivial'].add((p[1], kind, any(x > 127 for x in inp), tuple(p[5:])))
        rp = dict(kind='unit', op=op, impl=i, model=m, what='')
        if kind in ('PANIC', 'CRASH'):
            rp['what'] = 'runtime matcher panicked: ' + i
            res['prop'].append(rp)
        elif kind in ('OK', 'ERR'):
            off = int(i.split(' ')[1])
            if off > len(inp) or (off < len(inp) and (inp[off] & 0xC0) == 0x80):
                rp['what'] = 'matcher produced an offset that is not a character boundary inside the input'
                res['prop'].append(rp)
        if i != m:
            rp2 = dict(rp)
            rp2['what'] = 'runtime matcher: model vs implementation'
            res['strict'].append(rp2)
    res['samples'] = [dict(op=ops[k], impl=impl[k], model=model[k]) for k in (7, len(ops) // 3, len(ops) // 2)]
    res['engine'] = 'unitdiff'
    res['rule'] = ('all inputs over a 14-character alphabet (all four UTF-8 length classes, case pairs, whitespace and near misses) up to length %d x all boundary offsets x 8 matchers x '
                   'literal/range argument pools; distinct per (matcher, outcome, non-ASCII input, arguments)' % (3 if tier == 'thorough' else 2))
    res['wall_s'] = time.time() - t0
    return res


# ------------------------------------------------------------------------------------------- C18 fsdiff
GRAMMARS_OK = ["@export\nA = 'x';\n", "@export\nA = 'y';\n", "@export\nA = 'x' b:B;\nB = 'b';\n", "@export\nA = {'x'};\n# c\n",
               "@export\nA = 'x';\n# mv48hbz4\n", "@export\nA = 'y';\n# pxz11qsd\n"]
# same characters, different line breaks, different meaning (the comment swallows `b:B` in the second one)
NEWLINE_PAIR = ("@export\nA = 'x' # c\n b:B;\nB = 'b';\n", "@export\nA = 'x' # c b:B\n;\nB = 'b';\n")
GRAMMARS_BAD = ["@export\nA = 'x'", "A = ;;;", "@export A = !b:B; B='x';", "", "@export\nA = >Missing;\n"]
PREFIXES = ['', 'use a;', 'use a;\nuse b;', 'use a;\n', '// p', 'pub struct X;', 'use a;\nuse b;\nuse c;']
# prefixes for the `.format()` mode: rustfmt keeps the first five as they are and rewrites the last two
PREFIXES_FMT = ['', 'use a;', 'use a;\nuse b;', '// p', 'pub struct X;', 'use b;use a;', 'pub   struct  Y ;']
K1_PAIR = ("@export\nA = 'x';\n# mv48hbz4\n", "@export\nA = 'y';\n# pxz11qsd\n")
K1P_PAIR = ('use a;\n// kpe7aavz\n', 'use a;\n')


def fs_histories(seed, tier):
    rng = random.Random(seed)
    n = 3000 if tier == 'thorough' else 300
    hs = []
    # directed histories first: prefix shrink/removal (F6), failing run keeps destination, delete+run
    directed = [
        ['G0', 'P2', 'R', 'P1', 'R', 'P0', 'R'],
        ['G0', 'P1', 'R', 'P0', 'R', 'R'],
        ['G0', 'R', 'B0', 'R', 'G1', 'R'],
        ['G0', 'R', 'D', 'R', 'R'],
        ['G0', 'R', 'N', 'R', 'G0', 'R'],
        ['B1', 'R', 'G2', 'R', 'B2', 'R', 'R'],
        ['G0', 'P3', 'R', 'P1', 'R', 'P2', 'R', 'P6', 'R', 'P2', 'R'],
    ]
    for d in directed:
        for mode in ('file', 'dest', 'dir', 'dirlink'):
            hs.append((mode, ['D' if (o == 'N' and mode.startswith('dir')) else o for o in d]))
    # `.format()`: rustfmt rewrites the destination after the fact; prefixes it keeps and prefixes it rewrites
    for d in (['G0', 'F1', 'R', 'R', 'F5', 'R', 'R', 'R'], ['G2', 'F6', 'R', 'R', 'F0', 'R', 'R'], ['G0', 'F5', 'R', 'G1', 'R', 'R', 'D', 'R', 'B1', 'R'],
              ['G3', 'F2', 'R', 'F5', 'R', 'F2', 'R', 'R']):
        hs.append(('fmt', d))
    # known finding K1 (two grammars with equal CRC-32) is replayed deterministically
    hs.append(('file', ['GK0', 'R', 'GK1', 'R']))
    hs.append(('file', ['G0', 'PK0', 'R', 'PK1', 'R']))
    for mode in ('file', 'dir', 'fmt'):
        hs.append((mode, ['GN0', 'R', 'GN1', 'R', 'R', 'GN0', 'R']))
    # directory mode with two grammar files in the walked tree (`H…`/`D2` address the second one)
    for d in (['G0', 'H1', 'R', 'R'], ['G0', 'HB0', 'R', 'H1', 'R', 'R'], ['HB1', 'G1', 'R', 'H2', 'R'], ['G0', 'H0', 'P1', 'R', 'P0', 'R', 'D2', 'R'],
              ['G0', 'H1', 'R', 'B2', 'D2', 'R', 'G3', 'R'], ['G0', 'HB2', 'D', 'R', 'H0', 'D', 'R']):
        hs.append(('dir2', d))
    rng2 = random.Random(seed * 7919 + 13)
    for _ in range(n // 5):
        ops = ['G%d' % rng2.randrange(4), 'H%d' % rng2.randrange(4)]
        for _ in range(rng2.randint(2, 10)):
            q = rng2.random()
            if q < 0.40:
                ops.append('R')
            elif q < 0.50:
                ops.append('G%d' % rng2.randrange(4))
            elif q < 0.60:
                ops.append('H%d' % rng2.randrange(4))
            elif q < 0.68:
                ops.append('B%d' % rng2.randrange(len(GRAMMARS_BAD)))
            elif q < 0.76:
                ops.append('HB%d' % rng2.randrange(len(GRAMMARS_BAD)))
            elif q < 0.88:
                ops.append('P%d' % rng2.randrange(len(PREFIXES)))
            elif q < 0.94:
                ops.append('D')
            else:
                ops.append('D2')
        ops.append('R')
        hs.append(('dir2', ops))
    n += n // 5
    while len(hs) < n:
        k = rng.randint(2, 12)
        ops = []
        for _ in range(k):
            p = rng.random()
            if p < 0.40:
                ops.append('R')
            elif p < 0.60:
                ops.append('G%d' % rng.randrange(4))     # excludes the colliding pair (known finding K1, replayed separately)
            elif p < 0.72:
                ops.append('B%d' % rng.randrange(len(GRAMMARS_BAD)))
            elif p < 0.90:
                ops.append('P%d' % rng.randrange(len(PREFIXES)))
            elif p < 0.96:
                ops.append('D')
            else:
                ops.append('N')
        ops.append('R')
        mode = rng.choice(['file', 'dest', 'dir', 'dirlink', 'fmt'])
        if mode == 'fmt':
            ops = [('F%d' % rng.randrange(len(PREFIXES_FMT))) if o[0] == 'P' else o for o in ops]
        if mode.startswith('dir'):
            ops = ['G%d' % rng.randrange(4)] + ['D' if o == 'N' else o for o in ops]
        hs.append((mode, ops))
    return hs


def fnv64_hex(b):
    h = 0xcbf29ce484222325
    for x in b:
        h = ((h ^ x) * 0x100000001b3) & 0xFFFFFFFFFFFFFFFF
    return '%016x' % h


def fs_lines(hs):
    lines = []
    for i, (mode, ops) in enumerate(hs):
        lines.append('H h%d %s' % (i, mode))
        for o in ops:
            if o == 'R':
                lines.append('R')
            elif o == 'D':
                lines.append('D')
            elif o == 'D2':
                lines.append('D2')
            elif o.startswith('HB'):
                lines.append('G2 ' + hx(GRAMMARS_BAD[int(o[2:])]))
            elif o[0] == 'H':
                lines.append('G2 ' + hx(GRAMMARS_OK[int(o[1:])]))
            elif o == 'N':
                lines.append('G NONE')
            elif o.startswith('GK'):
                lines.append('G ' + hx(K1_PAIR[int(o[2:])]))
            elif o.startswith('GN'):
                lines.append('G ' + hx(NEWLINE_PAIR[int(o[2:])]))
            elif o[0] == 'G':
                lines.append('G ' + hx(GRAMMARS_OK[int(o[1:])]))
            elif o[0] == 'B':
                lines.append('G ' + hx(GRAMMARS_BAD[int(o[1:])]))
            elif o.startswith('PK'):
                lines.append('P ' + hx(K1P_PAIR[int(o[2:])]))
            elif o[0] == 'P':
                lines.append('P ' + hx(PREFIXES[int(o[1:])]))
            elif o[0] == 'F':
                lines.append('P ' + hx(PREFIXES_FMT[int(o[1:])]))
    return lines


def run_fs(hs, workname):
    ok, err, dt = build_harness()
    if not ok:
        raise RuntimeError('harness build failed:\n' + err[-3000:])
    d = tempfile.mkdtemp(prefix='pvfs-')
    try:
        # the compiler as a table: every grammar text through the real library route
        texts = GRAMMARS_OK + GRAMMARS_BAD + list(K1_PAIR) + list(NEWLINE_PAIR)
        lst = os.path.join(d, 'list.txt')
        with open(lst, 'w') as f:
            for i, t in enumerate(texts):
                p = os.path.join(d, 't%d.ebnf' % i)
                with open(p, 'wb') as g:
                    g.write(t.encode())
                f.write('t%d\t%s\t%s\t-\t-\n' % (i, p, os.path.join(d, 't%d.code' % i)))
        p = subprocess.run([PVGEN, 'gen', lst], stdout=subprocess.PIPE, stderr=subprocess.DEVNULL, text=True, timeout=300)
        outcome = {}
        for line in p.stdout.splitlines():
            q = line.split('\t')
            outcome[q[0]] = q[1]
        with open(os.path.join(d, 'table.txt'), 'w') as f:
            for i, t in enumerate(texts):
                f.write('%s %s\n' % (hx(t), os.path.join(d, 't%d.code' % i) if outcome.get('t%d' % i) == 'OK' else 'ERR'))
        # constants of the header
        q = subprocess.run([PVUNIT, 'unit'], input='hdr %s\n' % hx('x'), stdout=subprocess.PIPE, text=True)
        hdr = bytes.fromhex(q.stdout.split(' ')[1].strip()).decode()
        first = hdr.splitlines()[0]
        version = first.split(' v')[1].split(' built at ')[0]
        build_time = first.split(' built at ')[1]
        with open(os.path.join(d, 'consts.txt'), 'w') as f:
            f.write(version + '\n' + build_time + '\n')
        with open(os.path.join(d, 'histories.txt'), 'w') as f:
            f.write('\n'.join(fs_lines(hs)) + '\n')
        fmt_checked, fmt_broken = [0], []
        # rustfmt as a table for the model: every (valid grammar, format-mode prefix) output, unformatted -> formatted
        if any(m == 'fmt' for m, _ in hs):
            import zlib
            with open(os.path.join(d, 'fmt.txt'), 'w') as ft:
                n = 0
                for i, tx in enumerate(texts):
                    if outcome.get('t%d' % i) != 'OK':
                        continue
                    code = open(os.path.join(d, 't%d.code' % i), 'rb').read()
                    for pf in PREFIXES_FMT:
                        un = ('// This file was generated by Peginator v%s built at %s\n// CRC-32/ISO-HDLC of the grammar file: %08x\n'
                              '// Any changes to it will be lost on regeneration\n// CRC-32/ISO-HDLC of the prefix: %08x\n\n%s\n'
                              % (version, build_time, zlib.crc32(tx.encode()), zlib.crc32(pf.encode()), pf)).encode() + code
                        fp = os.path.join(d, 'fmt%d.rs' % n)
                        n += 1
                        with open(fp, 'wb') as fh:
                            fh.write(un)
                        subprocess.run(['rustfmt', fp], stdout=subprocess.DEVNULL, stderr=subprocess.DEVNULL, timeout=60)
                        ft.write('%s %s\n' % (fnv64_hex(un), fp))
                        # the assumption of the format-mode theorems (KeepsHeaderLines): rustfmt leaves the four header lines alone
                        hl = b'\n'.join(un.split(b'\n')[:4]) + b'\n'
                        fmt_checked[0] += 1
                        if not open(fp, 'rb').read().startswith(hl):
                            fmt_broken.append(pf)
        pi = subprocess.run([PVUNIT, 'fs', d], stdout=subprocess.PIPE, stderr=subprocess.DEVNULL, text=True, timeout=3000)
        # mode dir2: the order in which the operating system listed the two files is an environment parameter of the model
        # (`runDir` takes the files in walk order); the harness reports it per run and it is handed to the model on the `R` line
        ords = {tuple(l.split(' ')[:2]): l.split(' ')[-1] for l in pi.stdout.splitlines() if len(l.split(' ')) == 8}
        if ords:
            out_lines, cur, dir2, kk = [], None, False, 0
            for l in fs_lines(hs):
                if l.startswith('H '):
                    cur, dir2, kk = l.split(' ')[1], l.split(' ')[2] == 'dir2', 0
                if l == 'R':
                    if dir2:
                        l = 'R ' + ords.get((cur, str(kk)), '01')
                    kk += 1
                out_lines.append(l)
            with open(os.path.join(d, 'histories.txt'), 'w') as f:
                f.write('\n'.join(out_lines) + '\n')
        pm = subprocess.run([PEGVERIF, 'fs', d], stdout=subprocess.PIPE, stderr=subprocess.PIPE, text=True, timeout=3000)
        if pm.returncode != 0:
            raise RuntimeError('model fs driver failed: ' + pm.stderr[-1000:])
        # expected outputs (ground truth for R_prop): hash of header+prefix+code for the current grammar/prefix
        return pi.stdout.splitlines(), pm.stdout.splitlines(), dict(version=version, build_time=build_time, outcome=outcome, header_sample=hdr,
                                                                      rustfmt_outputs_checked_for_KeepsHeaderLines=fmt_checked[0], rustfmt_header_lines_changed=fmt_broken)
    finally:
        shutil.rmtree(d, ignore_errors=True)


def check_dir2(i, ops, im, mo, res):
    """directory mode with two grammar files: per run Result + (content hash, rewritten) of both destinations"""
    prev = ['NONE', 'NONE']
    k = 0
    for oi, o in enumerate(ops):
        if o == 'D':
            prev[0] = 'NONE'
        if o == 'D2':
            prev[1] = 'NONE'
        if o != 'R':
            continue
        key = ('h%d' % i, str(k))
        a, b = im.get(key), mo.get(key)
        res['evaluations'] += 1
        res['distribution']['dir2 ' + (a or ['missing'])[0]] += 1
        rp = dict(kind='fs', history=ops, mode='dir2', run_index=k, impl=a, model=b, what='', ops_until_run=ops[:oi + 1],
                  grammars=GRAMMARS_OK, bad_grammars=GRAMMARS_BAD, prefixes=PREFIXES,
                  layout='file 0 = sub/g.ebnf, file 1 = sub/deep/h.ebnf; impl = [result, hash0, rewritten0, hash1, rewritten1, listing order]')
        if a is None or a[0] == 'PANIC' or b is None or len(a) != 6 or len(b) != 7:
            rp['what'] = 'Compile::directory(..).run() panicked or produced no answer'
            res['prop'].append(rp)
            k += 1
            continue
        fresh = b[5:7]
        files = [(a[1], a[2]), (a[3], a[4])]
        bad = [f == 'UNCOMPILABLE' for f in fresh]
        if a[0] == 'OK':
            res['distribution']['dir2 files rewritten in a successful walk: %d' % sum(1 for f in files if f[1] != '0')] += 1
            for j in (0, 1):
                if bad[j]:
                    rp['what'] = 'directory run reported success although file %d does not compile' % j
                elif files[j][0] != fresh[j]:
                    rp['what'] = 'after a successful directory run destination %d is not the compilation of its grammar and the prefix' % j
                elif prev[j] == fresh[j] and files[j][1] != '0':
                    rp['what'] = 'an up-to-date destination (file %d) was rewritten by the directory run' % j
        elif a[0] == 'ERR':
            if not any(bad):
                rp['what'] = 'directory run failed although both grammars are valid'
            for j in (0, 1):
                unchanged = files[j][0] == prev[j] and files[j][1] == '0'
                if bad[j] and not unchanged:
                    rp['what'] = 'a failing directory run modified the destination of the file that does not compile (file %d)' % j
                elif not bad[j] and not unchanged and files[j][0] != fresh[j]:
                    rp['what'] = 'a failing directory run left destination %d neither as it was nor as the compilation of its grammar' % j
            if sum(1 for j in (0, 1) if not (files[j][0] == prev[j] and files[j][1] == '0')) == 0:
                res['distribution']['dir2 failing walk: nothing touched'] += 1
            else:
                res['distribution']['dir2 failing walk: the file listed first was compiled'] += 1
        if rp['what']:
            res['prop'].append(rp)
        if a[:5] != b[:5]:
            rp2 = dict(rp)
            rp2['what'] = 'directory run over two files: model (runDir) vs implementation (result, destination hashes, rewritten)'
            res['strict'].append(rp2)
        prev = [a[1], a[3]]
        k += 1


def run_C18(seed, tier):
    t0 = time.time()
    hs = fs_histories(seed, tier)
    impl, model, info = run_fs(hs, 'fs')
    res = dict(evaluations=0, nontrivial=set(), samples=[], strict=[], prop=[], distribution=collections.Counter())
    im = {tuple(l.split(' ')[:2]): l.split(' ')[2:] for l in impl}
    mo = {tuple(l.split(' ')[:2]): l.split(' ')[2:] for l in model}
    for i, (mode, ops) in enumerate(hs):
        k = 0
        prev_hash = 'NONE'
        if mode == 'dir2':
            check_dir2(i, ops, im, mo, res)
            res['nontrivial'].add((mode, tuple('D2' if o == 'D2' else o[0] for o in ops)))
            continue
        for oi, o in enumerate(ops):
            if o == 'D':
                prev_hash = 'NONE'
            if o == 'R':
                key = ('h%d' % i, str(k))
                a, b = im.get(key), mo.get(key)
                res['evaluations'] += 1
                res['distribution'][(a or ['missing'])[0]] += 1
                rp = dict(kind='fs', history=ops, mode=mode, run_index=k, impl=a, model=b, what='',
                          ops_until_run=ops[:oi + 1], grammars=GRAMMARS_OK + list(K1_PAIR), bad_grammars=GRAMMARS_BAD, prefixes=PREFIXES,
                          prefixes_fmt=PREFIXES_FMT)
                if a is None or a[0] == 'PANIC' or b is None:
                    rp['what'] = 'Compile::run panicked or produced no answer'
                    res['prop'].append(rp)
                else:
                    fresh = b[3]
                    if a[0] == 'OK' and fresh in ('UNCOMPILABLE', 'UNREADABLE'):
                        rp['what'] = 'run reported success although the grammar is %s' % fresh.lower()
                        res['prop'].append(rp)
                    elif a[0] == 'OK' and a[1] != fresh:
                        rp['what'] = 'after a successful run the destination is not the compilation of the current grammar and prefix'
                        res['prop'].append(rp)
                    elif a[0] == 'OK' and prev_hash == fresh and a[2] != '0':
                        rp['what'] = 'an up-to-date destination was rewritten'
                        res['prop'].append(rp)
                    elif a[0] == 'ERR' and (a[1] != prev_hash or a[2] != '0'):
                        rp['what'] = 'a failing run modified the destination'
                        res['prop'].append(rp)
                    elif a[0] == 'ERR' and fresh not in ('UNCOMPILABLE', 'UNREADABLE'):
                        rp['what'] = 'run failed on a readable, valid grammar'
                        res['prop'].append(rp)
                    if a[:3] != b[:3]:
                        rp2 = dict(rp)
                        rp2['what'] = 'build-script run: model vs implementation (result, destination hash, rewritten)'
                        res['strict'].append(rp2)
                    prev_hash = a[1]
                k += 1
        res['nontrivial'].add((mode, tuple(o[0] for o in ops)))
    if info.get('rustfmt_header_lines_changed'):
        res['strict'].append(dict(kind='fs', what='assumption KeepsHeaderLines of the format-mode theorems does not hold for the installed rustfmt (prefixes %s)' % info['rustfmt_header_lines_changed'][:3],
                                  history=[], mode='fmt'))
    res['distribution']['rustfmt outputs whose header lines were checked (KeepsHeaderLines)'] = info.get('rustfmt_outputs_checked_for_KeepsHeaderLines', 0)
    res['samples'] = [dict(mode=hs[j][0], ops=hs[j][1], impl=[im.get(('h%d' % j, str(q))) for q in range(hs[j][1].count('R'))]) for j in (0, 3, len(hs) - 1)]
    res['engine'] = 'fsdiff'
    res['rule'] = ('histories of {edit grammar (4 valid, 5 invalid texts, delete), set prefix (7 prefixes incl. proper prefixes of each other and empty), delete destination, run} '
                   'of length <= 13 against the real Compile in a scratch directory, file / explicit destination / directory / symlinked directory / directory with two grammar files at different depths (model: runDir, listing order reported by the harness) / `.format()` mode (prefixes rustfmt keeps and prefixes it rewrites); per run: Result, destination content hash, rewritten or untouched; '
                   'distinct per (mode, operation kinds)')
    res['assumptions'] = ['rustfmt is a parameter of the model (`fmt`); the correspondence run gives the model a table built with the real rustfmt',
                          'the grammar compiler is a table built by calling the real library route once per grammar text']
    res['wall_s'] = time.time() - t0
    res['info'] = info
    return res


def run(pid, seed, tier):
    if pid == 'C11':
        return run_C11(seed, tier)
    if pid == 'C18':
        return run_C18(seed, tier)
    raise RuntimeError('no engine registered for ' + pid)


def replay(pid, v, path):
    if v.get('kind') == 'unit' and v.get('op') == 'pretty':
        t, p, f = v['text'], v['position'], v.get('file')
        impl, model = run_unit(['pretty %s %d %s' % (hx(t), p, hx(f) if f is not None else '-')])
        exp = expected_pretty(t, p, f)
        print('text %r position %d' % (t, p))
        print('implementation:', impl[0])
        print('model         :', model[0])
        ok = impl[0].startswith('P ') and bytes.fromhex(impl[0][2:]).decode() == exp and impl[0] == model[0]
        if not ok:
            print('VIOLATION property=%s replay=%s' % (pid, path))
            return 1
        print('no disagreement on this case now')
        return 0
    if v.get('kind') == 'unit':
        impl, model = run_unit([v['op']])
        print(v['op'])
        print('implementation:', impl[0])
        print('model         :', model[0])
        if impl[0] != model[0] or impl[0].startswith(('PANIC', 'CRASH')):
            print('VIOLATION property=%s replay=%s' % (pid, path))
            return 1
        return 0
    if v.get('kind') == 'fs':
        impl, model, info = run_fs([(v['mode'], v['history'])], 'fsreplay')
        print('history', v['mode'], v['history'])
        print('implementation:', impl)
        print('model         :', model)
        # per run: `<id> <k> <result> <destination hash> <rewritten>`; the model line ends with the hash of the fresh compilation
        bad = False
        prev = 'NONE'
        for a, b in zip(impl, model):
            a, b = a.split(' ')[2:], b.split(' ')[2:]
            fresh = b[3] if len(b) > 3 else '?'
            if a[:3] != b[:3] or (a[0] == 'OK' and a[1] != fresh) or (a[0] == 'ERR' and a[1] != prev):
                bad = True
            prev = a[1]
        if bad or len(impl) != len(model):
            print('VIOLATION property=%s replay=%s' % (pid, path))
            return 1
        print('no disagreement on this history now')
        return 0
    if v.get('kind') in ('gen', 'gentext', 'compile', 'routes', 'front'):
        return replay_text(pid, v, path)
    print('unknown replay kind', v.get('kind'))
    return 2


def replay_text(pid, v, path):
    """replays whose subject is a grammar text: shown through the front end (shipped and model), the generator (real and
    model), the command-line tool and the build-script helper, and rustc for the generated code"""
    from . import routes, gendiff
    ok, err, dt = build_harness()
    text = v.get('grammar') or v.get('text') or ''
    d = tempfile.mkdtemp(prefix='pvreplay-')
    try:
        src = os.path.join(d, 'g.ebnf')
        with open(src, 'w', newline='') as f:
            f.write(text)
        print('grammar text:\n' + text[:2000])
        print('recorded    :', v.get('what'))
        lst = os.path.join(d, 'l.lst')
        derives = v.get('derives') or '-'
        open(lst, 'w').write('g\t%s\t%s\t-\t%s\n' % (src, os.path.join(d, 'g.lib'), derives))
        q = subprocess.run([routes.PVGEN, 'gen', lst], stdout=subprocess.PIPE, stderr=subprocess.PIPE, text=True, timeout=300)
        gen_line = (q.stdout.strip() or 'pvgen exit %d (crashed)' % q.returncode)[:300]
        print('library call :', gen_line)
        a = subprocess.run([routes.PVGEN, 'ast', lst], stdout=subprocess.PIPE, stderr=subprocess.PIPE, text=True, timeout=300)
        print('front end    :', (a.stdout.strip() or 'exit %d' % a.returncode)[:300])
        mf = os.path.join(d, 'front.txt')
        open(mf, 'w').write('T g %s 20000\n' % (text.encode().hex() or '-'))
        m = subprocess.run([PEGVERIF, 'frontend', mf], stdout=subprocess.PIPE, stderr=subprocess.PIPE, text=True, timeout=600)
        print('model front  :', m.stdout.strip()[:300])
        cli = routes.build_cli()
        cargs = [cli, src]
        if derives != '-':
            for dv in derives.split(','):
                cargs += ['-d', dv]
        c = subprocess.run(cargs, stdout=subprocess.PIPE, stderr=subprocess.PIPE, text=True, timeout=120)
        print('command line : exit %d, %d bytes' % (c.returncode, len(c.stdout)))
        b = subprocess.run([routes.PVUNIT, 'compile', src, os.path.join(d, 'g.rs'), '-', derives], stdout=subprocess.PIPE, stderr=subprocess.PIPE, text=True, timeout=120)
        print('build script : ' + b.stdout.strip()[:200])
        bad = []
        lib_ok = gen_line.split('\t')[1:2] == ['OK']
        if q.returncode != 0 and not q.stdout.strip():
            bad.append('the generator did not answer')
        if lib_ok:
            lib = open(os.path.join(d, 'g.lib')).read()
            if c.returncode != 0 or lib not in c.stdout:
                bad.append('command-line output differs from the library call')
            if b.returncode != 0 or lib not in open(os.path.join(d, 'g.rs')).read():
                bad.append('build-script output differs from the library call')
            # declared public types against the model of the generator (documented field/arity mapping)
            if v.get('sexp'):
                gf = os.path.join(d, 'gen_cases.txt')
                dv = derives if re.match(r'^[A-Za-z0-9_,:\-]+$', derives) else '#' + derives.encode().hex()
                open(gf, 'w').write('G g %s 400\n%s\n' % (dv, v['sexp']))
                mg = subprocess.run([PEGVERIF, 'gen', gf], stdout=subprocess.PIPE, stderr=subprocess.PIPE, text=True, timeout=600)
                mdecls = [l.split('\t')[2] for l in mg.stdout.splitlines() if l.split('\t')[1:2] == ['DECL']]
                mcls = next((l.split('\t')[1] for l in mg.stdout.splitlines() if l.split('\t')[1:2] != ['DECL']), '?')
                idecls = gendiff.extract_decls(lib)
                print('model        : %s, %d declarations; implementation: %d declarations' % (mcls, len(mdecls), len(idecls)))
                if mcls != 'ACCEPT':
                    bad.append('the model of the generator rejects a grammar the generator accepts')
                elif idecls != mdecls:
                    k = next((j for j in range(min(len(idecls), len(mdecls))) if idecls[j] != mdecls[j]), min(len(idecls), len(mdecls)))
                    print('  first difference: implementation %s' % (idecls[k] if k < len(idecls) else '-'))
                    print('                    model          %s' % (mdecls[k] if k < len(mdecls) else '-'))
                    bad.append('declared public types differ from the documented field/arity mapping')
            # rustc on the generated code (the suite's own batch builder, one case)
            if v.get('sexp'):
                from . import pegdiff
                case = dict(id='replay', rules=None, sexp=v['sexp'], text=text, settings=dict(uctx=False), inputs=[], tags=[])
                try:
                    r = pegdiff.run_cases_text([case], os.path.join(CACHE, 'replay'))
                    if r['compile_fail']:
                        print('rustc        :', list(r['compile_fail'].values())[0][-300:])
                        bad.append('generated code does not compile')
                    else:
                        print('rustc        : generated code compiles')
                except Exception as e:
                    print('rustc        : not run (%s)' % str(e)[:100])
        else:
            if c.returncode == 0 or b.returncode == 0:
                bad.append('a grammar the library call rejects is accepted by another route')
        if (a.stdout.strip().split('\t')[1:2] or ['?'])[0] != (m.stdout.strip().split('\t')[1:2] or ['?'])[0]:
            bad.append('shipped and model front end disagree')
        if bad:
            print('now: ' + '; '.join(bad))
            print('VIOLATION property=%s replay=%s' % (pid, path))
            return 1
        print('no disagreement on this text now (routes agree, front ends agree%s)' % (', code compiles' if lib_ok else ''))
        return 0
    finally:
        shutil.rmtree(d, ignore_errors=True)
