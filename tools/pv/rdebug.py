"""Parser for the canonicalised Rust `{:?}` output of peginator_codegen::Grammar (strings as S"hex",
chars as C'hex') and conversion to the generator's AST tuples (gast)."""
import re

TOK = re.compile(r'\s*(S"[0-9a-f]*"|C\'[0-9a-f]+\'|[A-Za-z_][A-Za-z0-9_]*|\d+|[{}()\[\],:])')


def tokenize(s):
    pos = 0
    out = []
    while pos < len(s):
        m = TOK.match(s, pos)
        if not m:
            if s[pos:].strip() == '':
                break
            raise ValueError('bad debug text at %d: %r' % (pos, s[pos:pos + 30]))
        out.append(m.group(1))
        pos = m.end()
    return out


class P:
    def __init__(self, toks):
        self.t = toks
        self.i = 0

    def peek(self):
        return self.t[self.i] if self.i < len(self.t) else None

    def eat(self, x=None):
        v = self.t[self.i]
        if x is not None and v != x:
            raise ValueError('expected %s got %s at %d' % (x, v, self.i))
        self.i += 1
        return v

    def value(self):
        t = self.eat()
        if t.startswith('S"'):
            return ('str', bytes.fromhex(t[2:-1]).decode('utf-8'))
        if t.startswith("C'"):
            return ('chr', chr(int(t[2:-1], 16)))
        if t == '[':
            xs = []
            while self.peek() != ']':
                xs.append(self.value())
                if self.peek() == ',':
                    self.eat()
            self.eat(']')
            return ('list', xs)
        if t.isdigit():
            return ('num', int(t))
        # identifier
        if self.peek() == '{':
            self.eat('{')
            fs = {}
            while self.peek() != '}':
                k = self.eat()
                self.eat(':')
                fs[k] = self.value()
                if self.peek() == ',':
                    self.eat()
            self.eat('}')
            return ('struct', t, fs)
        if self.peek() == '(':
            self.eat('(')
            xs = []
            while self.peek() != ')':
                xs.append(self.value())
                if self.peek() == ',':
                    self.eat()
            self.eat(')')
            return ('tuple', t, xs)
        return ('unit', t)


def parse(s):
    p = P(tokenize(s))
    v = p.value()
    return v


# ---------------------------------------------------------------- Grammar Debug tree -> gast
SIMPLE = {'SimpleEscapeNewline': 'n', 'SimpleEscapeCarriageReturn': 'r', 'SimpleEscapeTab': 't', 'SimpleEscapeBackslash': 'b',
          'SimpleEscapeQuote': 'q', 'SimpleEscapeDQuote': 'd'}


def opt(v):
    if v[0] == 'unit' and v[1] == 'None':
        return None
    assert v[0] == 'tuple' and v[1] == 'Some'
    return v[2][0]


def item(v):
    assert v[0] == 'tuple', v
    k, x = v[1], v[2][0]
    if k == 'char':
        return ('c', x[1])
    if k == 'HexaEscape':
        return ('x', x[2]['c1'][1], x[2]['c2'][1])
    if k == 'SimpleEscape':
        return ('s', SIMPLE[x[1]])
    if k == 'Utf8Escape':
        ds = [x[2]['c1'][1]]
        for n in ('c2', 'c3', 'c4', 'c5', 'c6'):
            o = opt(x[2][n])
            if o is not None:
                ds.append(o[1])
        return ('u', ds)
    raise ValueError(v)


def choice(v):
    assert v[0] == 'struct' and v[1] == 'Choice', v
    return ('choice', [sequence(s) for s in v[2]['choices'][1]])


def sequence(v):
    return ('seq', [delim(p) for p in v[2]['parts'][1]])


def delim(v):
    assert v[0] == 'tuple', v
    k, x = v[1], v[2][0]
    if k == 'Group':
        return ('group', choice(x[2]['body']))
    if k == 'Optional':
        return ('opt', choice(x[2]['body']))
    if k == 'Closure':
        return ('plus' if opt(x[2]['at_least_one']) is not None else 'star', choice(x[2]['body']))
    if k == 'NegativeLookahead':
        return ('neg', delim(x[2]['expr']))
    if k == 'PositiveLookahead':
        return ('pos', delim(x[2]['expr']))
    if k == 'CharacterRange':
        return ('range', item(x[2]['from']), item(x[2]['to']))
    if k == 'StringLiteral':
        return ('lit', opt(x[2]['insensitive']) is not None, [item(i) for i in x[2]['body'][1]])
    if k == 'EndOfInput':
        return ('eoi',)
    if k == 'IncludeRule':
        return ('incl', x[2]['rule'][1])
    if k == 'Field':
        nm = opt(x[2]['name'])
        if nm is None:
            name = None
        elif nm[1] == 'OverrideMarker':
            name = '@'
        else:
            name = nm[2][0][1]
        return ('field', name, opt(x[2]['boxed']) is not None, x[2]['typ'][1])
    raise ValueError(k)


DIRS = {'StringDirective': 'string', 'NoSkipWsDirective': 'no_skip_ws', 'ExportDirective': 'export', 'PositionDirective': 'position',
        'MemoizeDirective': 'memoize', 'LeftrecDirective': 'leftrec'}


def path(v):
    return [p[1] for p in v[1]]


def directive(v):
    k, x = v[1], v[2][0]
    if k == 'CheckDirective':
        return ('check', path(x[2]['function']))
    return DIRS[k]


def rules(v):
    assert v[0] == 'struct' and v[1] == 'Grammar', v
    out = []
    for r in v[2]['rules'][1]:
        k, x = r[1], r[2][0]
        if k == 'Rule':
            out.append(dict(kind='rule', dirs=[directive(d) for d in x[2]['directives'][1]], name=x[2]['name'][1], body=choice(x[2]['definition'])))
        elif k == 'CharRule':
            parts = []
            for p in x[2]['choices'][1]:
                pk, px = p[1], p[2][0]
                if pk == 'CharacterRange':
                    parts.append(('range', item(px[2]['from']), item(px[2]['to'])))
                elif pk == 'CharRangePart':
                    parts.append(('chr', item(px)))
                else:
                    parts.append(('id', px[1]))
            out.append(dict(kind='char', checks=[path(d[2]['function']) for d in x[2]['directives'][1]], name=x[2]['name'][1], parts=parts))
        else:
            dv = x[2]['directive'][2]
            ret = opt(dv['return_type'])
            out.append(dict(kind='extern', fn=path(dv['function']), ret=path(ret) if ret is not None else None, name=x[2]['name'][1]))
    return out


def debug_to_rules(s):
    return rules(parse(s))
