"""gast AST -> Lean term text (for Extracted/MetaGrammar.lean)."""


def s(x):
    return '"' + x.replace('\\', '\\\\').replace('"', '\\"') + '"'


def ch(c):
    return '(Char.ofNat %d)' % ord(c)


SIMPLE = {'n': '.newline', 'r': '.cr', 't': '.tab', 'b': '.backslash', 'q': '.quote', 'd': '.dquote'}


def item(it):
    k = it[0]
    if k == 'c':
        return '(.chr %s)' % ch(it[1])
    if k == 'x':
        return '(.hexa %s %s)' % (ch(it[1]), ch(it[2]))
    if k == 's':
        return '(.simple %s)' % SIMPLE[it[1]]
    if k == 'u':
        return '(.utf8 [%s])' % ', '.join(ch(d) for d in it[1])
    raise ValueError(it)


def lst(xs):
    return '[' + ', '.join(xs) + ']'


def expr(e):
    k = e[0]
    if k in ('choice', 'seq'):
        return '(.%s %s)' % (k, lst(expr(x) for x in e[1]))
    if k in ('group', 'opt', 'neg', 'pos'):
        return '(.%s %s)' % (k, expr(e[1]))
    if k == 'star':
        return '(.closure %s false)' % expr(e[1])
    if k == 'plus':
        return '(.closure %s true)' % expr(e[1])
    if k == 'range':
        return '(.range %s %s)' % (item(e[1]), item(e[2]))
    if k == 'lit':
        return '(.lit %s %s)' % ('true' if e[1] else 'false', lst(item(i) for i in e[2]))
    if k == 'eoi':
        return '.eoi'
    if k == 'incl':
        return '(.incl %s)' % s(e[1])
    if k == 'field':
        n = e[1]
        nm = 'none' if n is None else ('(some .override)' if n == '@' else '(some (.ident %s))' % s(n))
        return '(.field %s %s %s)' % (nm, 'true' if e[2] else 'false', s(e[3]))
    raise ValueError(e)


DIR = {'string': '.string', 'no_skip_ws': '.noSkipWs', 'export': '.export', 'position': '.position', 'memoize': '.memoize', 'leftrec': '.leftrec'}


def rule(r):
    if r['kind'] == 'rule':
        ds = lst((DIR[d] if not isinstance(d, tuple) else '(.check %s)' % lst(s(p) for p in d[1])) for d in r['dirs'])
        return '.rule ⟨%s, %s, %s⟩' % (ds, s(r['name']), expr(r['body']))
    if r['kind'] == 'char':
        ps = []
        for p in r['parts']:
            if p[0] == 'range':
                ps.append('(.range %s %s)' % (item(p[1]), item(p[2])))
            elif p[0] == 'chr':
                ps.append('(.chr %s)' % item(p[1]))
            else:
                ps.append('(.ident %s)' % s(p[1]))
        return '.charRule ⟨%s, %s, %s⟩' % (lst(lst(s(x) for x in c) for c in r['checks']), s(r['name']), lst(ps))
    ret = 'none' if r['ret'] is None else '(some %s)' % lst(s(x) for x in r['ret'])
    return '.externRule ⟨%s, %s, %s⟩' % (lst(s(x) for x in r['fn']), ret, s(r['name']))


def grammar(rules):
    return '⟨[\n  ' + ',\n  '.join(rule(r) for r in rules) + '\n]⟩'
