"""Dispatch: which engine decides which property, and replay of recorded violations."""
import json
import os
import time
from . import suite as suite_mod
from . import relations, pegdiff
from .common import CACHE, build_lean, log

PEGDIFF_PROPS = set(relations.RELATIONS)

RULES = {
    'C20': 'history/threads: every input of the pegdiff suite parsed again in a shuffled order after all the others (twice), then all of them from 16 threads with randomised yields (each thread a random half, so the same parser type and the same input run concurrently); every re-execution must reproduce the first result exactly (tree, error, tracer log, hook log); distinct per (grammar, outcome)',
    'C12': 'frontend: generated grammar ASTs printed under random layouts (whitespace incl. CR/FF, # comments between any two tokens, both quote styles, every escape form, glued punctuation) and a mutated malformed stream; Debug of Grammar::from_str vs the generating AST vs the model front end (eval on the meta-grammar extracted from grammar.ebnf); distinct per (text, layout style) / (mutant outcome, error position)',
    'C17': 'bootstrap: stage 2 (current generator on grammar.ebnf, rustfmt) vs the shipped generated.rs below the header; shipped front end vs model front end on the C12 corpus (valid and invalid texts: same structure or same error); distinct per text',
    'C03': 'gendiff: generated grammars (valid family, several derive sets): declared public types extracted from the emitted code vs Compile.decls; rustc acceptance of every parser of the pegdiff suite under forbid(unsafe_code); distinct per (grammar, number of declarations)',
    'C15': 'gendiff: valid grammars, 12 families built to violate each documented restriction (x derive sets), the inputs of the fixed defects F4/F5, and a raw text stream (mutated valid texts, random tokens, nesting up to depth 200) through the real generator in a separate process; outcome class ok/error/panic/abort vs Compile.errors; distinct per (family, outcome)',
    'C16': 'routes: library call in three fresh processes, CLI, build script (bytes after header/prefix); macro route: one crate with `peginate!(text)` next to the library-route code of the same text per grammar – Debug of every parse result equal, and (nightly `-Zunpretty=expanded`) the expanded module text equal token for token; distinct per (grammar, route)',
    'C01': 'pegdiff suite (all families); a case is non-trivial/distinct per (grammar, outcome, consumed bytes)',
    'C02': 'pegdiff suite (all families), accepted inputs; distinct per (grammar, tree shape with literals erased)',
    'C04': 'pegdiff suite; distinct per (grammar containing non-ASCII text, outcome); every offset seen by the tracer, in positions and in errors is checked with is_char_boundary; cfg(peginator_verif) assertion in advance',
    'C05': 'memo family: each grammar in 4 @memoize variants on the same inputs; distinct per (grammar, outcome, whether some variant had a cache hit)',
    'C06': 'probe family (extern probes at the start of memoized bodies, mostly failing inputs) + extern call sequences of memo/hooks families; distinct per (grammar, outcome, number of probe sites, cache hit)',
    'C07': 'leftrec family (direct struct style, enum-override calculator style, two nested left-recursive rules, postfix, wrapper with two alternatives at one offset); distinct per (grammar, outcome, number of growth iterations)',
    'C08': 'pegdiff suite incl. ws family (custom Whitespace rule) with whitespace-like characters injected at token gaps; distinct per (grammar, outcome, consumed bytes)',
    'C09': 'pegdiff suite, accepted inputs whose tree contains position ranges; distinct per (grammar, number of ranges)',
    'C10': 'pegdiff suite, rejected inputs; distinct per (grammar, error position, error detail)',
    'C13': 'incl family: grammar with includes vs its textually inlined twin on the same inputs; distinct per (pair, outcome)',
    'C14': 'hooks family (externs, checks, char checks, with and without user context) + memo/probe; distinct per (grammar, sequence of user functions called)',
    'C19': 'pegdiff suite with a custom ParseTracer; distinct per (grammar, number of rule entries, cache informative seen)',
}


def run_property(pid, seed, tier):
    t0 = time.time()
    ok, out, dt = build_lean(['pegverif'])
    if not ok:
        raise RuntimeError('lean driver build failed: ' + out[-1500:])
    if pid in PEGDIFF_PROPS:
        s = suite_mod.get_suite(seed, tier)
        rel = relations.RELATIONS[pid](s)
        rel['engine'] = 'pegdiff'
        rel['rule'] = RULES.get(pid, '')
        rel['cases'] = dict(grammars=len(s['cases']),
                            generator_outcomes=_count(v[0] for v in s['gen'].values()),
                            rustc_rejected=len(s['compile_fail']), suite_wall_s=s['wall_s'], suite_timing=s['timing'])
        # how many grammars of the suite satisfy the hypotheses of the property theorems (decided by the model driver)
        cls = {}
        for c in s['cases']:
            v = s['model'].get((c['id'], -1))
            if v and v[0] == 'CLASS':
                fam = next((t for t in c['tags'] if t in ('leftrec', 'memo', 'hooks', 'mix', 'ws', 'multibyte', 'incl', 'probe', 'corpus', 'spell')), 'other')
                for kv in v[1:]:
                    k, _, b = kv.partition('=')
                    d = cls.setdefault(fam, {})
                    d[k] = d.get(k, 0) + (1 if b == 'true' else 0)
                    d['grammars'] = d.get('grammars', 0) + (1 if k == 'wf' else 0)
        rel['cases']['theorem_hypotheses_met'] = dict(
            legend='per family: grammars, and how many of them have no @leftrec rule (C01_sound …), no @memoize/@leftrec rule (C10_furthest …), '
                   'pass wfCheck (C01_terminates), are in LROk (C01_sound_leftrec, C05_transparent_with_leftrec, C07_result_is_the_growth), pass RecFirst with flat levels (C10_no_sentinel)',
            families=cls)
        expected = sum(len(c['inputs']) for c in s['cases'])
        seen = sum(1 for k in s['impl'])
        if expected == 0 or seen < 0.6 * expected:
            rel['degenerate'] = 'only %d of %d generated inputs reached the implementation (generator/rustc rejected the rest)' % (seen, expected)
        if pid in ('C01', 'C04'):
            # the terminal matchers in-process: exhaustive small-scope table (character-level reading for C01,
            # boundary / no-panic for C04)
            from . import other
            mt = other.run_matchers(seed, tier, pid)
            rel['evaluations'] += mt['evaluations']
            rel['nontrivial'] |= {('matcher',) + tuple(k) for k in mt['nontrivial']}
            rel['strict'] += mt['strict']
            rel['prop'] += mt['prop'] if pid == 'C04' else [dict(v, what='terminal matcher does not match exactly the documented characters: ' + v['what']) for v in mt['strict']]
            rel['samples'] = rel['samples'][:3] + mt['samples'][:2]
            rel['distribution']['matcher table operations'] = mt['evaluations']
            rel['rule'] += ' + unitdiff: ' + mt['rule']
        rel['wall_s'] = time.time() - t0
        # generator-level failures on well-formed grammars are reported by C03/C15; here they only shrink the sample
        return rel
    if pid in ('C12', 'C17'):
        from . import frontend
        rel = frontend.run_C12(seed, tier) if pid == 'C12' else frontend.run_C17(seed, tier)
        rel['rule'] = RULES.get(pid, '')
        if pid == 'C12':
            # behavioural side of "directives may come in any order / be repeated; every @check counts": the directive
            # spellings of one grammar (shared pegdiff suite, family `spell`) must be the same parser
            s = suite_mod.get_suite(seed, tier)
            sp = relations.RELATIONS['C12s'](s)
            rel['evaluations'] += sp['evaluations']
            rel['nontrivial'] |= {('spell',) + tuple(k) for k in sp['nontrivial']}
            rel['strict'] += sp['strict']
            rel['prop'] += sp['prop']
            rel['samples'] = rel['samples'][:3] + sp['samples'][:2]
            rel['distribution']['directive spellings compared (parse results)'] = sp['evaluations']
            rel['rule'] += ' + pegdiff family `spell`: each grammar in 4 directive spellings (shuffled, reversed, flags doubled; several @check per rule) on the same inputs'
        return rel
    if pid == 'C16':
        from . import routes
        rel = routes.run_C16(seed, tier)
        rel['rule'] = RULES.get(pid, '')
        return rel
    if pid in ('C03', 'C15'):
        from . import gendiff
        rel = gendiff.run(pid, seed, tier)
        rel['rule'] = RULES.get(pid, '')
        if pid == 'C15':
            from . import routes
            viol, extra = routes.run_cli_failures()
            rel['prop'] += viol
            rel['evaluations'] += extra['evaluations']
            for k, v in extra['distribution'].items():
                rel['distribution'][k] += v
        if pid == 'C03':
            # rustc acceptance of accepted, well-formed grammars: the shared pegdiff suite compiles every generated parser
            s = suite_mod.get_suite(seed, tier)
            for cid, msg in s['compile_fail'].items():
                c = s['case_by_id'][cid]
                rel['prop'].append(dict(kind='compile', case=cid, grammar=c['text'], sexp=c['sexp'], what='generated code rejected by rustc: ' + msg[-300:]))
            for cid, v in s['gen'].items():
                if v[0] != 'OK' and 'expect_reject' not in s['case_by_id'][cid]['tags']:
                    c = s['case_by_id'][cid]
                    rel['prop'].append(dict(kind='compile', case=cid, grammar=c['text'], sexp=c['sexp'], what='well-formed grammar not compiled by the generator: %s %s' % (v[0], v[1][:200])))
            rel['evaluations'] += len(s['cases'])
            rel['distribution']['grammars compiled by rustc (pegdiff suite)'] = len(s['cases']) - len(s['compile_fail'])
        return rel
    from . import other
    return other.run(pid, seed, tier)


def _count(it):
    d = {}
    for x in it:
        d[x] = d.get(x, 0) + 1
    return d


def replay(pid, path):
    v = json.load(open(path))
    if v.get('kind') == 'pegdiff':
        from . import gast
        rules_sexp = v['sexp']
        case = dict(id='replay', rules=None, sexp=rules_sexp, text=v['grammar'], settings=dict(uctx=v.get('uctx', False)),
                    inputs=[(v['rule'], v['input'])], tags=v.get('tags', []))
        res = pegdiff.run_cases_text([case], os.path.join(CACHE, 'replay'))
        m = res['model'].get(('replay', 0))
        im = res['impl'].get(('replay', 0))
        print('grammar:\n' + v['grammar'])
        print('rule %s input %r' % (v['rule'], v['input']))
        print('model         :', m)
        print('implementation:', im)
        print('recorded      : model=%s impl=%s (%s)' % (v.get('model'), v.get('impl'), v.get('what')))
        same = m is not None and im is not None and m[:4] == im[:4] and (len(im) <= 6)
        if not same:
            print('VIOLATION property=%s replay=%s' % (pid, path))
            return 1
        print('no disagreement on this case now')
        return 0
    from . import other
    return other.replay(pid, v, path)
