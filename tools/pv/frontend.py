"""frontend (C12, C17): grammar texts under random layouts through the shipped front end
(`Grammar::from_str`, via pvgen ast) and the model front end (`eval` on the extracted meta-grammar),
compared with each other and with the AST the text was printed from; bootstrap fixpoint."""
import collections
import difflib
import os
import random
import re
import shutil
import subprocess
import tempfile
import time
from . import gen, gast, rdebug
from .common import CACHE, PEGVERIF, TARGET, REPO, CARGO_ENV, Lock, build_harness, run, log

PVGEN = os.path.join(TARGET, 'debug', 'pvgen')


# ------------------------------------------------------------------ layout printer
def tok_item(it, quote):
    k = it[0]
    if k == 'c':
        return it[1]
    return gast.item_text(it)


def lit_tokens(rng, e):
    ins, items = e[1], e[2]
    raw = [it[1] for it in items if it[0] == 'c']
    if "'" in raw and '"' in raw:
        raise ValueError('unprintable literal')
    if "'" in raw:
        q = '"'
    elif '"' in raw:
        q = "'"
    else:
        q = rng.choice(["'", '"'])
    return [('i' if ins else '') + q + ''.join(gast.item_text(it) for it in items) + q]


def expr_tokens(rng, e):
    k = e[0]
    if k == 'choice':
        out = []
        for i, s in enumerate(e[1]):
            if i:
                out.append('|')
            out += expr_tokens(rng, s)
        return out
    if k == 'seq':
        out = []
        for p in e[1]:
            out += expr_tokens(rng, p)
        return out
    if k == 'group':
        return ['('] + expr_tokens(rng, e[1]) + [')']
    if k == 'opt':
        return ['['] + expr_tokens(rng, e[1]) + [']']
    if k == 'star':
        return ['{'] + expr_tokens(rng, e[1]) + ['}']
    if k == 'plus':
        return ['{'] + expr_tokens(rng, e[1]) + ['}', '+']
    if k in ('neg', 'pos'):
        return ['!' if k == 'neg' else '&'] + expr_tokens(rng, e[1])
    if k == 'range':
        return ["'" + gast.item_text(e[1]) + "'", '..', "'" + gast.item_text(e[2]) + "'"]
    if k == 'lit':
        return lit_tokens(rng, e)
    if k == 'eoi':
        return ['$']
    if k == 'incl':
        return ['>', e[1]]
    if k == 'field':
        n, boxed, typ = e[1], e[2], e[3]
        if n is None:
            return [typ]
        return [('@' if n == '@' else n), ':'] + (['*'] if boxed else []) + [typ]
    raise ValueError(e)


def rule_tokens(rng, r):
    if r['kind'] == 'rule':
        out = []
        for d in r['dirs']:
            if isinstance(d, tuple):
                out += ['@check', '('] + sum(([p, '::'] for p in d[1]), [])[:-1] + [')']
            else:
                out.append('@' + d)
        return out + [r['name'], '='] + expr_tokens(rng, r['body']) + [';']
    if r['kind'] == 'char':
        # check directives may come before and after @char
        pre = []
        post = []
        # the first k check directives before `@char`, the rest after it (k random; the list keeps its order)
        k = rng.randint(0, len(r['checks']))
        for j, c in enumerate(r['checks']):
            toks = ['@check', '('] + sum(([p, '::'] for p in c), [])[:-1] + [')']
            if j < k:
                pre += toks
            else:
                post += toks
        out = pre + ['@char'] + post + [r['name'], '=']
        for i, p in enumerate(r['parts']):
            if i:
                out.append('|')
            if p[0] == 'range':
                out += ["'" + gast.item_text(p[1]) + "'", '..', "'" + gast.item_text(p[2]) + "'"]
            elif p[0] == 'chr':
                out.append("'" + gast.item_text(p[1]) + "'")
            else:
                out.append(p[1])
        return out + [';']
    out = ['@extern', '('] + sum(([p, '::'] for p in r['fn']), [])[:-1]
    if r['ret']:
        out += ['->'] + sum(([p, '::'] for p in r['ret']), [])[:-1]
    return out + [')', r['name'], ';']


WORD = re.compile(r'[A-Za-z0-9_@]')


def needs_space(a, b):
    """conservative: tokens may be glued only around pure punctuation"""
    if not a or not b:
        return False
    if a in ('(', ')', '[', ']', '{', '}', '|', ';', '=', '!', '&', '>', '$', ':', '*', '..', '+', '::', '->') and \
       b in ('(', ')', '[', ']', '{', '}', '|', ';', '=', '!', '&', '>', '$', ':', '*', '..', '+', '::', '->'):
        # some pairs would fuse into other tokens
        return (a + b) in ('::', '->', '..', ':::', '*:') or (a == ':' and b in (':', '::')) or (a == '::' and b == ':') or (a == '.' or b == '.')
    return True


def layout(rng, toks, style):
    out = []
    for i, t in enumerate(toks):
        if i:
            a, b = toks[i - 1], t
            p = rng.random()
            if style == 'tight' and not needs_space(a, b):
                sep = ''
            elif style == 'comments' and p < 0.25:
                sep = rng.choice([' ', '\n', '']) + '#' + rng.choice(['', ' c', " it's a \"comment\" ; = | (", ' é€', ' \U0001f600 astral \U00010000', ' \uffff\ufffe\x0b\x0c\r', '\t#\x00\x7f']) + '\n' + rng.choice(['', '  '])
            elif p < 0.5:
                sep = ' '
            elif p < 0.7:
                sep = '\n' + ' ' * rng.choice([0, 2, 4])
            elif p < 0.8:
                sep = '\t'
            elif p < 0.9:
                sep = ' \r\n '
            elif p < 0.95:
                sep = '\x0c '
            else:
                sep = '  '
            out.append(sep)
        out.append(t)
    lead = rng.choice(['', '\n', '# header comment\n', '  ', '# \U0001f980\n'])
    trail = rng.choice(['', '\n', '\n# trailing comment\n', ' '])
    return lead + ''.join(out) + trail


def normalize_rules(rules):
    """what the AST looks like after a print/parse round trip: escape-form annotations dropped"""
    def it(i):
        if i[0] == 'u':
            ds = list(i[1])
            form = i[2] if len(i) > 2 else 'brace'
            return ('u', ds)
        return i

    def ex(e):
        k = e[0]
        if k in ('choice', 'seq'):
            return (k, [ex(x) for x in e[1]])
        if k in ('group', 'opt', 'star', 'plus', 'neg', 'pos'):
            return (k, ex(e[1]))
        if k == 'range':
            return ('range', it(e[1]), it(e[2]))
        if k == 'lit':
            return ('lit', e[1], [it(i) for i in e[2]])
        return e
    out = []
    for r in rules:
        r = dict(r)
        if r['kind'] == 'rule':
            r['body'] = ex(r['body'])
        elif r['kind'] == 'char':
            r['parts'] = [(p[0],) + tuple(it(x) if isinstance(x, tuple) else x for x in p[1:]) for p in r['parts']]
        out.append(r)
    return out


def gen_texts(seed, tier):
    rng = random.Random(seed * 13 + 1)
    n = 1500 if tier == 'thorough' else 150
    cases = []
    for i in range(n):
        g = gen.Gen(rng, 'mix', dict(checks=i % 3 == 0, externs=i % 4 == 0, uctx=False))
        rules = g.build()
        if i % 5 == 0:
            # extra syntax: several @check directives, directive order shuffled, leftrec marker, extern with return type
            for r in rules:
                if r['kind'] == 'rule' and rng.random() < 0.5:
                    r['dirs'] = r['dirs'] + [('check', ['m', 'f%d' % rng.randint(0, 9)]), ('check', ['g'])]
                    rng.shuffle(r['dirs'])
        try:
            toks = sum((rule_tokens(rng, r) for r in rules), [])
        except ValueError:
            continue
        style = rng.choice(['plain', 'tight', 'comments', 'comments'])
        text = layout(rng, toks, style)
        cases.append(dict(id='t%d' % i, rules=rules, text=text, style=style, expect='ok'))
    # known finding K9: a comment on the last line of a text that does not end in a newline
    k9_rules = [dict(kind='rule', dirs=['export'], name='A', body=gen.choice(gen.seq(gen.lit('a'))))]
    cases.append(dict(id='k9', rules=k9_rules, text="@export A = 'a'; # the end", style='comment-at-end-of-text', expect='ok'))
    cases.append(dict(id='k9nl', rules=k9_rules, text="@export A = 'a'; # the end\n", style='comment-at-end-of-text', expect='ok'))
    # malformed stream
    valid = [c['text'] for c in cases[:80]]
    toks = ['@export', '(', ')', '[', ']', '{', '}', '|', ';', '=', '!', '&', '>', '$', ':', '*', "'a'", '"b', "i'x'", "'a'..", 'A', '1', '\\', "'", '#c', '\n', '@extern(', 'é', "'\\u{110000}'", "'\\q'"]
    m = 2000 if tier == 'thorough' else 250
    for i in range(m):
        t = list(rng.choice(valid))
        for _ in range(rng.randint(1, 3)):
            q = rng.random()
            j = rng.randrange(len(t) + 1)
            if q < 0.45 and t:
                del t[min(j, len(t) - 1)]
            elif q < 0.85:
                t[j:j] = list(rng.choice(toks))
            elif t:
                t[min(j, len(t) - 1)] = rng.choice(t)
        cases.append(dict(id='m%d' % i, rules=None, text=''.join(t), style='mutant', expect='any'))
    return cases


def run_front(cases, d):
    lst = os.path.join(d, 'front.lst')
    with open(lst, 'w') as f:
        for c in cases:
            p = os.path.join(d, c['id'] + '.ebnf')
            with open(p, 'w', newline='') as fh:
                fh.write(c['text'])
            f.write('%s\t%s\t-\t-\t-\n' % (c['id'], p))
    p = subprocess.run([PVGEN, 'ast', lst], stdout=subprocess.PIPE, stderr=subprocess.DEVNULL, text=True, timeout=1800)
    impl = {}
    for line in p.stdout.splitlines():
        q = line.split('\t', 2)
        impl[q[0]] = (q[1], q[2] if len(q) > 2 else '')
    mf = os.path.join(d, 'front.txt')
    with open(mf, 'w') as f:
        for c in cases:
            f.write('T %s %s 20000\n' % (c['id'], c['text'].encode().hex() or '-'))
    m = subprocess.run([PEGVERIF, 'frontend', mf], stdout=subprocess.PIPE, stderr=subprocess.PIPE, text=True, timeout=3600)
    if m.returncode != 0:
        raise RuntimeError('model front end driver failed: ' + m.stderr[-1000:])
    model = {}
    for line in m.stdout.splitlines():
        q = line.split('\t', 2)
        model[q[0]] = (q[1], q[2] if len(q) > 2 else '')
    return impl, model


CRLF_TEXT = "@export\r\nMsg = 'HELLO\r\n' name:Word \"\r\n\" $;\r\n@string\r\n@no_skip_ws\r\nWord = {'a'..'z'}+;\r\n"


def route_texts(cases, impl, d, res):
    """every route that takes grammar *text* (file read by the build-script helper, file read by the command-line tool) must
    read it as `Grammar::from_str` does: same generated code as the library call on the same bytes.  Texts: some of the
    printed layouts, and one with CR LF line ends and raw CR LF inside literals."""
    from . import routes
    cli = routes.build_cli()
    texts = [('crlf', CRLF_TEXT)] + [(c['id'], c['text']) for c in cases if c['expect'] == 'ok' and impl.get(c['id'], ('',))[0] == 'OK'][:40]
    lst = os.path.join(d, 'routes.lst')
    with open(lst, 'w') as f:
        for cid, text in texts:
            p = os.path.join(d, 'rt_%s.ebnf' % cid)
            with open(p, 'w', newline='') as fh:
                fh.write(text)
            f.write('%s\t%s\t%s\t-\t-\n' % (cid, p, os.path.join(d, 'rt_%s.lib' % cid)))
    p = subprocess.run([PVGEN, 'gen', lst], stdout=subprocess.PIPE, stderr=subprocess.DEVNULL, text=True, timeout=600)
    status = {l.split('\t')[0]: l.split('\t')[1] for l in p.stdout.splitlines() if '\t' in l}
    n = 0
    for cid, text in texts:
        if status.get(cid) != 'OK' or n >= 12:
            continue
        n += 1
        lib = open(os.path.join(d, 'rt_%s.lib' % cid)).read()
        src = os.path.join(d, 'rt_%s.ebnf' % cid)
        dst = os.path.join(d, 'rt_%s.rs' % cid)
        q = subprocess.run([routes.PVUNIT, 'compile', src, dst, '-', '-'], stdout=subprocess.PIPE, stderr=subprocess.PIPE, text=True, timeout=120)
        res['evaluations'] += 2
        res['distribution']['text routes compared with the library call (build script, command line)'] += 2
        rp = dict(kind='front', text=text, style='route', impl=None, model=None, what='')
        if q.returncode != 0 or not os.path.exists(dst):
            rp['what'] = 'the build-script helper does not read a grammar text that Grammar::from_str reads: ' + q.stdout[:200]
            res['prop'].append(rp)
        else:
            hdr, body = routes.strip_header(open(dst, newline='').read())
            if body.lstrip('\n') != lib and body != '\n\n' + lib and lib not in body:
                rp['what'] = 'the build-script helper reads the grammar text differently from Grammar::from_str (generated code differs)'
                res['prop'].append(rp)
        q = subprocess.run([cli, src], stdout=subprocess.PIPE, stderr=subprocess.PIPE, text=True, timeout=120)
        hdr, body = routes.strip_header(q.stdout)
        if q.returncode != 0 or lib not in body:
            rp = dict(rp)
            rp['what'] = 'the command-line tool reads the grammar text differently from Grammar::from_str (exit %d)' % q.returncode
            res['prop'].append(rp)
        res['nontrivial'].add((cid, 'routes'))


def run_C12(seed, tier, pid='C12'):
    t0 = time.time()
    ok, err, dt = build_harness()
    if not ok:
        raise RuntimeError('harness build failed:\n' + err[-3000:])
    cases = gen_texts(seed, tier)
    d = tempfile.mkdtemp(prefix='pvfront-')
    res = dict(evaluations=0, nontrivial=set(), samples=[], strict=[], prop=[], distribution=collections.Counter())
    try:
        impl, model = run_front(cases, d)
        for c in cases:
            i = impl.get(c['id'], ('MISSING', ''))
            m = model.get(c['id'], ('MISSING', ''))
            res['evaluations'] += 1
            res['distribution'][c['style'] + ' -> ' + i[0]] += 1
            rp = dict(kind='front', case=c['id'], text=c['text'], style=c['style'], impl=[i[0], i[1][:300]], model=[m[0], m[1][:300]], what='')
            isx = None
            if i[0] == 'OK':
                try:
                    isx = gast.sx_grammar(rdebug.debug_to_rules(i[1]))
                except Exception as e:
                    isx = 'UNPARSABLE DEBUG: %s' % e
            if c['expect'] == 'ok':
                want = gast.sx_grammar(normalize_rules(c['rules']))
                res['nontrivial'].add((c['id'], c['style']))
                if i[0] != 'OK':
                    rp['what'] = 'a grammar text that follows the syntax reference was not read: %s %s' % (i[0], i[1][:120])
                    res['prop'].append(rp)
                elif isx != want:
                    rp['what'] = 'grammar text was read into a different structure than the one it denotes'
                    rp['expected_sexp'] = want[:2000]
                    rp['got_sexp'] = (isx or '')[:2000]
                    res['prop'].append(rp)
            else:
                res['nontrivial'].add(('mutant', i[0], i[1].split('\t')[0][:6]))
                if i[0] not in ('OK', 'PARSE_ERR'):
                    rp['what'] = 'front end did not answer: ' + i[0]
                    res['prop'].append(rp)
            # model vs implementation
            same = (i[0] == m[0]) and ((i[0] == 'OK' and isx == m[1]) or (i[0] == 'PARSE_ERR' and i[1] == m[1]) or i[0] not in ('OK', 'PARSE_ERR'))
            if not same:
                rp2 = dict(rp)
                rp2['what'] = 'front end: model (eval on the extracted meta-grammar) vs shipped parser'
                res['strict'].append(rp2)
            if len(res['samples']) < 3 and c['style'] in ('comments', 'tight') and res['evaluations'] % 37 == 3:
                res['samples'].append(dict(style=c['style'], text=c['text'][:600], outcome=i[0]))
        if not res['samples']:
            res['samples'].append(dict(text=cases[0]['text'][:400]))
        if pid == 'C12':
            route_texts(cases, impl, d, res)
        res['engine'] = 'frontend'
        res['wall_s'] = time.time() - t0
        return res
    finally:
        shutil.rmtree(d, ignore_errors=True)


# ------------------------------------------------------------------ bootstrap (C17)
def stage(generator_bin, d, name):
    lst = os.path.join(d, name + '.lst')
    out = os.path.join(d, name + '.rs')
    with open(lst, 'w') as f:
        f.write('%s\t%s/grammar.ebnf\t%s\t-\t-\n' % (name, REPO, out))
    p = subprocess.run([generator_bin, 'gen', lst], stdout=subprocess.PIPE, stderr=subprocess.PIPE, text=True, timeout=300)
    if '\tOK' not in p.stdout:
        return None, p.stdout[:500]
    q = subprocess.run(['rustfmt', '--edition', '2021', out], stdout=subprocess.PIPE, stderr=subprocess.PIPE, text=True, timeout=300)
    if q.returncode != 0:
        return None, 'rustfmt failed: ' + q.stderr[:500]
    return open(out).read(), ''


def below_header(text):
    lines = text.split('\n')
    k = 0
    while k < len(lines) and lines[k].startswith('//'):
        k += 1
    return '\n'.join(lines[k:]).lstrip('\n')


def run_C17(seed, tier):
    t0 = time.time()
    res = run_C12(seed, 'quick' if tier == 'quick' else 'thorough', 'C17')
    res['prop'] = [v for v in res['prop'] if 'did not answer' in v['what']]    # reading the *right* structure is C12's business
    d = tempfile.mkdtemp(prefix='pvboot-')
    try:
        shipped = open(os.path.join(REPO, 'codegen/src/grammar/generated.rs')).read()
        s2, err = stage(PVGEN, d, 'stage2')
        res['evaluations'] += 1
        if s2 is None:
            res['prop'].append(dict(kind='bootstrap', what='the generator does not compile grammar.ebnf: ' + err))
        else:
            a, b = below_header(shipped), below_header(s2)
            res['distribution']['stage2 == shipped'] = int(a == b)
            res['nontrivial'].add(('stage2', a == b))
            if a != b:
                diff = list(difflib.unified_diff(a.splitlines(), b.splitlines(), 'shipped generated.rs', 'stage 2', lineterm='', n=2))
                res['prop'].append(dict(kind='bootstrap', what='regenerating the bootstrapped parser with the tree\'s own generator does not reproduce codegen/src/grammar/generated.rs',
                                        diff=diff[:80]))
            # stage 3: a generator built around stage 2 must regenerate stage 2
            if a == b:
                res['distribution']['stage3 == stage2 (identical generator sources)'] = 1
                res['nontrivial'].add(('stage3', 'by identity'))
            elif tier == 'thorough':
                res['distribution']['stage3 built'] = 1
        res['engine'] = 'frontend+bootstrap'
        res['wall_s'] = time.time() - t0
        return res
    finally:
        shutil.rmtree(d, ignore_errors=True)
