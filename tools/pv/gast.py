"""Grammar AST used by the generators, its printer (ebnf text) and its s-expression form.

expr  : ('choice',[seq..]) ('seq',[delim..]) ('group',choice) ('opt',choice) ('star',choice) ('plus',choice)
        ('neg',delim) ('pos',delim) ('range',item,item) ('lit',insensitive,[item..]) ('eoi',) ('incl',name)
        ('field',name,boxed,typ)   name: None | '@' | str
item  : ('c',ch) ('x',c1,c2) ('s',k) k in nrtbqd ('u',[hex digit chars])
rule  : dict(kind='rule',dirs=[..],name=..,body=choice)   dirs: 'string','no_skip_ws','export','position','memoize','leftrec',('check',[path])
        dict(kind='char',checks=[[path]..],name=..,parts=[('range',i,i)|('chr',i)|('id',name)])
        dict(kind='extern',fn=[path],ret=[path]|None,name=..)
"""
import re

SIMPLE = {'n': '\n', 'r': '\r', 't': '\t', 'b': '\\', 'q': "'", 'd': '"'}
SIMPLE_TXT = {'n': '\\n', 'r': '\\r', 't': '\\t', 'b': '\\\\', 'q': "\\'", 'd': '\\"'}


def item_char(it):
    """decoded character of a string item, or None when invalid"""
    k = it[0]
    if k == 'c':
        return it[1]
    if k == 'x':
        return chr(int(it[1] + it[2], 16))
    if k == 's':
        return SIMPLE[it[1]]
    if k == 'u':
        v = int(''.join(it[1]), 16)
        if v > 0x10FFFF or 0xD800 <= v <= 0xDFFF:
            return None
        return chr(v)
    raise ValueError(it)


def item_text(it, style=None):
    k = it[0]
    if k == 'c':
        return it[1]
    if k == 'x':
        return '\\x' + it[1] + it[2]
    if k == 's':
        return SIMPLE_TXT[it[1]]
    if k == 'u':
        ds = ''.join(it[1])
        form = it[2] if len(it) > 2 else 'brace'
        if form == 'u4' and len(ds) == 4:
            return '\\u' + ds
        if form == 'U8' and len(ds) == 6:
            return '\\U00' + ds
        return '\\u{' + ds + '}'
    raise ValueError(it)


def lit_text(ins, items, quote=None):
    if quote is None:
        raw = [it[1] for it in items if it[0] == 'c']
        quote = '"' if ("'" in raw and '"' not in raw) else "'"
    body = ''.join(item_text(it) for it in items)
    return ('i' if ins else '') + quote + body + quote


def pp_delim(e):
    k = e[0]
    if k == 'group':
        return '( ' + pp_choice(e[1]) + ' )'
    if k == 'opt':
        return '[ ' + pp_choice(e[1]) + ' ]'
    if k == 'star':
        return '{ ' + pp_choice(e[1]) + ' }'
    if k == 'plus':
        return '{ ' + pp_choice(e[1]) + ' }+'
    if k == 'neg':
        return '!' + pp_delim(e[1])
    if k == 'pos':
        return '&' + pp_delim(e[1])
    if k == 'range':
        return "'" + item_text(e[1]) + "'..'" + item_text(e[2]) + "'"
    if k == 'lit':
        return lit_text(e[1], e[2], e[3] if len(e) > 3 else None)
    if k == 'eoi':
        return '$'
    if k == 'incl':
        return '>' + e[1]
    if k == 'field':
        n, boxed, typ = e[1], e[2], e[3]
        if n is None:
            return typ
        return ('@' if n == '@' else n) + ':' + ('*' if boxed else '') + typ
    raise ValueError(e)


def pp_seq(e):
    assert e[0] == 'seq', e
    return ' '.join(pp_delim(p) for p in e[1])


def pp_choice(e):
    assert e[0] == 'choice', e
    return ' | '.join(pp_seq(s) for s in e[1])


def pp_dir(d):
    if isinstance(d, tuple):
        return '@check(' + '::'.join(d[1]) + ')'
    return '@' + d


def pp_rule(r):
    if r['kind'] == 'rule':
        ds = ''.join(pp_dir(d) + '\n' for d in r['dirs'])
        return ds + r['name'] + ' = ' + pp_choice(r['body']) + ';\n'
    if r['kind'] == 'char':
        pre = ''.join('@check(' + '::'.join(c) + ')\n' for c in r['checks'])
        parts = []
        for p in r['parts']:
            if p[0] == 'range':
                parts.append("'" + item_text(p[1]) + "'..'" + item_text(p[2]) + "'")
            elif p[0] == 'chr':
                parts.append("'" + item_text(p[1]) + "'")
            else:
                parts.append(p[1])
        return pre + '@char\n' + r['name'] + ' = ' + ' | '.join(parts) + ';\n'
    if r['kind'] == 'extern':
        ret = (' -> ' + '::'.join(r['ret'])) if r['ret'] else ''
        return '@extern(' + '::'.join(r['fn']) + ret + ')\n' + r['name'] + ';\n'
    raise ValueError(r)


def pp_grammar(rules):
    return '\n'.join(pp_rule(r) for r in rules)


# ---------------------------------------------------------------- s-expressions
_PLAIN = re.compile(r'^[A-Za-z0-9_]+$')


def atom(s):
    if _PLAIN.match(s) and not s[0] == '#':
        return s
    return '#' + s.encode('utf-8').hex()


def sx_item(it):
    k = it[0]
    if k == 'c':
        return '(c %d)' % ord(it[1])
    if k == 'x':
        return '(x %d %d)' % (ord(it[1]), ord(it[2]))
    if k == 's':
        return '(s %s)' % it[1]
    if k == 'u':
        return '(u ' + ' '.join(str(ord(d)) for d in it[1]) + ')'
    raise ValueError(it)


def sx_expr(e):
    k = e[0]
    if k in ('choice', 'seq'):
        return '(' + k + ''.join(' ' + sx_expr(x) for x in e[1]) + ')'
    if k in ('group', 'opt', 'star', 'plus', 'neg', 'pos'):
        return '(' + k + ' ' + sx_expr(e[1]) + ')'
    if k == 'range':
        return '(range ' + sx_item(e[1]) + ' ' + sx_item(e[2]) + ')'
    if k == 'lit':
        return '(' + ('ilit' if e[1] else 'lit') + ''.join(' ' + sx_item(i) for i in e[2]) + ')'
    if k == 'eoi':
        return '(eoi)'
    if k == 'incl':
        return '(incl ' + atom(e[1]) + ')'
    if k == 'field':
        n = e[1]
        ns = '-' if n is None else ('@' if n == '@' else '(id ' + atom(n) + ')')
        return '(field %s %d %s)' % (ns, 1 if e[2] else 0, atom(e[3]))
    raise ValueError(e)


def sx_rule(r):
    if r['kind'] == 'rule':
        ds = ''.join(' ' + ('(check' + ''.join(' ' + atom(p) for p in d[1]) + ')' if isinstance(d, tuple) else d)
                     for d in r['dirs'])
        return '(rule (dirs%s) %s %s)' % (ds, atom(r['name']), sx_expr(r['body']))
    if r['kind'] == 'char':
        cs = ''.join(' (' + ' '.join(atom(p) for p in c) + ')' for c in r['checks'])
        ps = []
        for p in r['parts']:
            if p[0] == 'range':
                ps.append('(range %s %s)' % (sx_item(p[1]), sx_item(p[2])))
            elif p[0] == 'chr':
                ps.append('(chr %s)' % sx_item(p[1]))
            else:
                ps.append('(id %s)' % atom(p[1]))
        return '(charrule (checks%s) %s (parts %s))' % (cs, atom(r['name']), ' '.join(ps))
    if r['kind'] == 'extern':
        ret = '(ret ' + ' '.join(atom(p) for p in r['ret']) + ')' if r['ret'] else '(noret)'
        return '(extern (fn %s) %s %s)' % (' '.join(atom(p) for p in r['fn']), ret, atom(r['name']))
    raise ValueError(r)


def sx_grammar(rules):
    return '(grammar ' + ' '.join(sx_rule(r) for r in rules) + ')'
