"""Minimised past failures (fixed defects, seeded changes that were once missed).  They run first in
every pegdiff suite."""
from .gen import C, lit, seq, choice


def F(name, typ, boxed=False):
    return ('field', name, boxed, typ)


def cases():
    out = []
    # F1 (C06): failures of a memoized rule must be cached
    out.append(dict(id='corpusF1a', tags=['corpus', 'probe'], rules=[
        dict(kind='rule', dirs=['export'], name='S', body=choice(seq(F(None, 'P'), lit('x')), seq(F(None, 'P'), lit('y')), seq(F(None, 'P'), lit('z')))),
        dict(kind='rule', dirs=['memoize'], name='P', body=choice(seq(F(None, 'Probe'), lit('a'), lit('c')))),
        dict(kind='extern', fn=['hooks', 'ext_probe'], ret=None, name='Probe')],
        inputs=[('S', 'ab'), ('S', 'acz'), ('S', 'a'), ('S', '')]))
    # F1 (C07): a failing later growth iteration must not become the result
    out.append(dict(id='corpusF1b', tags=['corpus', 'leftrec'], rules=[
        dict(kind='rule', dirs=['export', 'leftrec'], name='A',
             body=choice(seq(F('l', 'A', True), lit('x')), seq(('neg', F(None, 'A')), lit('b'))))],
        inputs=[('A', 'b'), ('A', 'bx'), ('A', 'bxx'), ('A', 'x'), ('A', '')]))
    # F1 (C10): the sentinel must not surface through a stale cache entry
    out.append(dict(id='corpusF1c', tags=['corpus', 'leftrec'], rules=[
        dict(kind='rule', dirs=['export'], name='S', body=choice(seq(F('a', 'A'), lit('x')), seq(F('a', 'A'), lit('y')))),
        dict(kind='rule', dirs=['leftrec'], name='A',
             body=choice(seq(F('l', 'A', True), lit('+'), lit('n')), seq(lit('n'))))],
        inputs=[('S', 'z'), ('S', 'n+ny'), ('S', 'n+'), ('S', 'nx'), ('S', '')]))
    # F7 (C03): @char rule with `char` followed by a rule part
    out.append(dict(id='corpusF7', tags=['corpus'], rules=[
        dict(kind='rule', dirs=['export'], name='S', body=choice(seq(F('c', 'Cc'), F('d', 'Dd')))),
        dict(kind='char', checks=[], name='Cc', parts=[('id', 'char'), ('id', 'Dd')]),
        dict(kind='char', checks=[], name='Dd', parts=[('id', 'Ee'), ('id', 'char'), ('range', C('a'), C('z'))]),
        dict(kind='char', checks=[], name='Ee', parts=[('range', C('0'), C('9'))])],
        inputs=[('S', 'ab'), ('S', 'é9'), ('S', 'a'), ('S', '')]))
    # known finding K3 (C03): a field named like a unit-struct rule makes the generated code fail to compile (E0530)
    out.append(dict(id='corpusK3', tags=['corpus', 'known_K3'], solo=True, rules=[
        dict(kind='rule', dirs=['export'], name='R', body=choice(seq(F('foo', 'Bar'), lit('x')))),
        dict(kind='rule', dirs=[], name='foo', body=choice(seq(lit('a')))),
        dict(kind='rule', dirs=[], name='Bar', body=choice(seq(lit('b'))))],
        inputs=[('R', 'bx')]))
    
    # F9 (C03): a @string rule whose body has a multi-type field / a multi-type override
    for kid, fn in (('F9a', 'a'), ('F9b', '@')):
        out.append(dict(id='corpus' + kid, tags=['corpus'], rules=[
            dict(kind='rule', dirs=['export'], name='T', body=choice(seq(F('s', 'S'), ('opt', choice(seq(F('p', 'P'))))))),
            dict(kind='rule', dirs=['string'], name='S', body=choice(seq(F(fn, 'X')), seq(F(fn, 'Y')))),
            dict(kind='rule', dirs=['string', 'position'], name='P', body=choice(seq(lit('+'), F(fn, 'X')), seq(lit('-'), F(fn, 'Y')))),
            dict(kind='rule', dirs=[], name='X', body=choice(seq(lit('x')))),
            dict(kind='rule', dirs=[], name='Y', body=choice(seq(lit('y'))))],
            inputs=[('T', 'x'), ('T', 'y'), ('T', 'x+x'), ('T', 'y - y'), ('T', 'x+y'), ('T', 'z')]))
    # known findings K3s / K3g (C03): a field named like a local variable of the generated code (`state`, `global`) does not compile
    for kid, fname in (('K3s', 'state'), ('K3g', 'global')):
        out.append(dict(id='corpus' + kid, tags=['corpus', 'known_' + kid], solo=True, rules=[
            dict(kind='rule', dirs=['export'], name='S', body=choice(seq(F(fname, 'A'), F('o', 'A')))),
            dict(kind='rule', dirs=['string'], name='A', body=choice(seq(lit('a'))))],
            inputs=[('S', 'aa')]))
    # known findings K3i / K3n / K3p / K3c / K3m (C03, same class as K3): more names that collide with the generated code
    out.append(dict(id='corpusK3i', tags=['corpus', 'known_K3i'], solo=True, rules=[
        dict(kind='rule', dirs=['export'], name='S', body=choice(seq(('star', choice(seq(F('iterations', 'A'))))))),
        dict(kind='rule', dirs=['string'], name='A', body=choice(seq(lit('a'))))], inputs=[('S', 'aa')]))
    out.append(dict(id='corpusK3n', tags=['corpus', 'known_K3n'], solo=True, rules=[
        dict(kind='rule', dirs=['export'], name='S', body=choice(seq(('star', choice(seq(F('new_state', 'A'))))))),
        dict(kind='rule', dirs=['string'], name='A', body=choice(seq(lit('a'))))], inputs=[('S', 'aa')]))
    out.append(dict(id='corpusK3p', tags=['corpus', 'known_K3p'], solo=True, rules=[
        dict(kind='rule', dirs=['export', 'position'], name='S', body=choice(seq(F('position', 'A')))),
        dict(kind='rule', dirs=['string'], name='A', body=choice(seq(lit('a'))))], inputs=[('S', 'a')]))
    out.append(dict(id='corpusK3c', tags=['corpus', 'known_K3c'], solo=True, rules=[
        dict(kind='rule', dirs=['export', 'memoize'], name='S', body=choice(seq(F(None, 'cached'), F('a', 'A')))),
        dict(kind='rule', dirs=[], name='cached', body=choice(seq(lit('c')))),
        dict(kind='rule', dirs=['string'], name='A', body=choice(seq(lit('a'))))], inputs=[('S', 'ca')]))
    out.append(dict(id='corpusK3m', tags=['corpus', 'known_K3m'], solo=True, rules=[
        dict(kind='rule', dirs=['export'], name='A', body=choice(seq(F('impl', 'X')), seq(F('impl', 'Y')))),
        dict(kind='rule', dirs=[], name='X', body=choice(seq(lit('x')))),
        dict(kind='rule', dirs=[], name='Y', body=choice(seq(lit('y'))))], inputs=[('A', 'x')]))
    # known finding K7 (C03): a recursive override through a closure becomes a recursive type alias
    out.append(dict(id='corpusK7', tags=['corpus', 'known_K7'], solo=True, rules=[
        dict(kind='rule', dirs=['export'], name='List', body=choice(seq(lit('['), ('star', choice(seq(F('@', 'List')))), lit(']'))))],
        inputs=[('List', '[[][]]')]))
    # known finding K4 (C07): a @leftrec rule entered in front of skippable whitespace: the recursive reference is evaluated
    # after the blank, at another offset than the planted seed => nested complete parse, the outer extension fails, base wins
    out.append(dict(id='corpusK4', tags=['corpus', 'leftrec', 'lrusual', 'known_K4'], rules=[
        dict(kind='rule', dirs=['export', 'leftrec'], name='E',
             body=choice(seq(F('l', 'E', True), lit('+'), F('r', 'Num')), seq(F('b', 'Num')))),
        dict(kind='rule', dirs=['string'], name='Num', body=choice(seq(('plus', choice(seq(('range', C('0'), C('9'))))))))],
        inputs=[('E', ' 1+2+3'), ('E', '1+2+3'), ('E', '1 + 2 + 3'), ('E', '7+8'), ('E', '1+'), ('E', '+1')]))
    # known finding K5 (C10): a @memoize rule taking part in the left recursion caches the sentinel failure for good
    out.append(dict(id='corpusK5', tags=['corpus', 'leftrec', 'recfirst', 'known_K5'], rules=[
        dict(kind='rule', dirs=['export'], name='S', body=choice(seq(F('a', 'A'), lit('w')), seq(F('m', 'M')))),
        dict(kind='rule', dirs=['leftrec'], name='A', body=choice(seq(F('m', 'M', True), lit('x')), seq(lit('b')))),
        dict(kind='rule', dirs=['memoize'], name='M', body=choice(seq(F('a', 'A', True), lit('y'))))],
        inputs=[('S', 'z'), ('S', 'bw'), ('S', 'by'), ('S', 'byxw'), ('S', 'b')]))
    # seeded change C05_m2 (once missed): a memoized rule reached at one offset from a skipping and a non-skipping caller
    out.append(dict(id='corpusS05', tags=['corpus', 'memo'], rules=[
        dict(kind='rule', dirs=['export', 'no_skip_ws'], name='S', body=choice(seq(F('a', 'A')), seq(F('b', 'B')))),
        dict(kind='rule', dirs=[], name='A', body=choice(seq(F('v', 'M'), lit('x')))),
        dict(kind='rule', dirs=['no_skip_ws'], name='B', body=choice(seq(F('v', 'M'), lit('y')))),
        dict(kind='rule', dirs=['string', 'no_skip_ws', 'memoize'], name='M', body=choice(seq(lit('m'))))],
        inputs=[('S', ' my'), ('S', ' mx'), ('S', 'my'), ('S', 'mx'), ('S', ' m')]))
    # seeded change C10_m2 (once missed): attempts inside a negative lookahead that passed are not failures of the parse
    out.append(dict(id='corpusS10', tags=['corpus', 'mix'], rules=[
        dict(kind='rule', dirs=['export', 'no_skip_ws'], name='S',
             body=choice(seq(('neg', ('group', choice(seq(lit('a'), lit('b'), lit('c'))))), lit('a'), lit('x'))))],
        inputs=[('S', 'abd'), ('S', 'abc'), ('S', 'ab'), ('S', 'ax'), ('S', 'a')]))
    # seeded change C09_m2 (once missed): a byte order mark is an ordinary character, offsets count its three bytes
    out.append(dict(id='corpusS09', tags=['corpus', 'multibyte'], rules=[
        dict(kind='rule', dirs=['export'], name='S', body=choice(seq(('opt', choice(seq(lit('\ufeff')))), F('w', 'W'), ('eoi',)))),
        dict(kind='rule', dirs=['string', 'position'], name='W', body=choice(seq(('plus', choice(seq(('range', C('a'), C('z'))))))))],
        inputs=[('S', '\ufeffab'), ('S', 'ab'), ('S', '\ufeff'), ('S', '\ufeffab1'), ('S', ' \ufeffab')]))
    # seeded change C14_m3 (missed again after the generator's random stream shifted): every check of a @char rule counts
    out.append(dict(id='corpusS14', tags=['corpus', 'hooks'], rules=[
        dict(kind='rule', dirs=['export'], name='S', body=choice(seq(('star', choice(seq(F('v', 'V')))), ('star', choice(seq(F('o', 'O')))), ('eoi',)))),
        dict(kind='char', checks=[['hooks', 'cc_ascii'], ['hooks', 'cc_vowel']], name='V', parts=[('range', C('a'), C('z')), ('chr', C('\u00e9'))]),
        dict(kind='char', checks=[['hooks', 'cc_not_x'], ['hooks', 'cc_ascii'], ['hooks', 'cc_vowel']], name='O', parts=[('id', 'char')])],
        inputs=[('S', w) for w in ['a', 'b', 'ae', 'ab', '\u00e9', 'x', 'aex', 'ee\u00e9', 'q']]))
    # seeded change C12_m1 (once missed): every @check of a rule is called
    out.append(dict(id='corpusS12', tags=['corpus', 'hooks'], rules=[
        dict(kind='rule', dirs=['export'], name='S', body=choice(seq(('star', choice(seq(F('w', 'W')))), ('eoi',)))),
        dict(kind='rule', dirs=[('check', ['hooks', 'chk_hash2']), 'string', ('check', ['hooks', 'chk_hash3']), ('check', ['hooks', 'chk_true'])],
             name='W', body=choice(seq(('plus', choice(seq(('range', C('a'), C('z'))))))))],
        inputs=[('S', w) for w in ['a', 'b', 'c', 'ab', 'if', 'zz', 'a b c d', 'q', 'x y']]))
    return out


def seeded_replays():
    """pinned cases from the seeded changes: one per pegdiff-kind replay, keyed by the change it caught"""
    import glob
    import json
    import os
    out = []
    seen = set()
    base = os.path.join(os.path.dirname(os.path.dirname(os.path.dirname(os.path.abspath(__file__)))), 'seeded')
    for f in sorted(glob.glob(os.path.join(base, '*', 'replay_from_check.json'))):
        try:
            r = json.load(open(f))
        except Exception:
            continue
        if r.get('kind') != 'pegdiff' or not r.get('sexp') or not r.get('grammar') or not r.get('rule'):
            continue
        if str(r.get('case', '')).startswith('corpusK'):
            continue              # the pinned cases of known findings are in the corpus already, under the id their entry matches
        key = (r['sexp'], r['rule'], r.get('input', ''))
        if key in seen:
            continue
        seen.add(key)
        name = os.path.basename(os.path.dirname(f))
        tags = [t for t in r.get('tags', []) if t not in ('known_K3', 'known_K4', 'known_K5')]
        # group relations (memo variants, include twins, spellings) need the twin: a lone replay keeps only its family tag
        out.append(dict(id='rp' + name.replace('_', ''), rules=None, text=r['grammar'], sexp=r['sexp'], settings=dict(uctx=bool(r.get('uctx'))),
                        inputs=[(r['rule'], r.get('input', ''))], tags=sorted(set(tags + ['corpus', 'replay'])), group=None, variant=None, solo=False,
                        exports=[r['rule']]))
    return out
