"""Minimised past failures (fixed defects, seeded changes that were once missed).  They run first in
every pegdiff suite."""
from .gen import C, lit, seq, choice


def F(name, typ, boxed=False):
    return ('field', name, boxed, typ)


def cases():
    out = []
    # F1 (C06): failures of a memoized rule must be cached
    out.append(dict(id='corpusF1a', tags=['corpus', 'probe'], rules=[
        dict(kind='rule', dirs=['export'], name='S', body=choice(seq(F(None, 'P'), lit('x')), seq(F(None, 'P'), lit('y')), seq(F(None, 'P'), lit('z')))),
        dict(kind='rule', dirs=['memoize'], name='P', body=choice(seq(F(None, 'Probe'), lit('a'), lit('c')))),
        dict(kind='extern', fn=['hooks', 'ext_probe'], ret=None, name='Probe')],
        inputs=[('S', 'ab'), ('S', 'acz'), ('S', 'a'), ('S', '')]))
    # F1 (C07): a failing later growth iteration must not become the result
    out.append(dict(id='corpusF1b', tags=['corpus', 'leftrec'], rules=[
        dict(kind='rule', dirs=['export', 'leftrec'], name='A',
             body=choice(seq(F('l', 'A', True), lit('x')), seq(('neg', F(None, 'A')), lit('b'))))],
        inputs=[('A', 'b'), ('A', 'bx'), ('A', 'bxx'), ('A', 'x'), ('A', '')]))
    # F1 (C10): the sentinel must not surface through a stale cache entry
    out.append(dict(id='corpusF1c', tags=['corpus', 'leftrec'], rules=[
        dict(kind='rule', dirs=['export'], name='S', body=choice(seq(F('a', 'A'), lit('x')), seq(F('a', 'A'), lit('y')))),
        dict(kind='rule', dirs=['leftrec'], name='A',
             body=choice(seq(F('l', 'A', True), lit('+'), lit('n')), seq(lit('n'))))],
        inputs=[('S', 'z'), ('S', 'n+ny'), ('S', 'n+'), ('S', 'nx'), ('S', '')]))
    # F7 (C03): @char rule with `char` followed by a rule part
    out.append(dict(id='corpusF7', tags=['corpus'], rules=[
        dict(kind='rule', dirs=['export'], name='S', body=choice(seq(F('c', 'Cc'), F('d', 'Dd')))),
        dict(kind='char', checks=[], name='Cc', parts=[('id', 'char'), ('id', 'Dd')]),
        dict(kind='char', checks=[], name='Dd', parts=[('id', 'Ee'), ('id', 'char'), ('range', C('a'), C('z'))]),
        dict(kind='char', checks=[], name='Ee', parts=[('range', C('0'), C('9'))])],
        inputs=[('S', 'ab'), ('S', 'é9'), ('S', 'a'), ('S', '')]))
    # known finding K3 (C03): a field named like a unit-struct rule makes the generated code fail to compile (E0530)
    out.append(dict(id='corpusK3', tags=['corpus', 'known_K3'], solo=True, rules=[
        dict(kind='rule', dirs=['export'], name='R', body=choice(seq(F('foo', 'Bar'), lit('x')))),
        dict(kind='rule', dirs=[], name='foo', body=choice(seq(lit('a')))),
        dict(kind='rule', dirs=[], name='Bar', body=choice(seq(lit('b'))))],
        inputs=[('R', 'bx')]))
    return out
