"""Shared helpers: paths, repo hashing, cargo/lake invocation, caching."""
import hashlib
import json
import os
import subprocess
import sys
import time
import fcntl

VERIF = '/verif'
REPO = '/repo'
CACHE = os.path.join(VERIF, '.cache')
LEAN_DIR = os.path.join(VERIF, 'lean')
HARNESS = os.path.join(VERIF, 'harness')
PEGVERIF = os.path.join(LEAN_DIR, '.lake/build/bin/pegverif')
TARGET = os.path.join(CACHE, 'target')
TARGET_BATCH = os.path.join(CACHE, 'target-batch')

CARGO_ENV = dict(os.environ, CARGO_NET_OFFLINE='true')


def log(*a):
    print(*a, file=sys.stderr, flush=True)


def repo_files():
    out = []
    for top in ('runtime', 'codegen', 'macro', 'cli', 'test'):
        for d, dirs, files in os.walk(os.path.join(REPO, top)):
            dirs[:] = [x for x in dirs if x not in ('target', '.git')]
            for f in files:
                if f.endswith(('.rs', '.toml', '.ebnf', '.not_ebnf', '.md', '.lock')):
                    out.append(os.path.join(d, f))
    for f in ('grammar.ebnf', 'Cargo.toml', 'Cargo.lock', 'bootstrap.sh'):
        p = os.path.join(REPO, f)
        if os.path.exists(p):
            out.append(p)
    return sorted(out)


_hash_cache = {}


def repo_hash():
    if 'h' in _hash_cache:
        return _hash_cache['h']
    h = hashlib.sha256()
    for p in repo_files():
        # generated files of the test crate's build script are outputs, not sources
        if '/test/src/' in p and p.endswith('grammar.rs'):
            continue
        h.update(p.encode())
        with open(p, 'rb') as f:
            h.update(hashlib.sha256(f.read()).digest())
    _hash_cache['h'] = h.hexdigest()[:16]
    return _hash_cache['h']


def verif_hash():
    """hash of the machinery itself (so cached engine results are not reused across edits of the tools)"""
    h = hashlib.sha256()
    roots = [os.path.join(VERIF, 'tools'), os.path.join(VERIF, 'harness'), os.path.join(VERIF, 'lean')]
    for root in roots:
        for d, dirs, files in os.walk(root):
            dirs[:] = sorted(x for x in dirs if x not in ('target', '.lake', '__pycache__', 'Extracted'))
            for f in sorted(files):
                if f.endswith(('.py', '.rs', '.toml', '.lean', '.json')) or f == 'check':
                    p = os.path.join(d, f)
                    h.update(p.encode())
                    with open(p, 'rb') as fh:
                        h.update(fh.read())
    return h.hexdigest()[:16]


class Lock:
    def __init__(self, name):
        os.makedirs(CACHE, exist_ok=True)
        self.path = os.path.join(CACHE, name + '.lock')

    def __enter__(self):
        self.f = open(self.path, 'w')
        fcntl.flock(self.f, fcntl.LOCK_EX)
        return self

    def __exit__(self, *a):
        fcntl.flock(self.f, fcntl.LOCK_UN)
        self.f.close()


def run(cmd, cwd=None, env=None, timeout=None, stdin=None, check=False):
    t0 = time.time()
    p = subprocess.run(cmd, cwd=cwd, env=env, timeout=timeout, stdin=stdin, stdout=subprocess.PIPE,
                       stderr=subprocess.PIPE, text=True)
    dt = time.time() - t0
    if check and p.returncode != 0:
        log('command failed:', ' '.join(cmd))
        log(p.stdout[-4000:])
        log(p.stderr[-4000:])
        raise RuntimeError('command failed: %s' % cmd[0])
    return p, dt


def ensure_clean_repo_crates(target_dir, cwd):
    """when the repo sources changed since the last build in this target dir, drop the repo crates'
    artefacts so stale objects can never be linked (mtime games)"""
    os.makedirs(target_dir, exist_ok=True)
    stamp = os.path.join(target_dir, '.repo_hash')
    h = repo_hash()
    old = open(stamp).read().strip() if os.path.exists(stamp) else ''
    if old != h:
        env = dict(CARGO_ENV, CARGO_TARGET_DIR=target_dir)
        for pkg in ('peginator', 'peginator_codegen'):
            subprocess.run(['cargo', 'clean', '--offline', '-p', pkg], cwd=cwd, env=env,
                           stdout=subprocess.DEVNULL, stderr=subprocess.DEVNULL)
        with open(stamp, 'w') as f:
            f.write(h)


def build_harness():
    """build pvgen (+ glue) against the current /repo tree, hooks on"""
    with Lock('harness-build'):
        ensure_clean_repo_crates(TARGET, HARNESS)
        env = dict(CARGO_ENV, CARGO_TARGET_DIR=TARGET, RUSTFLAGS='--cfg peginator_verif -Awarnings')
        lock_src = os.path.join(REPO, 'Cargo.lock')
        lock_dst = os.path.join(HARNESS, 'Cargo.lock')
        if not os.path.exists(lock_dst):
            import shutil
            shutil.copy(lock_src, lock_dst)
        p, dt = run(['cargo', 'build', '--offline', '--workspace'], cwd=HARNESS, env=env)
        return p.returncode == 0, p.stderr, dt


def build_lean(targets=('pegverif',)):
    with Lock('lake-build'):
        p, dt = run(['lake', 'build'] + list(targets), cwd=LEAN_DIR)
        return p.returncode == 0, p.stdout + p.stderr, dt


def write_json(path, obj):
    os.makedirs(os.path.dirname(path), exist_ok=True)
    tmp = path + '.tmp'
    with open(tmp, 'w') as f:
        json.dump(obj, f, indent=1, sort_keys=False)
    os.replace(tmp, path)
