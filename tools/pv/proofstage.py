"""Proof stage of a check: regenerate the extracted tables, build the property module with lake,
audit it (forbidden tokens, `#print axioms` of every theorem of the property file)."""
import os
import re
import subprocess
import time
from .common import LEAN_DIR, VERIF, Lock, log, run

ALLOWED_AXIOMS = {'propext', 'Classical.choice', 'Quot.sound'}
FORBIDDEN = ['sorry', 'admit', 'native_decide', 'bv_decide', 'implemented_by', 'maxHeartbeats 0']
FORBIDDEN_RE = [re.compile(r'(?<![A-Za-z0-9_.])' + re.escape(t) + r'(?![A-Za-z0-9_])') for t in FORBIDDEN] + \
               [re.compile(r'^\s*axiom\s', re.M), re.compile(r'(?<![A-Za-z0-9_.])unsafe\s')]


def strip_comments(src):
    # block comments (nested) and line comments
    out = []
    i = 0
    depth = 0
    n = len(src)
    while i < n:
        if src.startswith('/-', i):
            depth += 1
            i += 2
        elif src.startswith('-/', i) and depth > 0:
            depth -= 1
            i += 2
        elif depth > 0:
            i += 1
        elif src.startswith('--', i):
            while i < n and src[i] != '\n':
                i += 1
        else:
            out.append(src[i])
            i += 1
    return ''.join(out)


def model_and_proof_files():
    res = []
    for d, dirs, files in os.walk(os.path.join(LEAN_DIR, 'PegVerif')):
        for f in files:
            if f.endswith('.lean'):
                res.append(os.path.join(d, f))
    return sorted(res)


def forbidden_hits():
    hits = []
    for p in model_and_proof_files():
        src = strip_comments(open(p).read())
        src = re.sub(r'"(?:[^"\\]|\\.)*"', '""', src)   # string literals cannot hide a proof gap
        for rx in FORBIDDEN_RE:
            m = rx.search(src)
            if m:
                hits.append('%s: %s' % (os.path.relpath(p, LEAN_DIR), m.group(0).strip()))
    return hits


def theorems_of(prop_file):
    """fully qualified names of the theorems of a property file (namespace / end tracked line by line), number of examples"""
    src = strip_comments(open(prop_file).read())
    stack = []
    names = []
    examples = 0
    for line in src.split('\n'):
        m = re.match(r'^namespace\s+(\S+)', line)
        if m:
            stack.append(m.group(1))
            continue
        m = re.match(r'^end\s+(\S+)', line)
        if m and stack and stack[-1] == m.group(1):
            stack.pop()
            continue
        m = re.match(r'^(?:protected\s+|private\s+)?theorem\s+([^\s:({\[]+)', line)
        if m:
            names.append('.'.join(stack + [m.group(1)]))
        elif re.match(r'^example\b', line):
            examples += 1
    return names, examples


def run_extract():
    p = subprocess.run(['python3', os.path.join(VERIF, 'tools', 'extract.py')], stdout=subprocess.PIPE,
                       stderr=subprocess.PIPE, text=True)
    return p.returncode == 0, (p.stdout + p.stderr)[-3000:]


def proof_stage(pid, thorough=False):
    """returns dict(ok, obligations, discharged, theorems, failures[], checker_cmd, wall_s, log)"""
    t0 = time.time()
    res = dict(ok=False, obligations=0, discharged=0, theorems=[], failures=[], examples=0,
               checker_cmd='cd /verif/lean && lake build PegVerif.Props.%s pegverif && lake env lean <#print axioms of every theorem in Props/%s.lean>' % (pid, pid))
    ok, out = run_extract()
    if not ok:
        res['failures'].append('extract: ' + out[-800:])
        res['wall_s'] = time.time() - t0
        return res
    prop_file = os.path.join(LEAN_DIR, 'PegVerif', 'Props', pid + '.lean')
    if not os.path.exists(prop_file):
        res['failures'].append('no property file ' + prop_file)
        res['wall_s'] = time.time() - t0
        return res
    names, examples = theorems_of(prop_file)
    # optional companion module Props/<ID>LR.lean (statements for grammars with @leftrec rules that need imports the main
    # property file cannot have): built and audited with the main one
    modules = ['PegVerif.Props.' + pid]
    companion = os.path.join(LEAN_DIR, 'PegVerif', 'Props', pid + 'LR.lean')
    if os.path.exists(companion):
        n2, e2 = theorems_of(companion)
        names += n2
        examples += e2
        modules.append('PegVerif.Props.' + pid + 'LR')
    res['examples'] = examples
    res['obligations'] = len(names)
    with Lock('lake-build'):
        p, dt = run(['lake', 'build'] + modules + ['pegverif'], cwd=LEAN_DIR)
    if p.returncode != 0:
        errs = [l for l in (p.stdout + p.stderr).splitlines() if 'error' in l][:12]
        res['failures'].append('lake build failed: ' + ' | '.join(errs))
        res['log'] = (p.stdout + p.stderr)[-3000:]
        res['wall_s'] = time.time() - t0
        return res
    hits = forbidden_hits()
    if hits:
        res['failures'].append('forbidden tokens: ' + '; '.join(hits[:8]))
    audit = os.path.join(LEAN_DIR, '.lake', 'audit_%s.lean' % pid)
    with open(audit, 'w') as f:
        for mname in modules:
            f.write('import %s\n' % mname)
        for n in names:
            f.write('#print axioms %s\n' % n)
    p, dt = run(['lake', 'env', 'lean', audit], cwd=LEAN_DIR)
    out = p.stdout + p.stderr
    axioms = {}
    # names may themselves contain primes (`runM'`): match the outermost quotes of the report line
    for m in re.finditer(r"^'(.+)' depends on axioms: \[([^\]]*)\]", out, re.M):
        axioms[m.group(1)] = {a.strip() for a in m.group(2).split(',') if a.strip()}
    for m in re.finditer(r"^'(.+)' does not depend on any axioms", out, re.M):
        axioms[m.group(1)] = set()
    for n in names:
        ax = axioms.get(n)
        if ax is None:
            res['failures'].append('no axiom report for ' + n)
        elif not ax <= ALLOWED_AXIOMS:
            res['failures'].append('%s uses axioms %s' % (n, sorted(ax - ALLOWED_AXIOMS)))
        else:
            res['discharged'] += 1
        res['theorems'].append(dict(name=n, axioms=sorted(ax) if ax is not None else None))
    if thorough:
        p, dt = run(['lake', 'env', 'leanchecker'] + modules, cwd=LEAN_DIR)
        res['leanchecker_rc'] = p.returncode
        if p.returncode != 0:
            res['failures'].append('leanchecker: ' + (p.stdout + p.stderr)[-400:])
    res['ok'] = not res['failures'] and res['discharged'] == res['obligations'] and res['obligations'] > 0
    res['wall_s'] = time.time() - t0
    return res
