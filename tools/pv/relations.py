"""Per-property relations between the model's and the implementation's observations of the shared
pegdiff suite.  Each relation returns a dict:
   evaluations, nontrivial (set of distinct keys), samples, strict (list of disagreements model vs impl),
   prop (list of property violations visible on the implementation alone or against ground truth), distribution
Columns of an observation line (after case, idx):
   OK  tree  end   log  ghost uctx [flags…]
   ERR pos   spec  log  ghost uctx [flags…]
   PANIC msg -     log  ghost uctx
"""
import collections
import re


def cols(v, n=6):
    v = list(v) + [''] * (n - len(v))
    return v


def iter_lines(suite, families):
    for c in suite['cases']:
        if families is not None and not (set(c['tags']) & set(families)):
            continue
        gen = suite['gen'].get(c['id'], ['?', ''])
        if gen[0] != 'OK' or c['id'] in suite['compile_fail']:
            continue
        for i, (rule, text) in enumerate(c['inputs']):
            k = (c['id'], i)
            m = suite['model'].get(k)
            im = suite['impl'].get(k)
            if m is None or im is None:
                continue
            yield c, i, rule, text, cols(m), cols(im), (im[6:] if len(im) > 6 else [])


def mk_replay(c, i, rule, text, m, im, what):
    return dict(kind='pegdiff', what=what, case=c['id'], tags=c['tags'], grammar=c['text'], sexp=c['sexp'],
                uctx=c['uctx'], rule=rule, input=text, input_hex=text.encode().hex(), model=m, impl=im)


def log_events(logstr, kinds):
    return [e for e in logstr.split(';') if e and e.split(':', 1)[0] in kinds]


def generic(suite, families, select, nontrivial_key, what, prop_check=None, sample_n=3):
    """select(m, im) -> (model tuple, impl tuple) to compare strictly."""
    res = dict(evaluations=0, nontrivial=set(), samples=[], strict=[], prop=[], distribution=collections.Counter())
    for c, i, rule, text, m, im, flags in iter_lines(suite, families):
        res['evaluations'] += 1
        res['distribution']['impl:' + im[0]] += 1
        for t in c['tags']:
            res['distribution']['family:' + t] += 1
        key = nontrivial_key(c, m, im)
        if key is not None:
            res['nontrivial'].add(key)
        a, b = select(m, im)
        if im[0] in ('CRASH', 'NORULE', 'BADINPUT'):
            res['prop'].append(mk_replay(c, i, rule, text, m, im, what + ': implementation ' + im[0]))
            continue
        if a != b:
            res['strict'].append(mk_replay(c, i, rule, text, m, im, what))
        if prop_check is not None:
            msg = prop_check(c, rule, text, m, im, flags)
            if msg:
                res['prop'].append(mk_replay(c, i, rule, text, m, im, msg))
        if len(res['samples']) < sample_n and key is not None and res['evaluations'] % 97 == 1:
            res['samples'].append(dict(case=c['id'], grammar=c['text'], rule=rule, input=text, impl=im[:3], model=m[:3]))
    if not res['samples']:
        for c, i, rule, text, m, im, flags in iter_lines(suite, families):
            res['samples'].append(dict(case=c['id'], grammar=c['text'], rule=rule, input=text, impl=im[:3], model=m[:3]))
            break
    return res


ALL = None


def shape_key(c, extra):
    return (c['id'], extra)


# ------------------------------------------------------------------ C01
def rel_C01(suite):
    def sel(m, im):
        # acceptance and consumed bytes
        if m[0] == 'OK':
            return (m[0], m[2]), (im[0], im[2])
        return (m[0],), (im[0],)

    def prop(c, rule, text, m, im, flags):
        if im[0] == 'PANIC':
            return 'implementation panicked: ' + im[1]
        if m[0] in ('OK', 'ERR') and im[0] != m[0]:
            return 'acceptance differs from the PEG reading (model %s, implementation %s)' % (m[0], im[0])
        if m[0] == 'OK' and im[0] == 'OK' and m[2] != im[2]:
            return 'consumed bytes differ from PEG semantics (model %s, implementation %s)' % (m[2], im[2])
        return None
    return generic(suite, ALL, sel, lambda c, m, im: (c['id'], im[0], im[2] if im[0] == 'OK' else ''), 'acceptance/consumed bytes', prop)


# ------------------------------------------------------------------ C02
def rel_C02(suite):
    def sel(m, im):
        if m[0] == 'OK' and im[0] == 'OK':
            return (m[1],), (im[1],)
        return (m[0],), (im[0],)

    def prop(c, rule, text, m, im, flags):
        if m[0] == 'OK' and im[0] == 'OK' and m[1] != im[1]:
            return 'returned tree differs from the matches on the successful path'
        return None
    return generic(suite, ALL, sel, lambda c, m, im: (c['id'], re.sub(r'[0-9a-f]+', '', im[1])) if im[0] == 'OK' else None,
                   'tree', prop)


# ------------------------------------------------------------------ C04 (pegdiff part)
def rel_C04(suite):
    def sel(m, im):
        return (m[0] == 'PANIC',), (im[0] == 'PANIC',)

    def prop(c, rule, text, m, im, flags):
        if im[0] in ('PANIC', 'CRASH'):
            return 'implementation panicked/crashed: ' + im[1]
        for f in flags:
            if f.startswith('NONBOUNDARY'):
                return 'offset not on a UTF-8 boundary: ' + f
        return None

    def key(c, m, im):
        return (c['id'], im[0]) if any(ord(ch) > 127 for ch in c['text']) else None
    return generic(suite, ALL, sel, key, 'panic outcome', prop)


# ------------------------------------------------------------------ C09
POS_RE = re.compile(r'position: (\d+)\.\.(\d+)')


def rel_C09(suite):
    def sel(m, im):
        if m[0] == 'OK' and im[0] == 'OK':
            return (POS_RE.findall(m[1]),), (POS_RE.findall(im[1]),)
        return (m[0],), (im[0],)

    def prop(c, rule, text, m, im, flags):
        if im[0] != 'OK':
            return None
        b = text.encode()
        for a, e in POS_RE.findall(im[1]):
            a, e = int(a), int(e)
            if not (0 <= a <= e <= len(b)):
                return 'range %d..%d outside the input' % (a, e)
            try:
                b[a:e].decode('utf-8')
            except UnicodeDecodeError:
                return 'range %d..%d is not on character boundaries' % (a, e)
        if m[0] == 'OK' and POS_RE.findall(m[1]) != POS_RE.findall(im[1]):
            return 'position ranges differ from entry/exit offsets of the rule'
        return None
    return generic(suite, ALL, sel, lambda c, m, im: (c['id'], len(POS_RE.findall(im[1]))) if im[0] == 'OK' and 'position:' in im[1] else None,
                   'position ranges', prop)


# ------------------------------------------------------------------ C10
def rel_C10(suite):
    def sel(m, im):
        if m[0] == 'ERR' and im[0] == 'ERR':
            return (m[1], m[2]), (im[1], im[2])
        return (m[0],), (im[0],)

    def prop(c, rule, text, m, im, flags):
        if im[0] != 'ERR':
            return None
        pos = int(im[1])
        b = text.encode()
        if pos > len(b):
            return 'error position beyond the input'
        try:
            b[:pos].decode('utf-8')
        except UnicodeDecodeError:
            return 'error position not on a character boundary'
        if 'LeftRecursionSentinel' in im[2] and 'recfirst' in c['tags']:
            return 'left-recursion sentinel reported'
        if m[0] == 'ERR' and (m[1], m[2]) != (im[1], im[2]):
            return 'reported error (%s, %s) is not the furthest failed attempt (%s, %s)' % (im[1], im[2], m[1], m[2])
        return None
    return generic(suite, ALL, sel, lambda c, m, im: (c['id'], im[1], im[2]) if im[0] == 'ERR' else None, 'error position/detail', prop)


# ------------------------------------------------------------------ C14
def rel_C14(suite):
    def sel(m, im):
        return (m[0], m[1] if m[0] == 'OK' else '', log_events(m[3], 'XKC'), m[5]), \
               (im[0], im[1] if im[0] == 'OK' else '', log_events(im[3], 'XKC'), im[5])

    def prop(c, rule, text, m, im, flags):
        msg = check_chain_violation(c, im)
        if msg:
            return msg
        if sel(m, im)[0] != sel(m, im)[1]:
            return 'user function calls / results differ from the documented contract'
        return None
    return generic(suite, ['hooks', 'memo', 'probe', 'corpus'], sel,
                   lambda c, m, im: (c['id'], tuple(e.split('@')[0].split('(')[0] for e in log_events(im[3], 'XKC'))) if log_events(im[3], 'XKC') else None,
                   'hook calls', prop)


# ------------------------------------------------------------------ C19
def balanced(events):
    d = 0
    for e in events:
        if e.startswith('S:'):
            d += 1
        elif e.startswith('O:') or e.startswith('E:'):
            d -= 1
            if d < 0:
                return False
    return d == 0


def rel_C19(suite):
    def sel(m, im):
        return (m[0], log_events(m[3], 'SOEI')), (im[0], log_events(im[3], 'SOEI'))

    def prop(c, rule, text, m, im, flags):
        if 'TRACEDIFF' in flags:
            return 'traced parse returned a different result than the plain parse'
        if im[0] == 'PANIC':
            return 'panic while tracing: ' + im[1]
        if im[0] in ('OK', 'ERR') and not balanced(log_events(im[3], 'SOE')):
            return 'rule entries/exits are not properly nested'
        return None
    return generic(suite, ALL, sel, lambda c, m, im: (c['id'], len(log_events(im[3], 'S')), 'I:' in im[3]), 'tracer callbacks', prop)


# ------------------------------------------------------------------ C08
def rel_C08(suite):
    def sel(m, im):
        return (m[0], m[1], m[2]), (im[0], im[1], im[2])

    def has_ws(text):
        return any(ch in ' \t\n\x0c\r\x0b  ' for ch in text)

    def prop(c, rule, text, m, im, flags):
        if (m[0], m[1], m[2]) != (im[0], im[1], im[2]):
            return 'whitespace handling differs from the documented call sites'
        return None
    return generic(suite, ALL, sel, lambda c, m, im: (c['id'], im[0], im[2]) if True else None, 'result under whitespace', prop)


# ------------------------------------------------------------------ group relations (C05, C13)
def group_relation(suite, family, what, compare_err_pos):
    res = dict(evaluations=0, nontrivial=set(), samples=[], strict=[], prop=[], distribution=collections.Counter())
    groups = collections.defaultdict(list)
    for c in suite['cases']:
        if family in c['tags'] and c['group']:
            groups[c['group']].append(c)
    for gname, cs in sorted(groups.items()):
        cs = [c for c in cs if suite['gen'].get(c['id'], ['?'])[0] == 'OK' and c['id'] not in suite['compile_fail']]
        if len(cs) < 2:
            continue
        base = cs[0]
        for i, (rule, text) in enumerate(base['inputs']):
            obs = []
            for c in cs:
                m = suite['model'].get((c['id'], i))
                im = suite['impl'].get((c['id'], i))
                if m is None or im is None:
                    break
                obs.append((c, cols(m), cols(im)))
            if len(obs) != len(cs):
                continue
            res['evaluations'] += len(obs)
            res['distribution']['impl:' + obs[0][2][0]] += 1
            hit = any('Cache hit' in o[2][3] for o in obs)
            res['nontrivial'].add((gname, obs[0][2][0], hit))
            if hit:
                res['distribution']['inputs with a cache hit in some variant'] += 1

            def view(x):
                if x[0] == 'OK':
                    return ('OK', x[1], x[2])
                if x[0] == 'ERR' and compare_err_pos:
                    return ('ERR', x[1])
                return (x[0],)
            ref = view(obs[0][2])
            for c, m, im in obs:
                if view(im) != ref:
                    res['prop'].append(mk_replay(c, i, rule, text, m, im, what + ' (variant %s vs variant 0: %s vs %s)' % (c['variant'], view(im), ref)))
                if view(m) != view(im) or (m[0] == 'ERR' and im[0] == 'ERR' and (m[1], m[2]) != (im[1], im[2])):
                    res['strict'].append(mk_replay(c, i, rule, text, m, im, what + ': model vs implementation'))
            if len(res['samples']) < 3 and hit:
                res['samples'].append(dict(group=gname, grammar_variant0=obs[0][0]['text'], grammar_variant1=obs[1][0]['text'],
                                           rule=rule, input=text, results=[o[2][:3] for o in obs]))
    if not res['samples'] and groups:
        g0 = sorted(groups)[0]
        res['samples'].append(dict(group=g0, grammar=groups[g0][0]['text']))
    return res


def rel_C05(suite):
    res = group_relation(suite, 'memo', 'memo variants disagree', False)
    # "every parse call starts from an empty cache": re-executions of the memo family after other inputs (history lines of the
    # harness: every input parsed again, shuffled, after all the others) must reproduce the first result
    n = 0
    for l in suite.get('hist', []):
        p = l.split('\t')
        if p[0] == '#HD':
            c = suite['case_by_id'].get(p[1])
            if c and 'memo' in c['tags']:
                idx = int(p[2])
                rule, text = c['inputs'][idx]
                res['prop'].append(dict(kind='pegdiff', what='a memoized parser returned a different result when the same input was parsed again after other inputs (%s)' % p[3],
                                        case=p[1], tags=c['tags'], grammar=c['text'], sexp=c['sexp'], uctx=c['uctx'], rule=rule, input=text,
                                        input_hex=text.encode().hex(), model=suite['model'].get((p[1], idx)), impl=suite['impl'].get((p[1], idx)), rerun=p[4]))
        elif p[0] == '#H':
            n += int(p[2])
    res['distribution']['sequential re-executions after other inputs (whole suite, incl. the memo family)'] = n
    return res


def check_chains(text):
    """rules with several @check directives whose functions are distinct and used by no other rule: [(rule, [fn…])]"""
    per_rule = []
    for block in text.split('\n\n'):
        ls = [l for l in block.strip().split('\n') if l]
        fns = [re.match(r'@check\(([\w:]+)\)', l).group(1) for l in ls if l.startswith('@check(')]
        body = [l for l in ls if not l.startswith('@')]
        if body and fns:
            m = re.match(r'(\w+) =', body[0])
            per_rule.append((m.group(1) if m else '?', fns))
    use = collections.Counter(f for _, fns in per_rule for f in set(fns))
    return [(r, fns) for r, fns in per_rule if len(fns) >= 2 and len(set(fns)) == len(fns) and all(use[f] == 1 for f in fns)]


def check_chain_violation(c, im):
    """every @check of a rule is called, in the order written, until one fails: a call of the j-th function of a rule must
    directly follow a call of the (j-1)-th on the same value (oracle on the implementation's hook log alone)"""
    chains = check_chains(c['text'])
    if not chains:
        return None
    ks = []
    for e in im[3].split(';'):
        if e.startswith('K:'):
            m = re.match(r'K:([\w:]+)\((.*)\)/\d+$', e)
            if m:
                ks.append((m.group(1), m.group(2)))
    for rule, fns in chains:
        for j in range(1, len(fns)):
            for k, (f, v) in enumerate(ks):
                if f == fns[j] and (k == 0 or ks[k - 1] != (fns[j - 1], v)):
                    return '@check %s of rule %s was called without the @check written before it (%s) having been called on the same value' % (fns[j], rule, fns[j - 1])
    return None


def rel_C12(suite):
    # other spellings of the directives of one grammar: same parser (results and reported errors)
    res = group_relation(suite, 'spell', 'directive spellings of one grammar disagree', True)
    for c, i, rule, text, m, im, flags in iter_lines(suite, ['spell', 'hooks', 'corpus']):
        msg = check_chain_violation(c, im)
        if msg:
            res['prop'].append(mk_replay(c, i, rule, text, m, im, msg))
        elif check_chains(c['text']) and 'K:' in im[3]:
            res['nontrivial'].add((c['id'], 'check-chain'))
    return res


def rel_C13(suite):
    r = group_relation(suite, 'incl', 'include vs inlined body disagree', True)
    # the grammar written with `>Rule` must be accepted (and compile) exactly when its inlined twin is
    groups = collections.defaultdict(dict)
    for c in suite['cases']:
        if 'incl' in c['tags'] and c['group']:
            groups[c['group']][c['variant']] = c
    for gname, vs in sorted(groups.items()):
        if 0 in vs and 1 in vs:
            st = {}
            for v, c in vs.items():
                g = suite['gen'].get(c['id'], ['?', ''])
                st[v] = 'OK' if g[0] == 'OK' and c['id'] not in suite['compile_fail'] else (g[0] if g[0] != 'OK' else 'RUSTC') + ': ' + (g[1] if g[0] != 'OK' else suite['compile_fail'].get(c['id'], ''))[:160]
            r['evaluations'] += 1
            if (st[0] == 'OK') != (st[1] == 'OK'):
                c = vs[0]
                r['prop'].append(dict(kind='pegdiff', what='grammar with >Rule and its textually inlined twin are not accepted alike: with includes %s / inlined %s' % (st[0], st[1]),
                                      case=c['id'], tags=c['tags'], grammar=c['text'], sexp=c['sexp'], uctx=c['uctx'], rule='', input='', input_hex='',
                                      model=None, impl=None, inlined_grammar=vs[1]['text']))
    return r


# ------------------------------------------------------------------ C06
def memoized_rules(text):
    out = set()
    for block in text.split('\n\n'):
        ls = [l for l in block.strip().split('\n') if l]
        dirs = [l for l in ls if l.startswith('@')]
        body = [l for l in ls if not l.startswith('@')]
        if body and '@memoize' in dirs and '@leftrec' not in dirs:
            m = re.match(r'(\w+) =', body[0])
            if m:
                out.add(m.group(1))
    return out


def rel_C06(suite):
    res = dict(evaluations=0, nontrivial=set(), samples=[], strict=[], prop=[], distribution=collections.Counter())
    for c, i, rule, text, m, im, flags in iter_lines(suite, ALL):
        if '@memoize' not in c['text']:
            continue
        # user-visible calls: extern rules (X), @check functions (K), char-rule checks (C)
        ev_i = log_events(im[3], ('X', 'K', 'C'))
        ev_m = log_events(m[3], ('X', 'K', 'C'))
        res['evaluations'] += 1
        res['distribution']['impl:' + im[0]] += 1
        if ev_i != ev_m:
            res['strict'].append(mk_replay(c, i, rule, text, m, im, 'sequence of user-function calls (extern, @check)'))
        # a cache hit answers the call: the next tracer event after `S:R@p;I:Cache hit` must be R's result (O:/E:);
        # a user-function call or a sub-rule entry there is (part of) R evaluated again at p
        evs_all = im[3].split(';')
        for k in range(len(evs_all) - 2):
            if evs_all[k].startswith('S:') and evs_all[k + 1].startswith('I:Cache hit') and not evs_all[k + 2].startswith(('O:', 'E:')):
                res['prop'].append(mk_replay(c, i, rule, text, m, im,
                                             'memoized rule %s: work after a cache hit (%s) – evaluated more than once at one position' % (evs_all[k][2:], evs_all[k + 2][:60])))
                break
        if 'Cache hit' in im[3] and 'probe' not in c['tags']:
            res['nontrivial'].add((c['id'], im[0], 'hit+hooks'))
        if True:
            # body evaluations of memoized rules, read off the tracer: an entry `S:R@p` that is not immediately
            # answered by `I:Cache hit` is a body evaluation of R at p; the probes (extern calls that consume
            # nothing) make the same count visible to user code and are compared in the strict relation above
            evs = im[3].split(';')
            seen = collections.Counter()
            for k, e in enumerate(evs):
                if e.startswith('S:'):
                    nxt = evs[k + 1] if k + 1 < len(evs) else ''
                    if not nxt.startswith('I:Cache hit'):
                        seen[e[2:]] += 1
            memo_rules = memoized_rules(c['text'])
            over = [(k, v) for k, v in seen.items() if v > 1 and k.split('@')[0] in memo_rules]
            n_fail = im[3].count('E:')
            if 'probe' in c['tags']:
                res['nontrivial'].add((c['id'], im[0], len(seen), 'Cache hit' in im[3]))
            if 'Cache hit' in im[3]:
                res['distribution']['inputs with cache hits'] += 1
            if over:
                res['prop'].append(mk_replay(c, i, rule, text, m, im,
                                             'memoized rule body evaluated more than once at one position: %s' % over[:3]))
            if len(res['samples']) < 3 and 'Cache hit' in im[3] and im[0] == 'ERR':
                res['samples'].append(dict(case=c['id'], grammar=c['text'], rule=rule, input=text, log=im[3]))
    return res


# ------------------------------------------------------------------ C07
def usual_shape_expectation(c, text):
    """independent reading of `E = l:*E op r:Num | … | b:Num` (tag lrusual): b x* greedy, nested to the left.
    Returns None when the oracle does not apply, else ('ERR',) or ('OK', consumed bytes, number of extensions)."""
    g = c['text']
    m = re.search(r'^E = (.*);$', g, re.M)
    if not m:
        return None
    alts = [a.strip() for a in m.group(1).split(' | ')]
    ops = []
    for a in alts[:-1]:
        mm = re.match(r"^\w+:\*E '(.)' \w+:Num$", a)
        if not mm:
            return None
        ops.append(mm.group(1))
    if not re.match(r'^\w+:Num$', alts[-1]) or not ops:
        return None
    head = g.split('E = ')[0].split('\n\n')[-1]
    noskip = '@no_skip_ws' in head
    num_head = g.split('Num = ')[0].split('\n\n')[-1]
    if ('@no_skip_ws' in num_head) != noskip or "Num = { '0'..'9' }+;" not in g:
        return None
    ws = '' if noskip else '[ \\t\\n\\r]*'
    num = '[0-9]+' if noskip else '(?:[ \\t\\n\\r]*[0-9])+'
    if not noskip and text[:1] in (' ', '\t', '\n', '\r') and 'known_K4' not in c['tags']:
        return None      # the class of known finding K4 (leading blanks before a @leftrec rule): replayed on its pinned case only
    b = re.match(ws + num if noskip else num, text)
    if not b:
        return ('ERR',)
    pos, n = b.end(), 0
    step = re.compile(ws + '(?:' + '|'.join(re.escape(o) for o in ops) + ')' + (ws if noskip else '') + num)
    while True:
        s = step.match(text, pos)
        if not s or s.end() <= pos:
            break
        pos, n = s.end(), n + 1
    return ('OK', len(text[:pos].encode()), n)


def rel_C07(suite):
    def sel(m, im):
        return (m[0], m[1], m[2]), (im[0], im[1], im[2])

    def prop(c, rule, text, m, im, flags):
        if 'lrusual' in c['tags'] and rule == 'E' and im[0] in ('OK', 'ERR'):
            exp = usual_shape_expectation(c, text)
            if exp is not None:
                field = re.search(r'(\w+):\*E', c['text']).group(1)
                got = ('ERR',) if im[0] == 'ERR' else ('OK', int(im[2]), im[1].count(field + ': Some('))
                if got != exp:
                    return ('usual shape `A = A x | b`: expected b x* greedy nested to the left %s, implementation %s' % (exp, got))
        if m[0] == 'FUEL':
            return None
        if (m[0], m[1] if m[0] == 'OK' else '', m[2] if m[0] == 'OK' else '') != (im[0], im[1] if im[0] == 'OK' else '', im[2] if im[0] == 'OK' else ''):
            return 'left-recursive growth differs (tree / acceptance / consumed bytes)'
        return None
    return generic(suite, ['leftrec'], sel,
                   lambda c, m, im: (c['id'], im[0], im[3].count('Starting new left recursive loop')), 'left recursion result', prop)


# ------------------------------------------------------------------ C20
def rel_C20(suite):
    res = dict(evaluations=0, nontrivial=set(), samples=[], strict=[], prop=[], distribution=collections.Counter())
    for l in suite.get('hist', []):
        p = l.split('\t')
        if p[0] == '#H':
            n, seq, thr, nd = int(p[1]), int(p[2]), int(p[3]), int(p[4])
            res['evaluations'] += seq + thr
            res['distribution']['first runs'] += n
            res['distribution']['sequential re-executions (shuffled, then reversed)'] += seq
            res['distribution']['re-executions from 16 threads'] += thr
            res['nontrivial'].add(('batch', n, seq, thr))
        elif p[0] == '#HP':
            res['distribution']['parses in which a user function panicked before the re-executions (probe)'] += int(p[1])
        elif p[0] == '#HD':
            c = suite['case_by_id'].get(p[1])
            idx = int(p[2])
            first = suite['impl'].get((p[1], idx))
            rule, text = (c['inputs'][idx] if c else ('?', '?'))
            res['prop'].append(dict(kind='pegdiff', what='re-execution (%s) returned a different result than the first parse of the same input' % p[3],
                                    case=p[1], tags=c['tags'] if c else [], grammar=c['text'] if c else '', sexp=c['sexp'] if c else '', uctx=c['uctx'] if c else False,
                                    rule=rule, input=text, input_hex=text.encode().hex(), model=suite['model'].get((p[1], idx)), impl=first, rerun=p[4]))
    # the first runs themselves must be the model's answers (purity = function of grammar and input)
    for c, i, rule, text, m, im, flags in iter_lines(suite, ALL):
        res['nontrivial'].add((c['id'], im[0]))
        if (m[0], m[1], m[2]) != (im[0], im[1], im[2]):
            res['strict'].append(mk_replay(c, i, rule, text, m, im, 'result differs from the function of (grammar, input) the model computes'))
    res['samples'] = [dict(summary=l) for l in suite.get('hist', [])[:3]] or [dict(note='no history lines')]
    return res


RELATIONS = {
    'C01': rel_C01, 'C02': rel_C02, 'C04': rel_C04, 'C05': rel_C05, 'C06': rel_C06, 'C07': rel_C07, 'C08': rel_C08,
    'C09': rel_C09, 'C10': rel_C10, 'C12s': rel_C12, 'C13': rel_C13, 'C14': rel_C14, 'C19': rel_C19, 'C20': rel_C20,
}
