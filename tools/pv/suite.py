"""The shared pegdiff run: one set of generated grammars (all families) per (repo tree, machinery,
seed, tier), built and run once, cached, and consulted by every property that is decided on
generated parsers."""
import copy
import json
import os
import random
import shutil
import time
from . import gen, gast, pegdiff, corpus
from .common import CACHE, Lock, log, repo_hash, verif_hash, write_json

SIZES = {
    # family: (quick grammars, thorough grammars, inputs per exported rule quick/thorough)
    'mix': (90, 500, 30, 80),
    'hooks': (40, 200, 30, 80),
    'ws': (30, 150, 30, 80),
    'multibyte': (30, 150, 30, 80),
    'memo': (20, 100, 25, 60),      # base grammars; each in 4 variants
    'leftrec': (30, 160, 30, 80),
    'incl': (20, 100, 25, 60),      # pairs
    'probe': (20, 100, 25, 60),
}


def set_memo(rules, names):
    out = []
    for r in rules:
        r = copy.deepcopy(r)
        if r['kind'] == 'rule':
            r['dirs'] = [d for d in r['dirs'] if d != 'memoize']
            if r['name'] in names:
                r['dirs'].append('memoize')
        out.append(r)
    return out


def inline_includes(rules):
    """the textual twin of a grammar: every `>R` replaced by the parenthesised body of R"""
    byname = {r['name']: r for r in rules if r['kind'] == 'rule'}

    def inl(e, depth=0):
        k = e[0]
        if k == 'incl':
            return ('group', inl(byname[e[1]]['body'], depth + 1))
        if k in ('choice', 'seq'):
            return (k, [inl(x, depth) for x in e[1]])
        if k in ('group', 'opt', 'star', 'plus', 'neg', 'pos'):
            return (k, inl(e[1], depth))
        return e
    out = []
    for r in rules:
        r = copy.deepcopy(r)
        if r['kind'] == 'rule':
            r['body'] = inl(r['body'])
        out.append(r)
    return out


def has_include(rules):
    def w(e):
        k = e[0]
        if k == 'incl':
            return True
        if k in ('choice', 'seq'):
            return any(w(x) for x in e[1])
        if k in ('group', 'opt', 'star', 'plus', 'neg', 'pos'):
            return w(e[1])
        return False
    return any(r['kind'] == 'rule' and w(r['body']) for r in rules)


def leftrec_grammar(rng, idx):
    """left-recursive shapes: direct struct style, calculator (enum-override) style, two nested
    left-recursive rules, base alternative first/last, memoized atoms, positions"""
    r = rng
    leftrec_grammar.rec_first = True
    leftrec_grammar.nullbase = False
    leftrec_grammar.usual = False
    ops1 = r.sample(['+', '-', '|'], 2)
    ops2 = r.sample(['*', '/', '&'], 2)
    atom_kind = r.choice(['num', 'ident', 'paren'])
    rules = []
    pos = ['position'] if r.random() < 0.4 else []
    style = r.choice(['struct', 'struct', 'calc', 'calc2', 'post', 'nullbase'])
    noskip = ['no_skip_ws'] if r.random() < 0.3 else []
    memo_atom = ['memoize'] if r.random() < 0.4 else []
    num = dict(kind='rule', dirs=['string'] + memo_atom + noskip, name='Num',
               body=gen.choice(gen.seq(('plus', gen.choice(gen.seq(('range', gen.C('0'), gen.C('9'))))))))
    if style == 'struct':
        # E = l:*E op r:T | b:T     (recursive alternative first or last)
        rec = gen.seq(('field', 'left', True, 'E'), gen.lit(ops1[0]), ('field', 'right', False, 'Num'))
        rec2 = gen.seq(('field', 'left', True, 'E'), gen.lit(ops1[1]), ('field', 'right', False, 'Num'))
        base = gen.seq(('field', 'base', False, 'Num'))
        rec_first = r.random() < 0.6
        alts = [rec, rec2, base] if rec_first else [base, rec, rec2]
        if r.random() < 0.3:
            alts = [rec, base]
            rec_first = True
        leftrec_grammar.rec_first = rec_first
        leftrec_grammar.usual = rec_first      # `E = l:*E op r:Num | … | b:Num`: the shape the property spells out (oracle in rel_C07)
        rules.append(dict(kind='rule', dirs=['export', 'leftrec'] + pos + noskip, name='E', body=('choice', alts)))
        rules.append(num)
    elif style == 'nullbase':
        # E = l:*E op r:Num | [b:Num]   /  … | {b:Num}  /  … | b:Num | !'#'    (base alternatives that can match empty:
        # the seed is accepted although it makes no progress; inputs starting with an operator exercise it)
        rec = gen.seq(('field', 'left', True, 'E'), gen.lit(ops1[0]), ('field', 'right', False, 'Num'))
        nb = r.choice(['opt', 'star', 'neg'])
        if nb == 'opt':
            base = [gen.seq(('opt', gen.choice(gen.seq(('field', 'base', False, 'Num')))))]
        elif nb == 'star':
            base = [gen.seq(('star', gen.choice(gen.seq(('field', 'base', False, 'Num'), gen.lit(',')))))]
        else:
            base = [gen.seq(('field', 'base', False, 'Num')), gen.seq(('neg', gen.lit('#')))]
        rules.append(dict(kind='rule', dirs=['export', 'leftrec'] + pos + noskip, name='E', body=('choice', [rec] + base)))
        rules.append(num)
        leftrec_grammar.nullbase = True
    elif style == 'calc':
        # E = @:Add | @:Num ; Add = l:*E '+' r:Num    (enum override, indirect through a non-memoized rule)
        rules.append(dict(kind='rule', dirs=['export', 'leftrec'] + noskip, name='E',
                          body=gen.choice(gen.seq(('field', '@', False, 'Add')), gen.seq(('field', '@', False, 'Sub')),
                                          gen.seq(('field', '@', False, 'Num')))))
        rules.append(dict(kind='rule', dirs=list(noskip), name='Add',
                          body=gen.choice(gen.seq(('field', 'l', True, 'E'), gen.lit(ops1[0]), ('field', 'r', False, 'Num')))))
        rules.append(dict(kind='rule', dirs=list(noskip), name='Sub',
                          body=gen.choice(gen.seq(('field', 'l', True, 'E'), gen.lit(ops1[1]), ('field', 'r', True, 'E2')))))
        rules.append(dict(kind='rule', dirs=list(noskip), name='E2', body=gen.choice(gen.seq(('field', 'n', False, 'Num')))))
        rules.append(num)
    elif style == 'calc2':
        # two nested left-recursive rules à la Expression/Term
        rules.append(dict(kind='rule', dirs=['export', 'leftrec'] + pos + noskip, name='E',
                          body=gen.choice(gen.seq(('field', 'l', True, 'E'), gen.lit(ops1[0]), ('field', 'r', False, 'T')),
                                          gen.seq(('field', 't', False, 'T')))))
        rules.append(dict(kind='rule', dirs=['leftrec'] + noskip + (['export'] if r.random() < 0.5 else []), name='T',
                          body=gen.choice(gen.seq(('field', 'l', True, 'T'), gen.lit(ops2[0]), ('field', 'r', False, 'Atom')),
                                          gen.seq(('field', 'a', False, 'Atom')))))
        if atom_kind == 'paren':
            rules.append(dict(kind='rule', dirs=list(memo_atom) + noskip, name='Atom',
                              body=gen.choice(gen.seq(gen.lit('('), ('field', 'e', True, 'E'), gen.lit(')')),
                                              gen.seq(('field', 'n', False, 'Num')))))
        else:
            rules.append(dict(kind='rule', dirs=list(memo_atom) + noskip, name='Atom',
                              body=gen.choice(gen.seq(('field', 'n', False, 'Num')))))
        rules.append(num)
    else:
        # postfix: E = l:*E '!' | l:*E '[' i:Num ']' | n:Num, with an optional tail
        rules.append(dict(kind='rule', dirs=['export', 'leftrec'] + pos + noskip, name='E',
                          body=gen.choice(gen.seq(('field', 'l', True, 'E'), gen.lit('!')),
                                          gen.seq(('field', 'l', True, 'E'), gen.lit('['), ('field', 'i', False, 'Num'), gen.lit(']')),
                                          gen.seq(('field', 'n', False, 'Num'), ('opt', gen.choice(gen.seq(gen.lit('?'))))))))
        rules.append(num)
    # `@leftrec` together with `@memoize` on the same rule, in either order (legal, redundant: `@leftrec` wins)
    if r.random() < 0.3:
        for x in rules:
            if x['kind'] == 'rule' and 'leftrec' in x['dirs'] and 'memoize' not in x['dirs']:
                k = x['dirs'].index('leftrec')
                x['dirs'].insert(k + (1 if r.random() < 0.5 else 0), 'memoize')
    # a wrapper that calls the left-recursive rule from two alternatives at the same offset
    if r.random() < 0.5:
        rules.insert(0, dict(kind='rule', dirs=['export'], name='Top',
                             body=gen.choice(gen.seq(('field', 'a', False, 'E'), gen.lit(';')),
                                             gen.seq(('field', 'a', False, 'E'), gen.lit('.')),
                                             gen.seq(('field', 'a', False, 'E')))))
    return rules


def leftrec_inputs(rng, rules, n):
    r = rng
    ops = []
    for x in rules:
        if x['kind'] == 'rule':
            def w(e):
                if e[0] == 'lit':
                    ops.append(''.join(gast.item_char(i) for i in e[2]))
                elif e[0] in ('choice', 'seq'):
                    for y in e[1]:
                        w(y)
                elif e[0] in ('group', 'opt', 'star', 'plus'):
                    w(e[1])
            w(x['body'])
    ops = sorted(set(ops)) or ['+']
    outs = {''}
    for _ in range(n * 3):
        k = r.choice([0, 1, 1, 2, 3, 4, 6])
        s = str(r.randint(0, 99))
        for _ in range(k):
            s += r.choice(['', ' ', '']) + r.choice(ops) + r.choice(['', ' ', '']) + (str(r.randint(0, 99)) if r.random() < 0.8 else '')
        if r.random() < 0.3:
            s += r.choice(ops + [';', '.', ' ', 'x'])
        if r.random() < (0.5 if getattr(leftrec_grammar, 'nullbase', False) else 0.15):
            s = r.choice(ops + ['(', ' ']) + s
        outs.add(s)
        if len(outs) >= n:
            break
    return sorted(outs)


def revisit_grammar(rng):
    """a rule with @check (and, in the variants, @memoize) that several alternatives reach at the same offset:
    S = a:Asg | c:Call | i:Id ;  Asg = t:Id '=' v:Id ;  Call = f:Id '(' ')' ;  @check(hash) Id = letters
    – the check fails for about half of the identifiers, so the later alternatives revisit a failed, checked rule"""
    r = rng
    chk = r.choice(['chk_hash2', 'chk_hash3', 'chk_hash2'])
    kind = r.choice(['string', 'struct', 'override'])
    F = lambda n, t: ('field', n, False, t)
    rules = [dict(kind='rule', dirs=['export'], name='S',
                  body=gen.choice(gen.seq(F('a', 'Asg')), gen.seq(F('c', 'Call')), gen.seq(F('i', 'Id'), gen.lit('!')),
                                  gen.seq(gen.lit('?'), F('i', 'Id')))),
             dict(kind='rule', dirs=[], name='Asg', body=gen.choice(gen.seq(F('t', 'Id'), gen.lit('='), F('v', 'Id')))),
             dict(kind='rule', dirs=[], name='Call', body=gen.choice(gen.seq(F('f', 'Id'), gen.lit('('), gen.lit(')'))))]
    word = ('plus', gen.choice(gen.seq(('range', gen.C('a'), gen.C('z')))))
    ck = ('check', ['hooks', chk])
    if kind == 'string':
        rules.append(dict(kind='rule', dirs=['string', ck], name='Id', body=gen.choice(gen.seq(word))))
    elif kind == 'struct':
        rules.append(dict(kind='rule', dirs=[ck] + (['position'] if r.random() < 0.5 else []), name='Id', body=gen.choice(gen.seq(F('w', 'W')))))
        rules.append(dict(kind='rule', dirs=['string'], name='W', body=gen.choice(gen.seq(word))))
    else:
        rules.append(dict(kind='rule', dirs=[ck], name='Id', body=gen.choice(gen.seq(F('@', 'W')))))
        rules.append(dict(kind='rule', dirs=['string'], name='W', body=gen.choice(gen.seq(word))))
    return rules


def revisit_inputs(rng, n):
    r = rng
    outs = set()
    words = ['a', 'b', 'if', 'f', 'x', 'ab', 'while', 'return', 'zz', 'q', 'kk', 'abc']
    while len(outs) < n:
        w, v = r.choice(words), r.choice(words)
        outs.add(r.choice(['%s=%s' % (w, v), '%s()' % w, '%s ( )' % w, '%s!' % w, '?%s' % w, w, '%s = %s' % (w, v), '%s(' % w]))
    return sorted(outs)


def wsmemo_grammar(rng):
    """a @no_skip_ws (and, in the variants, @memoize) rule M reached at one offset both from whitespace-skipping rules
    and from a @no_skip_ws rule, in random alternative order; inputs have blanks at the shared offset"""
    r = rng
    F = lambda n, t: ('field', n, False, t)
    alts = [gen.seq(F('a', 'A')), gen.seq(F('b', 'B')), gen.seq(F('c', 'Cc'))]
    r.shuffle(alts)
    # S itself does not skip, so its alternatives all start at the same offset, before any blanks
    rules = [dict(kind='rule', dirs=['export', 'no_skip_ws'], name='S', body=('choice', alts)),
             dict(kind='rule', dirs=[], name='A', body=gen.choice(gen.seq(F('v', 'M'), gen.lit('x')))),
             dict(kind='rule', dirs=['no_skip_ws'], name='B', body=gen.choice(gen.seq(F('v', 'M'), gen.lit('y')))),
             dict(kind='rule', dirs=[], name='Cc', body=gen.choice(gen.seq(F('v', 'M'), gen.lit('z'))))]
    mbody = gen.choice(gen.seq(gen.lit('m'), ('star', gen.choice(gen.seq(gen.lit('n'))))))
    if r.random() < 0.5:
        rules.append(dict(kind='rule', dirs=['string', 'no_skip_ws'], name='M', body=mbody))
    else:
        rules.append(dict(kind='rule', dirs=['no_skip_ws'], name='M', body=gen.choice(gen.seq(F('w', 'W')))))
        rules.append(dict(kind='rule', dirs=['string', 'no_skip_ws'], name='W', body=mbody))
    return rules


def wsmemo_inputs(rng, n):
    outs = set()
    while len(outs) < n:
        outs.add(rng.choice(['', ' ', '  ', '\t']) + rng.choice(['m', 'mn', 'mnn']) + rng.choice(['', ' ']) + rng.choice(['x', 'y', 'z', 'q', '']))
    return sorted(outs)


def caseless_grammar(rng):
    """case-insensitive literal of ONE non-ASCII character without case: rejected by the generator on the pinned tree
    (tag expect_reject); if a generator accepts it, the inputs put characters with the same lead byte at the literal"""
    r = rng
    ch, others = r.choice([('\u00d7', '\u05d0\u05e9'), ('\u65e5', '\u554a\u5b57'), ('\u20ac', '\u00ac\u20ad'), ('\u00b7', '\u00b6\u0137')])
    F = lambda n, t: ('field', n, False, t)
    lit = ('lit', True, [gen.C(ch)])
    kind = r.choice(['string', 'struct', 'position'])
    if kind == 'string':
        rules = [dict(kind='rule', dirs=['export'], name='S', body=gen.choice(gen.seq(F('w', 'W')))),
                 dict(kind='rule', dirs=['string'], name='W',
                      body=gen.choice(gen.seq(('star', gen.choice(gen.seq(lit), gen.seq(('range', gen.C('a'), gen.C('c'))))), F(None, 'char'))))]
    else:
        rules = [dict(kind='rule', dirs=['export'], name='S',
                      body=gen.choice(gen.seq(('star', gen.choice(gen.seq(F('x', 'X')), gen.seq(gen.lit('a')))), ('opt', gen.choice(gen.seq(F('c', 'char'))))))),
                 dict(kind='rule', dirs=(['position'] if kind == 'position' else []) + ['no_skip_ws'], name='X', body=gen.choice(gen.seq(lit)))]
    ins = set()
    while len(ins) < 8:
        ins.add(''.join(r.choice([ch, others[0], others[1], 'a', 'b']) for _ in range(r.randint(1, 4))))
    return rules, [('S', s) for s in sorted(ins)]


def lookfar_grammar(rng):
    """lookaheads whose body gets further than anything after them: !(t1 t2 t3) / &(t1 t2 t3) followed by constructs that
    fail earlier than the body did – the attempts inside a lookahead that did not make the parse fail must not be reported"""
    r = rng
    a, b, c, d = r.sample('abcdefgh', 4)
    F = lambda n, t: ('field', n, False, t)
    body3 = gen.choice(gen.seq(gen.lit(a), gen.lit(b), gen.lit(c)))
    body2 = gen.choice(gen.seq(gen.lit(a), gen.lit(b + c)))
    kind = r.choice(['neg', 'neg', 'pos', 'negrule', 'nested'])
    rules = []
    if kind == 'neg':
        alt1 = gen.seq(('neg', ('group', r.choice([body3, body2]))), gen.lit(a), gen.lit(d))
    elif kind == 'pos':
        alt1 = gen.seq(('pos', ('group', gen.choice(gen.seq(gen.lit(a), ('opt', gen.choice(gen.seq(gen.lit(b), gen.lit(c)))))))), gen.lit(a), gen.lit(d))
    elif kind == 'negrule':
        alt1 = gen.seq(('neg', F(None, 'K')), gen.lit(a), gen.lit(d))
        rules.append(dict(kind='rule', dirs=r.choice([[], ['no_skip_ws'], ['memoize']]), name='K', body=body3))
    else:
        alt1 = gen.seq(('neg', ('group', gen.choice(gen.seq(gen.lit(a), ('neg', ('group', gen.choice(gen.seq(gen.lit(b), gen.lit(c)))))), gen.seq(gen.lit(b))))),
                       gen.lit(a), gen.lit(d))
    alts = [alt1] + ([gen.seq(gen.lit(a), gen.lit(a))] if r.random() < 0.5 else [])
    top = dict(kind='rule', dirs=['export'] + (['no_skip_ws'] if r.random() < 0.4 else []), name='S', body=('choice', alts))
    letters = [a, b, c, d]
    ins = set()
    while len(ins) < 14:
        ins.add(''.join(r.choice(letters + [' ']) if r.random() < 0.3 else x for x in r.choice([a + b + d, a + b + c, a + b, a + d, a, a + b + b, a + a, a + c])))
    return [top] + rules, [('S', s) for s in sorted(ins)]


def spell_directives(rng, rules, mode):
    """another spelling of the same grammar: directives permuted (the relative order of the @check directives is kept –
    that order is meaningful), optionally with the flag directives written twice"""
    out = []
    for r in rules:
        r = copy.deepcopy(r)
        if r['kind'] == 'rule':
            ds = list(r['dirs'])
            checks = [d for d in ds if isinstance(d, tuple)]
            flags = [d for d in ds if not isinstance(d, tuple)]
            if mode == 'reverse':
                flags = flags[::-1]
                slots = checks + flags
            elif mode == 'dup':
                flags = flags + flags[::-1]
                slots = flags[:len(flags) // 2] + checks + flags[len(flags) // 2:]
            else:
                rng.shuffle(flags)
                slots = list(flags)
                for c in checks:      # insert the checks at random places, in their original order
                    lo = max([k for k, d in enumerate(slots) if isinstance(d, tuple)] + [-1]) + 1
                    slots.insert(rng.randint(lo, len(slots)), c)
            r['dirs'] = slots
        out.append(r)
    return out


def deep_grammar(rng):
    """rule nesting deeper than any fixed small bound (tracers keep per-level state): brackets nested 25–40 deep through
    two or three rules per level"""
    r = rng
    F = lambda n, t, bx=False: ('field', n, bx, t)
    o, c = r.choice([('(', ')'), ('[', ']'), ('<', '>')])
    rules = [dict(kind='rule', dirs=['export'], name='V', body=gen.choice(gen.seq(F('l', 'L', True)), gen.seq(F('n', 'Num')))),
             dict(kind='rule', dirs=r.choice([[], ['position'], ['memoize']]), name='L',
                  body=gen.choice(gen.seq(gen.lit(o), ('star', gen.choice(gen.seq(F('items', 'I')))), gen.lit(c)))),
             dict(kind='rule', dirs=[], name='I', body=gen.choice(gen.seq(F('v', 'V', True), ('opt', gen.choice(gen.seq(gen.lit(','))))))),
             dict(kind='rule', dirs=['string'], name='Num', body=gen.choice(gen.seq(('plus', gen.choice(gen.seq(('range', gen.C('0'), gen.C('9'))))))))]
    ins = []
    for d in (1, 3, 17, 25, 33, 40):
        ins.append(o * d + '7' + c * d)
        ins.append(o * d + '1,' + o + '2' + c + c * (d - 1) + ('' if d % 2 else 'x'))
    ins.append(o * 30 + '5' + c * 29)
    return rules, [('V', s) for s in ins]


def probe_grammar(rng):
    """memoized rules that start with an extern probe (consumes 0 bytes, logs its offset), called from
    several alternatives at the same offset, with inputs on which they fail"""
    r = rng
    tails = r.sample(['x', 'y', 'z', 'w'], 3)
    inner_fail = r.random() < 0.5
    pbody = gen.seq(('field', None, False, 'Probe'), gen.lit('a'), ('opt', gen.choice(gen.seq(gen.lit('b')))),
                    *([gen.lit('c')] if inner_fail else []))
    kind = r.choice(['unit', 'string', 'struct', 'override'])
    # sometimes a first alternative of plain literals that gets far before failing: the later alternatives then enter
    # P with a state that already carries a farther error than P's own
    far = [gen.seq(gen.lit('a'), ('opt', gen.choice(gen.seq(gen.lit('b')))), ('opt', gen.choice(gen.seq(gen.lit('c')))),
                   ('opt', gen.choice(gen.seq(gen.lit('d')))), gen.lit('#'))] if r.random() < 0.5 else []
    rules = [dict(kind='rule', dirs=['export'], name='S',
                  body=('choice', far + [gen.seq(('field', None, False, 'P'), gen.lit(t)) for t in tails] +
                        ([gen.seq(('field', None, False, 'Q'))] if r.random() < 0.5 else [])))]
    if kind == 'unit':
        rules.append(dict(kind='rule', dirs=['memoize'], name='P', body=('choice', [pbody])))
    elif kind == 'string':
        rules.append(dict(kind='rule', dirs=['memoize', 'string'], name='P', body=('choice', [pbody])))
    elif kind == 'struct':
        rules.append(dict(kind='rule', dirs=['memoize'], name='P',
                          body=('choice', [('seq', pbody[1] + [('field', 'v', False, 'Id')])])))
    else:
        rules.append(dict(kind='rule', dirs=['memoize'], name='P',
                          body=('choice', [('seq', pbody[1] + [('field', '@', False, 'Id')])])))
    rules.append(dict(kind='rule', dirs=['memoize'] if r.random() < 0.5 else [], name='Q',
                      body=gen.choice(gen.seq(('field', None, False, 'Probe'), ('field', None, False, 'P'), gen.lit('q')),
                                      gen.seq(('field', None, False, 'Probe'), gen.lit('a')))))
    rules.append(dict(kind='rule', dirs=['string'], name='Id',
                      body=gen.choice(gen.seq(('plus', gen.choice(gen.seq(('range', gen.C('d'), gen.C('k')))))))))
    rules.append(dict(kind='extern', fn=['hooks', 'ext_probe'], ret=None, name='Probe'))
    return rules


def probe_inputs(rng, n):
    r = rng
    outs = {''}
    while len(outs) < n:
        s = r.choice(['a', 'ab', 'abc', 'ac', 'b', ' a', 'a b', 'a  b c'])
        s += r.choice(['', 'd', 'ef', ' g'])
        s += r.choice(['x', 'y', 'z', 'w', 'q', '', 'v', ' x', ' z'])
        outs.add(s)
    return sorted(outs)


def build_cases(seed, tier):
    thorough = tier == 'thorough'
    rng = random.Random(seed * 1000003 + (7 if thorough else 0))
    cases = []

    def size(f):
        q, t, iq, it = SIZES[f]
        if tier == 'search':      # directed search after a broken proof/correspondence: 3x the quick budget, other seed
            return 3 * q, iq + 10
        return (t if thorough else q), (it if thorough else iq)

    def add(cid, rules, uctx, inputs, tags, group=None, variant=None, solo=False):
        cases.append(dict(id=cid, rules=rules, settings=dict(uctx=uctx), inputs=inputs, tags=tags, group=group,
                          variant=variant, solo=solo))

    def std_inputs(rules, multibyte, n, maxlen):
        ins = []
        for ex in gen.exported_rules(rules):
            for s in gen.gen_inputs(rng, rules, ex, n, multibyte, maxlen):
                ins.append((ex, s))
        return ins

    for c in corpus.cases():
        add(c['id'], c['rules'], False, c['inputs'], c['tags'], solo=c.get('solo', False))
    # the grammar/input on which a check first caught each seeded change (seeded/<id>/replay_from_check.json): kept as pinned
    # cases so that a shift of the random stream cannot lose them (grammar given as text + s-expression, no AST)
    for c in corpus.seeded_replays():
        cases.append(c)
    maxlen = 60 if thorough else 40
    for fam in ('mix', 'hooks', 'ws', 'multibyte'):
        n, ni = size(fam)
        for i in range(n):
            opts = {}
            if fam == 'hooks':
                opts = dict(checks=True, externs=True, uctx=(i % 3 == 0))
            if fam == 'multibyte':
                opts = dict(multibyte=True)
            g = gen.Gen(rng, fam, opts)
            rules = g.build()
            ins = std_inputs(rules, g.multibyte, ni, maxlen)
            if fam == 'multibyte' and i % 3 == 0:
                # tracers look at a window of the remaining input: long inputs with multi-byte characters around the
                # 50th character (whether they parse or not does not matter)
                ex = gen.exported_rules(rules)[0]
                ins = ins + [(ex, 'a' * k + '\u00e9\u20ac\U0001f600zz' * 3) for k in (47, 48, 49, 50)]
            add('%s%d' % (fam, i), rules, g.uctx, ins, [fam])
    # memo variants: same grammar, four @memoize sets, same inputs
    n, ni = size('memo')
    for i in range(n):
        g = gen.Gen(rng, 'mix', dict(memo=False, checks=(i % 4 == 0), externs=(i % 4 == 0)))
        rules = g.build()
        names = [r['name'] for r in rules if r['kind'] == 'rule']
        ins = std_inputs(rules, g.multibyte, ni, maxlen)
        variants = [set(), set(names), set(rng.sample(names, max(1, len(names) // 2))),
                    set(rng.sample(names, max(1, len(names) // 3)))]
        for v, ms in enumerate(variants):
            add('memo%dv%d' % (i, v), set_memo(rules, ms), False, ins, ['memo'], group='memo%d' % i, variant=v)
    # directed part of the memo family: a checked rule revisited at one offset by several alternatives
    for i in range(max(3, n // 4)):
        rules = revisit_grammar(rng)
        ins = [('S', s) for s in revisit_inputs(rng, ni)]
        names = [r_['name'] for r_ in rules if r_['kind'] == 'rule']
        for v, ms in enumerate([set(), set(names), {'Id'}, set(names) - {'Id'}]):
            add('memorv%dv%d' % (i, v), set_memo(rules, ms), False, ins, ['memo'], group='memorv%d' % i, variant=v)
    for i in range(max(3, n // 4)):
        rules = wsmemo_grammar(rng)
        ins = [('S', s) for s in wsmemo_inputs(rng, ni)]
        names = [r_['name'] for r_ in rules if r_['kind'] == 'rule']
        for v, ms in enumerate([set(), set(names), {'M'}, {'M', 'W'}]):
            add('memows%dv%d' % (i, v), set_memo(rules, ms), False, ins, ['memo'], group='memows%d' % i, variant=v)
    # insensitive one-character literals without case (generator must reject them: C15; if it does not, C04's oracle sees the run)
    for i in range(4):
        rules, ins = caseless_grammar(rng)
        add('caseless%d' % i, rules, False, ins, ['multibyte', 'expect_reject'])
    # directive spellings (C12): the same grammar with its directives in another order / written twice
    for i in range(6 if tier == 'quick' else 20):
        g = gen.Gen(rng, 'hooks', dict(checks=True, externs=False))
        rules = g.build()
        ck = [r_ for r_ in rules if r_['kind'] == 'rule']
        for r_ in rng.sample(ck, min(2, len(ck))):
            have = [d for d in r_['dirs'] if isinstance(d, tuple)]
            for fn in rng.sample(['chk_hash2', 'chk_hash3', 'chk_true'], 2 if not have else 1):
                r_['dirs'].append(('check', ['hooks', fn]))
        ins = std_inputs(rules, g.multibyte, ni, maxlen)
        for v, mode in enumerate(['orig', 'shuffle', 'reverse', 'dup']):
            add('spell%dv%d' % (i, v), rules if v == 0 else spell_directives(rng, rules, mode), False, ins, ['spell', 'hooks'],
                group='spell%d' % i, variant=v)
    # deep rule nesting
    for i in range(2 if tier == 'quick' else 6):
        rules, ins = deep_grammar(rng)
        add('deep%d' % i, rules, False, ins, ['mix', 'deep'])
    # directive spellings of a left-recursive grammar: `@leftrec` alone, with a redundant `@memoize` before or after it
    # (`@leftrec` also enables memoization: the extra directive must change nothing), and written twice
    for i in range(2 if tier != 'thorough' else 5):
        rules = leftrec_grammar(rng, i)
        for r_ in rules:
            if r_['kind'] == 'rule' and 'leftrec' in r_['dirs']:
                r_['dirs'] = [d for d in r_['dirs'] if d != 'memoize']
        ins = []
        for ex in gen.exported_rules(rules):
            for s in leftrec_inputs(rng, rules, 12):
                ins.append((ex, s))

        def respell(mode):
            out = []
            for r_ in rules:
                r_ = copy.deepcopy(r_)
                if r_['kind'] == 'rule' and 'leftrec' in r_['dirs']:
                    k = r_['dirs'].index('leftrec')
                    if mode == 'after':
                        r_['dirs'].insert(k + 1, 'memoize')
                    elif mode == 'before':
                        r_['dirs'].insert(k, 'memoize')
                    elif mode == 'twice':
                        r_['dirs'].insert(k, 'leftrec')
                out.append(r_)
            return out
        for v, mode in enumerate(['orig', 'after', 'before', 'twice']):
            add('spelllr%dv%d' % (i, v), respell(mode), False, ins, ['spell', 'leftrec'], group='spelllr%d' % i, variant=v)
    # lookaheads that get further than what follows them (error position: C10)
    for i in range(8 if tier == 'quick' else 24):
        rules, ins = lookfar_grammar(rng)
        add('lookfar%d' % i, rules, False, ins, ['mix', 'lookfar'])
    # left recursion
    n, ni = size('leftrec')
    for i in range(n):
        rules = leftrec_grammar(rng, i)
        ins = []
        for ex in gen.exported_rules(rules):
            for s in leftrec_inputs(rng, rules, ni):
                ins.append((ex, s))
        add('lr%d' % i, rules, False, ins, ['leftrec'] + (['recfirst'] if leftrec_grammar.rec_first else []) +
            (['lrusual'] if leftrec_grammar.usual else []))
    # include twins
    n, ni = size('incl')
    i = 0
    tries = 0
    while i < n and tries < n * 30:
        tries += 1
        g = gen.Gen(rng, 'mix', {})
        rules = g.build()
        if not has_include(rules):
            continue
        ins = std_inputs(rules, g.multibyte, ni, maxlen)
        add('incl%da' % i, rules, False, ins, ['incl'], group='incl%d' % i, variant=0)
        add('incl%db' % i, inline_includes(rules), False, ins, ['incl'], group='incl%d' % i, variant=1)
        i += 1
    # include graphs that are not trees: a diamond, and a rule included directly and through another included rule
    F_ = lambda n_, t_: ('field', n_, False, t_)
    for i, shape in enumerate(['diamond', 'direct+indirect']):
        d_rule = dict(kind='rule', dirs=[], name='D', body=gen.choice(gen.seq(F_('d', 'Num'))))
        num = dict(kind='rule', dirs=['string'], name='Num', body=gen.choice(gen.seq(('plus', gen.choice(gen.seq(('range', gen.C('0'), gen.C('9'))))))))
        if shape == 'diamond':
            rules = [dict(kind='rule', dirs=['export'], name='A', body=gen.choice(gen.seq(('incl', 'B')), gen.seq(('incl', 'Cc')))),
                     dict(kind='rule', dirs=[], name='B', body=gen.choice(gen.seq(gen.lit('b'), ('incl', 'D')))),
                     dict(kind='rule', dirs=[], name='Cc', body=gen.choice(gen.seq(gen.lit('c'), ('incl', 'D')))), d_rule, num]
        else:
            rules = [dict(kind='rule', dirs=['export'], name='A', body=gen.choice(gen.seq(('incl', 'D'), gen.lit(','), ('star', gen.choice(gen.seq(('incl', 'B'))))))),
                     dict(kind='rule', dirs=[], name='B', body=gen.choice(gen.seq(gen.lit('b'), ('incl', 'D')))), d_rule, num]
        ins = [('A', s) for s in ['b1', 'c22', 'b', 'd1', '1,b2b3', '1,', '1,b', ',b2', 'c 3', '7 , b 8']]
        add('incld%da' % i, rules, False, ins, ['incl'], group='incld%d' % i, variant=0)
        add('incld%db' % i, inline_includes(rules), False, ins, ['incl'], group='incld%d' % i, variant=1)
    # an included rule's own directives (@check, @string, @position, @memoize) play no role at the include site
    for i in range(3 if tier != 'thorough' else 8):
        ck = rng.choice(['chk_hash2', 'chk_hash3', 'chk_false'])
        extra = rng.choice([[], ['position'], ['memoize'], ['string']])
        ident = dict(kind='rule', dirs=[('check', ['hooks', ck])] + extra + ['no_skip_ws'], name='Ident',
                     body=gen.choice(gen.seq(('range', gen.C('a'), gen.C('z')), ('star', gen.choice(gen.seq(('range', gen.C('a'), gen.C('z'))))))))
        rules = [dict(kind='rule', dirs=['export'], name='A', body=gen.choice(gen.seq(F_('w', 'Word'), ('star', gen.choice(gen.seq(gen.lit(','), F_('w', 'Word')))), ('opt', gen.choice(gen.seq(gen.lit(';'), F_('i', 'Ident'))))))),
                 dict(kind='rule', dirs=['string', 'no_skip_ws'], name='Word', body=gen.choice(gen.seq(('incl', 'Ident')))), ident]
        ins = [('A', s) for s in ['a', 'if', 'b,c', 'let , x', 'zz;q', 'a;if', 'while,b;c', 'x,', ',x', 'ab cd']]
        add('inclc%da' % i, rules, False, ins, ['incl', 'hooks'], group='inclc%d' % i, variant=0)
        add('inclc%db' % i, inline_includes(rules), False, ins, ['incl', 'hooks'], group='inclc%d' % i, variant=1)
    # probes
    n, ni = size('probe')
    for i in range(n):
        rules = probe_grammar(rng)
        ins = [('S', s) for s in probe_inputs(rng, ni)]
        add('probe%d' % i, rules, False, ins, ['probe'])
    return cases


def suite_key(seed, tier):
    return '%s-%s-s%d-%s' % (repo_hash(), verif_hash(), seed, tier)


def get_suite(seed, tier):
    """run (or load) the shared pegdiff suite"""
    key = suite_key(seed, tier)
    d = os.path.join(CACHE, 'suite')
    os.makedirs(d, exist_ok=True)
    path = os.path.join(d, key + '.json')
    with Lock('suite-' + tier):
        if os.path.exists(path):
            return load_suite(path)
        # evict old entries
        for f in os.listdir(d):
            if f.endswith('-%s.json' % tier):
                os.remove(os.path.join(d, f))
        t0 = time.time()
        cases = build_cases(seed, tier)
        work = os.path.join(CACHE, 'suite-work-' + tier)
        res = pegdiff.run_cases(cases, work, nbatch=14, seed=seed, indented=True)
        out = dict(key=key, seed=seed, tier=tier, wall_s=time.time() - t0, timing=res['timing'],
                   gen={k: list(v) for k, v in res['gen'].items()}, compile_fail=res['compile_fail'], hist=res['hist'],
                   cases=[dict(id=c['id'], tags=c['tags'], group=c['group'], variant=c['variant'], uctx=c['settings']['uctx'],
                               text=c.get('text') or gast.pp_grammar(c['rules']), sexp=c.get('sexp') or gast.sx_grammar(c['rules']),
                               inputs=[[r, s] for r, s in c['inputs']]) for c in cases],
                   impl={'%s\t%d' % k: v for k, v in res['impl'].items()},
                   model={'%s\t%d' % k: v for k, v in res['model'].items()})
        write_json(path, out)
        shutil.rmtree(work, ignore_errors=True)
        return load_suite(path)


def load_suite(path):
    d = json.load(open(path))

    def unkey(m):
        out = {}
        for k, v in m.items():
            c, i = k.split('\t')
            out[(c, int(i))] = v
        return out
    d['impl'] = unkey(d['impl'])
    d['model'] = unkey(d['model'])
    d['case_by_id'] = {c['id']: c for c in d['cases']}
    return d
