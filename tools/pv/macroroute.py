"""macro route (C16): `peginate!("…")` against the library call on the same grammar text.

One scratch crate holds, for every grammar i, `mod m<i> { peginate!(<text>); }` (expanded by the repository's
proc-macro crate at build time) and `mod l<i> { include!("l<i>.rs"); }` (code written by the library route, pvgen).
 * behaviour: every exported rule of both modules parses the same inputs; `{:?}` of the results must be equal
   (Debug prints type, variant and field names, so equal output = same shapes as far as a value can show)
 * types: when a nightly toolchain is installed, `rustc -Zunpretty=expanded` prints the crate after macro expansion;
   the text of `mod m<i>` must equal the text of `mod l<i>` (same token stream through the same pretty-printer)."""
import collections
import os
import random
import re
import shutil
import subprocess
import time
from . import gen, gast
from .common import CACHE, TARGET, REPO, CARGO_ENV, Lock, build_harness, run, log

PVGEN = os.path.join(TARGET, 'debug', 'pvgen')
WORK = os.path.join(CACHE, 'macro-work')
TARGET_MACRO = os.path.join(CACHE, 'target-macro')


def rust_str(s):
    """an ordinary Rust string literal: everything outside printable ASCII (and quote, backslash) as \\u{…}"""
    out = []
    for ch in s:
        if ch in '"\\' or not (32 <= ord(ch) < 127):
            out.append('\\u{%x}' % ord(ch))
        else:
            out.append(ch)
    return '"' + ''.join(out) + '"'


def build_cases(seed, n, ni):
    rng = random.Random(seed * 7919 + 11)
    cases = []
    tries = 0
    while len(cases) < n and tries < n * 20:
        tries += 1
        fam = rng.choice(['mix', 'mix', 'multibyte', 'ws'])
        g = gen.Gen(rng, fam, dict(multibyte=True) if fam == 'multibyte' else {})
        rules = g.build()
        if any(r['kind'] == 'extern' for r in rules):
            continue
        ins = []
        for ex in gen.exported_rules(rules):
            for s in gen.gen_inputs(rng, rules, ex, ni, g.multibyte, 30):
                ins.append((ex, s))
        cases.append(dict(id=len(cases), rules=rules, text=gast.pp_grammar(rules), inputs=ins))
    return cases


def safe(name):
    return name


def write_crate(cases, ok_ids, repo=REPO):
    shutil.rmtree(WORK, ignore_errors=True)
    os.makedirs(os.path.join(WORK, 'src'))
    with open(os.path.join(WORK, 'Cargo.toml'), 'w') as f:
        f.write('[package]\nname = "pvmacro"\nversion = "0.0.0"\nedition = "2021"\n\n[workspace]\n\n[dependencies]\n'
                'peginator = { path = "%s/runtime" }\npeginator_macro = { path = "%s/macro" }\n\n[profile.dev]\ndebug = 0\n' % (repo, repo))
    shutil.copy(os.path.join(REPO, 'Cargo.lock'), os.path.join(WORK, 'Cargo.lock'))
    main = ['#![allow(warnings)]', 'use std::io::Write;']
    body = []
    for c in cases:
        if c['id'] not in ok_ids:
            continue
        i = c['id']
        main.append('mod m%d { peginator_macro::peginate!(%s); }' % (i, rust_str(c['text'])))
        main.append('mod l%d { include!("l%d.rs"); }' % (i, i))
        for k, (rule, text) in enumerate(c['inputs']):
            body.append('    { use peginator::PegParser; let s = %s; '
                        'let a = std::panic::catch_unwind(|| format!("{:?}", m%d::%s::parse(s))).unwrap_or("PANIC".into()); '
                        'let b = std::panic::catch_unwind(|| format!("{:?}", l%d::%s::parse(s))).unwrap_or("PANIC".into()); '
                        'writeln!(out, "%d\\t%d\\t{}\\t{}", a == b, if a == b { String::new() } else { format!("{} <> {}", a, b) }).unwrap(); }'
                        % (rust_str(text), i, rule_ident(rule), i, rule_ident(rule), i, k))
    main.append('fn main() {\n    std::panic::set_hook(Box::new(|_| {}));\n    let stdout = std::io::stdout();\n    let mut out = stdout.lock();')
    main += body
    main.append('}')
    with open(os.path.join(WORK, 'src', 'main.rs'), 'w') as f:
        f.write('\n'.join(main) + '\n')


RUST_KW = None


def rule_ident(name):
    global RUST_KW
    if RUST_KW is None:
        src = open(os.path.join(REPO, 'codegen', 'src', 'common.rs')).read()
        m = re.search(r'RUST_KEYWORDS[^=]*=\s*[&\[]*([^;]*?)\];', src, re.S)
        RUST_KW = set(re.findall(r'"(\w+)"', m.group(1))) if m else set()
    if name in RUST_KW:
        return 'r#' + name
    return name


def mod_text(expanded, name):
    """text of `mod <name> { … }` in the expanded crate (brace matching; the pretty-printer balances braces outside literals,
    and literals in generated code are matched symmetrically in both modules anyway)"""
    m = re.search(r'^mod %s \{' % name, expanded, re.M)
    if not m:
        return None
    i = m.end()
    depth = 1
    while i < len(expanded) and depth:
        ch = expanded[i]
        if ch == '{':
            depth += 1
        elif ch == '}':
            depth -= 1
        i += 1
    return expanded[m.end():i - 1]


def run_macro(seed, tier, repo=REPO):
    t0 = time.time()
    res = dict(evaluations=0, nontrivial=set(), samples=[], strict=[], prop=[], distribution=collections.Counter())
    ok, err, dt = build_harness()
    if not ok:
        raise RuntimeError('harness build failed:\n' + err[-3000:])
    n, ni = (40, 12) if tier == 'thorough' else (10, 6)
    cases = build_cases(seed, n, ni)
    with Lock('macro-build'):
        d = WORK + '-gen'
        shutil.rmtree(d, ignore_errors=True)
        os.makedirs(d)
        lst = os.path.join(d, 'list.txt')
        with open(lst, 'w') as f:
            for c in cases:
                p = os.path.join(d, 'g%d.ebnf' % c['id'])
                open(p, 'w').write(c['text'])
                f.write('g%d\t%s\t%s\t-\t-\n' % (c['id'], p, os.path.join(d, 'l%d.rs' % c['id'])))
        p = subprocess.run([PVGEN, 'gen', lst], stdout=subprocess.PIPE, stderr=subprocess.DEVNULL, text=True, timeout=600)
        status = {l.split('\t')[0]: l.split('\t')[1] for l in p.stdout.splitlines()}
        ok_ids = {c['id'] for c in cases if status.get('g%d' % c['id']) == 'OK'}
        write_crate(cases, ok_ids, repo)
        for i in ok_ids:
            shutil.copy(os.path.join(d, 'l%d.rs' % i), os.path.join(WORK, 'src', 'l%d.rs' % i))
        env = dict(CARGO_ENV, CARGO_TARGET_DIR=TARGET_MACRO)
        p, dt = run(['cargo', 'build', '--offline'], cwd=WORK, env=env, timeout=1800)
        res['distribution']['macro crate build seconds'] = round(dt, 1)
        if p.returncode != 0:
            res['prop'].append(dict(kind='routes', what='crate using peginate! on generator-accepted grammars does not build: ' + p.stderr[-600:],
                                    grammar=cases[0]['text']))
            return res
        q = subprocess.run([os.path.join(TARGET_MACRO, 'debug', 'pvmacro')], stdout=subprocess.PIPE, stderr=subprocess.PIPE, text=True, timeout=600)
        by = {c['id']: c for c in cases}
        for l in q.stdout.splitlines():
            f = l.split('\t')
            if len(f) < 3:
                continue
            c = by[int(f[0])]
            rule, text = c['inputs'][int(f[1])]
            res['evaluations'] += 2
            res['nontrivial'].add((c['id'], 'behaviour'))
            res['distribution']['macro vs library parse results compared'] += 1
            if f[2] != 'true':
                res['prop'].append(dict(kind='routes', grammar=c['text'], rule=rule, input=text,
                                        what='peginate! parser and library-route parser behave differently: ' + (f[3] if len(f) > 3 else '')[:400]))
        if q.returncode != 0:
            res['strict'].append(dict(kind='routes', what='macro comparison binary exited with %d: %s' % (q.returncode, q.stderr[-300:]), grammar=''))
        # expanded text comparison (nightly only)
        nightly = subprocess.run(['cargo', '+nightly', '--version'], stdout=subprocess.PIPE, stderr=subprocess.PIPE, text=True)
        if nightly.returncode == 0:
            envn = dict(CARGO_ENV, CARGO_TARGET_DIR=TARGET_MACRO + '-nightly')
            p, dt = run(['cargo', '+nightly', 'rustc', '--offline', '--', '-Zunpretty=expanded'], cwd=WORK, env=envn, timeout=1800)
            res['distribution']['expansion (nightly -Zunpretty=expanded) seconds'] = round(dt, 1)
            if p.returncode == 0:
                for i in sorted(ok_ids):
                    a, b = mod_text(p.stdout, 'm%d' % i), mod_text(p.stdout, 'l%d' % i)
                    res['evaluations'] += 1
                    if a is None or b is None:
                        res['strict'].append(dict(kind='routes', what='module m%d/l%d not found in the expanded crate' % (i, i), grammar=by[i]['text']))
                    elif a != b:
                        res['prop'].append(dict(kind='routes', grammar=by[i]['text'], what='peginate! expands to different code than the library call returns',
                                                macro_head=a[:300], library_head=b[:300]))
                    else:
                        res['nontrivial'].add((i, 'expansion'))
                        res['distribution']['macro expansion == library code (token level)'] += 1
            else:
                res['distribution']['expansion unavailable: ' + p.stderr[-120:].replace('\n', ' ')] += 1
        shutil.rmtree(d, ignore_errors=True)
    res['wall_s'] = round(time.time() - t0, 1)
    return res
