"""gendiff: the real generator's decisions (accept / reject / panic, declared public types) vs the
Lean model `Compile.errors` / `Compile.decls`, on valid grammars, on grammars built to violate each
documented restriction, on pathological names, include cycles, and on raw text mutations."""
import collections
import copy
import os
import random
import re
import shutil
import subprocess
import tempfile
import time
from . import gen, gast
from .common import CACHE, PEGVERIF, TARGET, REPO, CARGO_ENV, Lock, build_harness, log, ensure_clean_repo_crates

PVGEN = os.path.join(TARGET, 'debug', 'pvgen')
F = lambda name, typ, boxed=False: ('field', name, boxed, typ)


def walk_replace(e, fn):
    """apply fn to every node bottom-up (fn returns replacement)"""
    k = e[0]
    if k in ('choice', 'seq'):
        e = (k, [walk_replace(x, fn) for x in e[1]])
    elif k in ('group', 'opt', 'star', 'plus', 'neg', 'pos'):
        e = (k, walk_replace(e[1], fn))
    return fn(e)


def named_fields(e, out):
    k = e[0]
    if k == 'field' and e[1] is not None:
        out.append(e)
    elif k in ('choice', 'seq'):
        for x in e[1]:
            named_fields(x, out)
    elif k in ('group', 'opt', 'star', 'plus', 'neg', 'pos'):
        named_fields(e[1], out)
    return out


def base_grammar(rng):
    g = gen.Gen(rng, 'mix', dict(checks=rng.random() < 0.3, externs=rng.random() < 0.3))
    return g.build()


def struct_rules(rules):
    return [r for r in rules if r['kind'] == 'rule' and 'string' not in r['dirs'] and
            any(f[1] != '@' for f in named_fields(r['body'], []))]


# each violation returns (rules, derives, label) or None when not applicable to this base grammar
def v_lookahead_field(rng, rules):
    rs = struct_rules(rules)
    if not rs:
        return None
    r = rng.choice(rs)
    f = rng.choice(named_fields(r['body'], []))
    r['body'] = ('choice', r['body'][1] + [('seq', [(rng.choice(['neg', 'pos']), f), gen.lit('q')])])
    return rules, '-', 'fields inside lookaheads'


def v_mix_override(rng, rules):
    rs = struct_rules(rules)
    if not rs:
        return None
    r = rng.choice(rs)
    typ = named_fields(r['body'], [])[0][3]
    r['body'] = ('choice', [('seq', s[1] + [F('@', typ)]) for s in r['body'][1][:1]] + r['body'][1][1:])
    return rules, '-', 'mixing @: with named fields'


def v_multitype_override_optional(rng, rules):
    names = [r['name'] for r in rules if r['kind'] == 'rule' and r['name'] != 'Whitespace']
    if len(names) < 2:
        return None
    a, b = rng.sample(names, 2)
    wrap = rng.choice(['opt', 'star'])
    body = gen.choice(gen.seq((wrap, gen.choice(gen.seq(gen.lit('k'), F('@', a)))), gen.lit('m')), gen.seq(gen.lit('n'), F('@', b)))
    rules.insert(0, dict(kind='rule', dirs=[], name='Vx', body=body))
    return rules, '-', 'multi-type @: in optional/closure'


def v_export_simple_override(rng, rules):
    names = [r['name'] for r in rules if r['kind'] == 'rule' and r['name'] != 'Whitespace']
    a = rng.choice(names)
    d = rng.choice(['export', 'position'])
    rules.insert(0, dict(kind='rule', dirs=[d], name='Vx', body=gen.choice(gen.seq(gen.lit('k'), F('@', a)))))
    return rules, '-', '@%s on a plain override' % d


def v_string_export(rng, rules):
    rules.insert(0, dict(kind='rule', dirs=['string', 'export'], name='Vx', body=gen.choice(gen.seq(gen.lit('k')))))
    return rules, '-', '@string with @export'


def v_skipping_whitespace(rng, rules):
    rules = [r for r in rules if r['name'] not in ('Whitespace',)]
    rules.append(dict(kind='rule', dirs=[], name='Whitespace', body=gen.choice(gen.seq(('star', gen.choice(gen.seq(gen.lit(' '))))))))
    return rules, '-', 'skipping Whitespace rule'


def v_memoize_no_clone(rng, rules):
    rs = [r for r in rules if r['kind'] == 'rule']
    r = rng.choice(rs)
    which = rng.choice(['memoize', 'memoize', 'leftrec'])      # @leftrec results are cloned out of the cache too (fix F11)
    if which not in r['dirs']:
        r['dirs'].append(which)
    return rules, rng.choice(['Debug', 'EMPTY', 'Debug,PartialEq']), '@%s without Clone' % which


def v_nonascii_insensitive(rng, rules):
    rs = [r for r in rules if r['kind'] == 'rule']
    r = rng.choice(rs)
    bad = ('lit', True, [gen.C(c) for c in rng.choice(['é', 'aé', 'Ωb', '€'])])
    r['body'] = ('choice', r['body'][1] + [('seq', [bad])])
    return rules, '-', 'non-ASCII case-insensitive literal'


def v_invalid_codepoint(rng, rules):
    rs = [r for r in rules if r['kind'] == 'rule']
    r = rng.choice(rs)
    digits = rng.choice(['d800', 'dfff', '110000', 'ffffff', 'D9ab'])
    form = rng.choice(['lit', 'range', 'charrule'])
    item = ('u', list(digits), 'brace')
    if form == 'lit':
        r['body'] = ('choice', r['body'][1] + [('seq', [('lit', False, [gen.C('a'), item])])])
    elif form == 'range':
        r['body'] = ('choice', r['body'][1] + [('seq', [('range', gen.C('a'), item)])])
    else:
        rules.append(dict(kind='char', checks=[], name='Vc', parts=[('chr', item)]))
    return rules, '-', 'invalid code point'


def v_include_missing(rng, rules):
    rs = [r for r in rules if r['kind'] == 'rule' and 'string' not in r['dirs']]
    r = rng.choice(rs)
    kind = rng.choice(['missing', 'char', 'extern'])
    if kind == 'missing':
        target = 'Nowhere'
    elif kind == 'char':
        rules.append(dict(kind='char', checks=[], name='Vc', parts=[('range', gen.C('a'), gen.C('z'))]))
        target = 'Vc'
    else:
        rules.append(dict(kind='extern', fn=['hooks', 'ext_ident'], ret=None, name='Ve'))
        target = 'Ve'
    r['body'] = ('choice', r['body'][1] + [('seq', [('incl', target)])])
    return rules, '-', 'including a %s rule' % kind


def v_bad_identifier(rng, rules):
    kind = rng.choice(['rule_name', 'field_name', 'type_ref', 'check_fn', 'extern_fn', 'extern_ret', 'derive', 'charrule_name', 'char_check'])
    bad = rng.choice(['1a', '9', 'self', 'Self', 'super', '0_x'])
    if kind in ('rule_name', 'field_name', 'type_ref', 'charrule_name') and rng.random() < 0.25:
        bad = 'crate'        # fine as the first segment of a function path, not as the name of an item or field (fix F11)
    derives = '-'
    if kind == 'rule_name':
        rules.append(dict(kind='rule', dirs=[], name=bad, body=gen.choice(gen.seq(gen.lit('k')))))
    elif kind == 'field_name':
        rules.insert(0, dict(kind='rule', dirs=[], name='Vx', body=gen.choice(gen.seq(F(bad, rules[-1]['name'])))))
    elif kind == 'type_ref':
        rules.insert(0, dict(kind='rule', dirs=[], name='Vx', body=gen.choice(gen.seq(F(rng.choice(['a', None]), bad)))))
    elif kind == 'check_fn':
        rules.insert(0, dict(kind='rule', dirs=[('check', ['hooks', rng.choice(['a b', 'x(y', '1f', 'f<T>', 'self'])])], name='Vx',
                             body=gen.choice(gen.seq(gen.lit('k')))))
    elif kind == 'extern_fn':
        rules.append(dict(kind='extern', fn=[rng.choice(['a b', '2x', 'super'])], ret=None, name='Ve'))
    elif kind == 'extern_ret':
        rules.append(dict(kind='extern', fn=['hooks', 'ext_ident'], ret=[rng.choice(['Vec<u8>', 'a b', '3'])], name='Ve'))
    elif kind == 'derive':
        derives = rng.choice(['Debug,Clone,serde::Serialize', 'Debug,Clone,1x', 'Debug,Clone,a b'])
    elif kind == 'charrule_name':
        rules.append(dict(kind='char', checks=[], name=bad, parts=[('range', gen.C('a'), gen.C('z'))]))
    else:
        rules.append(dict(kind='char', checks=[['hooks', 'c c']], name='Vc', parts=[('range', gen.C('a'), gen.C('z'))]))
    return rules, derives, 'invalid identifier (%s)' % kind


def v_include_cycle(rng, rules):
    n = rng.choice([1, 2, 3])
    names = ['Cy%d' % i for i in range(n)]
    for i, nm in enumerate(names):
        nxt = names[(i + 1) % n]
        wrap = rng.choice(['plain', 'opt', 'group', 'neg'])
        inc = ('incl', nxt)
        if wrap == 'opt':
            inc = ('opt', gen.choice(gen.seq(inc)))
        elif wrap == 'group':
            inc = ('group', gen.choice(gen.seq(inc)))
        elif wrap == 'neg':
            inc = ('neg', inc)
        rules.append(dict(kind='rule', dirs=[], name=nm, body=gen.choice(gen.seq(gen.lit('c'), inc))))
    return rules, '-', 'include cycle of length %d' % n


VIOLATIONS = [v_lookahead_field, v_mix_override, v_multitype_override_optional, v_export_simple_override, v_string_export,
              v_skipping_whitespace, v_memoize_no_clone, v_nonascii_insensitive, v_invalid_codepoint, v_include_missing,
              v_bad_identifier, v_include_cycle]


def gen_cases(seed, tier):
    rng = random.Random(seed * 7919 + (3 if tier == 'thorough' else 0))
    n_valid = 400 if tier == 'thorough' else 80
    n_viol = 100 if tier == 'thorough' else 12       # per restriction
    cases = []
    for i in range(n_valid):
        rules = base_grammar(rng)
        derives = rng.choice(['-', '-', '-', 'Debug,Clone,PartialEq,Eq', 'Clone'])
        cases.append(dict(id='v%d' % i, rules=rules, derives=derives, expect='accept', label='valid'))
    for vi, v in enumerate(VIOLATIONS):
        k = 0
        tries = 0
        while k < n_viol and tries < n_viol * 5:
            tries += 1
            rules = copy.deepcopy(base_grammar(rng))
            r = v(rng, rules)
            if r is None:
                continue
            rules, derives, label = r
            cases.append(dict(id='x%d_%d' % (vi, k), rules=rules, derives=derives, expect='reject', label=label))
            k += 1
    # the inputs on which the unfixed generator panicked / overflowed (F4, F5)
    fixed = [
        ([dict(kind='rule', dirs=[], name='1a', body=gen.choice(gen.seq(gen.lit('x'))))], 'F4 rule named 1a'),
        ([dict(kind='rule', dirs=[], name='A', body=gen.choice(gen.seq(F('self', 'B')))),
          dict(kind='rule', dirs=[], name='B', body=gen.choice(gen.seq(gen.lit('x'))))], 'F4 field named self'),
        ([dict(kind='rule', dirs=[('check', ['a b'])], name='A', body=gen.choice(gen.seq(gen.lit('x'))))], 'F4 @check(a b)'),
        ([dict(kind='rule', dirs=[], name='A', body=gen.choice(gen.seq(('incl', 'A'))))], 'F5 A = >A'),
    ]
    for i, (rules, label) in enumerate(fixed):
        cases.append(dict(id='f%d' % i, rules=rules, derives='-', expect='reject', label=label))
    cases.append(dict(id='fv0', derives='-', expect='accept', label='crate:: path in @check / @extern stays legal', rules=[
        dict(kind='rule', dirs=['export', ('check', ['crate', 'checks', 'ok'])], name='A', body=gen.choice(gen.seq(F('e', 'E')))),
        dict(kind='extern', fn=['crate', 'ext'], ret=['crate', 'T'], name='E')]))
    return cases


def text_mutants(seed, tier, cases):
    """raw text stream: mutated valid grammars, random tokens, deep nesting (no model: totality only)"""
    rng = random.Random(seed + 17)
    out = []
    toks = ['@export', '@string', '@char', '@check(', ')', '(', '[', ']', '{', '}', '}+', '|', ';', '=', '!', '&', '>', '$', ':', '*', '@:', "'a'", '"b"',
            "i'x'", "'a'..'z'", 'A', 'B', 'x', '1', '\\', "'", '"', '#c\n', ' ', '\n', '@extern(f -> T)', '@leftrec', '@memoize', 'é', '\\u{110000}', "'\\xZZ'"]
    n = 3000 if tier == 'thorough' else 300
    valid_texts = [gast.pp_grammar(c['rules']) for c in cases if c['expect'] == 'accept'][:60]
    for i in range(n):
        p = rng.random()
        if p < 0.6 and valid_texts:
            t = list(rng.choice(valid_texts))
            for _ in range(rng.randint(1, 4)):
                q = rng.random()
                j = rng.randrange(len(t) + 1)
                if q < 0.4 and t:
                    del t[min(j, len(t) - 1)]
                elif q < 0.8:
                    t[j:j] = list(rng.choice(toks))
                elif t:
                    k = rng.randrange(len(t))
                    t[min(j, len(t) - 1)] = t[k]
            out.append(''.join(t))
        else:
            out.append(' '.join(rng.choice(toks) for _ in range(rng.randint(1, 30))))
    # nested choice groups: generation time must not double with every level (defect F12: 60 levels never finished)
    for dd in (10, 24, 60):
        out.append('@export\nA = ' + '(' * dd + "'a'|'b'" + ")|'b'" * (dd - 1) + ');')
        out.append('@export\nA = ' + '[' * dd + "x:X|'b'" + "]|'b'" * (dd - 1) + "];\nX = 'x';")
    # include cycles through a rule that is defined twice (the second definition breaks the cycle only for a checker that looks
    # at the last definition of a name), includes of undefined / char / extern rules
    out += ["A = >B; B = >A; B = 'x';", "@export S = 's' [>S]; S = 's';", "A = >B | 'a'; B = >Cc; Cc = >A; Cc = 'c'; A = 'z';",
            "A = >B; @char B = 'x';", "A = >B; @extern(f) B;", "A = >A;\nA = 'x';"]
    # moderately deep nesting (the unbounded case is known finding K2 and replayed separately)
    for d in (10, 50, 200):
        out.append('A = ' + '(' * d + "'x'" + ')' * d + ';')
        out.append('A = ' + '[' * d + "'x'" + ']' * d + ';')
        out.append('A = ' + '!' * d + "'x';")
    return out


def extract_decls(code):
    """public type declarations of generated code, whitespace-free, in order"""
    i = code.find('mod peginator_generated')
    head = code if i < 0 else code[:i]
    # drop the trailing attribute list that belongs to the module
    j = head.rfind('# [allow (non_snake_case')
    if j >= 0:
        head = head[:j]
    s = re.sub(r'\s+', '', head)
    items = []
    depth = 0
    start = 0
    k = 0
    while k < len(s):
        ch = s[k]
        if ch in '([{':
            depth += 1
        elif ch in ')]}':
            depth -= 1
            if depth == 0 and ch == '}':
                items.append(s[start:k + 1])
                start = k + 1
        elif ch == ';' and depth == 0:
            items.append(s[start:k + 1])
            start = k + 1
        k += 1
    decls = []
    for it in items:
        body = re.sub(r'^(#\[[^\]]*\])*', '', it)
        if body.startswith(('pubstruct', 'pubtype', 'pubenum')):
            decls.append(it)
    return decls


def run_model_gen(cases, d):
    f = os.path.join(d, 'gen_cases.txt')
    with open(f, 'w') as fh:
        for c in cases:
            dv = c['derives'] if re.match(r'^[A-Za-z0-9_,:\-]+$', c['derives']) else '#' + c['derives'].encode().hex()
            fh.write('G %s %s 400\n%s\n' % (c['id'], dv, gast.sx_grammar(c['rules'])))
    p = subprocess.run([PEGVERIF, 'gen', f], stdout=subprocess.PIPE, stderr=subprocess.PIPE, text=True, timeout=1800)
    if p.returncode != 0:
        raise RuntimeError('model gen driver failed: ' + p.stderr[-1000:])
    res = {}
    for line in p.stdout.splitlines():
        q = line.split('\t')
        if q[1] == 'DECL':
            res[q[0]]['decls'].append(q[2])
        else:
            res[q[0]] = dict(cls=q[1], errs=q[2] if len(q) > 2 else '', decls=[])
    return res


def run_impl_gen(items, d, timeout=None):
    """items: (id, text, derives). Returns {id: (class, detail)}; survives aborts (stack overflow) by restarting."""
    res = {}
    remaining = list(items)
    rounds = 0
    if timeout is None:
        # the generator answers small grammars in milliseconds: 60 s + 50 ms per text tells a hang from a slow machine
        # (a hang costs the budget once per hanging text)
        timeout = 60 + 0.05 * len(items)
    while remaining and rounds < 40:
        rounds += 1
        lst = os.path.join(d, 'implgen.txt')
        with open(lst, 'w') as f:
            for cid, text, derives in remaining:
                p = os.path.join(d, cid + '.ebnf')
                with open(p, 'w') as g:
                    g.write(text)
                f.write('%s\t%s\t%s\t-\t%s\n' % (cid, p, os.path.join(d, cid + '.rs'), derives))
        try:
            p = subprocess.run([PVGEN, 'gen', lst], stdout=subprocess.PIPE, stderr=subprocess.DEVNULL, text=True, timeout=timeout)
            out, rc = p.stdout, p.returncode
        except subprocess.TimeoutExpired as e:
            out = e.stdout.decode() if isinstance(e.stdout, bytes) else (e.stdout or '')
            rc = 'timeout'
        done = 0
        for line in out.splitlines():
            q = line.split('\t')
            if len(q) >= 2:
                res[q[0]] = (q[1], '\t'.join(q[2:]))
                done += 1
        if done >= len(remaining):
            break
        res[remaining[done][0]] = ('ABORT' if rc != 'timeout' else 'TIMEOUT', 'rc=%s' % rc)
        remaining = remaining[done + 1:]
    return res


def run(pid, seed, tier, suite=None):
    t0 = time.time()
    ok, err, dt = build_harness()
    if not ok:
        raise RuntimeError('harness build failed:\n' + err[-3000:])
    cases = gen_cases(seed, tier)
    d = tempfile.mkdtemp(prefix='pvgend-')
    try:
        model = run_model_gen(cases, d)
        impl = run_impl_gen([(c['id'], gast.pp_grammar(c['rules']), c['derives']) for c in cases], d)
        res = dict(evaluations=0, nontrivial=set(), samples=[], strict=[], prop=[], distribution=collections.Counter())
        for c in cases:
            m = model.get(c['id'])
            i = impl.get(c['id'], ('MISSING', ''))
            res['evaluations'] += 1
            res['distribution'][c['label'].split(' (')[0] + ' -> ' + i[0]] += 1
            text = gast.pp_grammar(c['rules'])
            rp = dict(kind='gen', case=c['id'], label=c['label'], grammar=text, sexp=gast.sx_grammar(c['rules']), derives=c['derives'],
                      impl=list(i), model=m, what='')
            icls = {'OK': 'ACCEPT', 'GEN_ERR': 'REJECT', 'PARSE_ERR': 'PARSE_ERR'}.get(i[0], i[0])
            if pid == 'C15':
                res['nontrivial'].add((c['label'], i[0]))
                if i[0] in ('PANIC', 'ABORT', 'TIMEOUT', 'MISSING'):
                    rp['what'] = 'the grammar compiler did not answer with code or an error: %s %s' % (i[0], i[1][:200])
                    res['prop'].append(rp)
                elif c['expect'] == 'reject' and i[0] == 'OK':
                    rp['what'] = 'grammar violating a documented restriction (%s) was accepted' % c['label']
                    res['prop'].append(rp)
                elif c['expect'] == 'accept' and i[0] != 'OK':
                    rp['what'] = 'valid grammar rejected: %s %s' % (i[0], i[1][:200])
                    res['prop'].append(rp)
                if m is None or m['cls'] != icls:
                    rp2 = dict(rp)
                    rp2['what'] = 'generator outcome class: model %s vs implementation %s' % (m['cls'] if m else None, icls)
                    res['strict'].append(rp2)
            if pid in ('C03', 'C16') and i[0] == 'OK' and m is not None and m['cls'] == 'ACCEPT':
                code = open(os.path.join(d, c['id'] + '.rs')).read()
                decls = extract_decls(code)
                res['nontrivial'].add((c['id'], len(decls)))
                if pid == 'C03':
                    if 'unsafe' in re.findall(r'[A-Za-z_]+', code):
                        rp['what'] = 'generated code contains `unsafe`'
                        res['prop'].append(rp)
                    if decls != m['decls']:
                        rp['what'] = 'declared public types differ from the documented field/arity mapping'
                        rp['impl_decls'] = decls
                        rp['model_decls'] = m['decls']
                        res['prop'].append(rp)
                        res['strict'].append(dict(rp))
                    for dd in decls:
                        kind = 'struct' if 'pubstruct' in dd else 'enum' if 'pubenum' in dd else 'alias'
                        res['distribution']['decl:' + kind + (':Option' if 'Option<' in dd else '') + (':Vec' if 'Vec<' in dd else '') + (':Box' if 'Box<' in dd else '')] += 1
            if len(res['samples']) < 3 and res['evaluations'] % 41 == 1:
                res['samples'].append(dict(label=c['label'], grammar=text, derives=c['derives'], implementation=i[0], model=(m or {}).get('cls')))
        if pid == 'C15':
            # raw text stream: totality only
            texts = text_mutants(seed, tier, cases)
            impl_t = run_impl_gen([('t%d' % k, t, '-') for k, t in enumerate(texts)], d)
            for k, t in enumerate(texts):
                i = impl_t.get('t%d' % k, ('MISSING', ''))
                res['evaluations'] += 1
                res['distribution']['text mutant -> ' + i[0]] += 1
                res['nontrivial'].add(('text', i[0], i[1].split('\t')[0][:12]))
                if i[0] in ('PANIC', 'ABORT', 'TIMEOUT', 'MISSING'):
                    res['prop'].append(dict(kind='gentext', grammar=t, impl=list(i), what='the grammar compiler did not answer with code or an error on a text: %s %s' % (i[0], i[1][:200])))
            # known finding K2: unbounded nesting depth overflows the recursive-descent front end (replayed deterministically)
            deep = 'A = ' + '(' * 1000 + "'x'" + ')' * 1000 + ';'
            ik = run_impl_gen([('k2', deep, '-')], d)
            i = ik.get('k2', ('MISSING', ''))
            res['evaluations'] += 1
            res['distribution']['nesting depth 1000 -> ' + i[0]] += 1
            if i[0] in ('PANIC', 'ABORT', 'TIMEOUT', 'MISSING'):
                res['prop'].append(dict(kind='gentext', label='deep-nesting-1000', grammar="A = " + "(" * 1000 + "'x'" + ")" * 1000 + ";", impl=list(i),
                                        what='stack overflow of the front end on 1000 nested parentheses: %s' % i[0]))
        res['engine'] = 'gendiff'
        res['wall_s'] = time.time() - t0
        return res
    finally:
        shutil.rmtree(d, ignore_errors=True)
