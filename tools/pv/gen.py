"""Random generators for grammars (by family) and inputs.  Every choice comes from one
random.Random(seed) so a case replays exactly."""
import random
from . import gast

KEYWORD_NAMES = ['loop', 'mod', 'use', 'async', 'try', 'box', 'yield', 'struct', 'impl', 'while']
FIELD_NAMES = ['a', 'b', 'c', 'x', 'y', 'type', 'fn', 'match', 'ref', 'mut', 'val', 'left', 'right']
RULE_NAMES = ['Alpha', 'Beta', 'Gamma', 'Delta', 'Eps', 'Zeta', 'Eta', 'Theta', 'Iota', 'Kappa', 'Lam', 'Mu',
              'Expr', 'Term', 'Item', 'Node', 'Tok', 'Atom', 'r0', 'r1'] + KEYWORD_NAMES
ASCII_LIT = list('abcxyzABZ019+-*/(),;:=<>_.')
MULTI = ['é', 'ß', 'Ω', '€', '中', '😀', ' ', ' ']
WS_CHARS = [' ', '\t', '\n', '\x0c', '\r']
NEAR_WS = ['\x0b', ' ', ' ']


def C(ch):
    return ('c', ch)


def lit(s, ins=False):
    return ('lit', ins, [C(c) for c in s])


def seq(*ps):
    return ('seq', list(ps))


def choice(*ss):
    return ('choice', [s if s[0] == 'seq' else seq(s) for s in ss])


class Gen:
    def __init__(self, rng, family='mix', opts=None):
        self.r = rng
        self.family = family
        self.opts = opts or {}
        self.rules = []          # finished rules, in grammar order (built back to front)
        self.info = {}           # name -> dict(kind, nullable, skip, fields, position)
        self.uctx = bool(self.opts.get('uctx'))
        self.hooks_mod = 'hooksc' if self.uctx else 'hooks'
        self.multibyte = self.opts.get('multibyte', self.r.random() < 0.35)
        self.allow_memo = self.opts.get('memo', True)
        self.global_skip = True

    # ------------------------------------------------------------- helpers
    def alphabet(self):
        return ASCII_LIT + (MULTI if self.multibyte else [])

    def rand_lit_text(self):
        r = self.r
        n = r.choice([1, 1, 1, 2, 2, 3])
        return ''.join(r.choice(self.alphabet()) for _ in range(n))

    def rand_item(self, ch):
        """a string item for ch, sometimes as an escape"""
        r = self.r
        if ch == '\\':
            return ('s', 'b')
        if ch == "'":
            return ('s', 'q')
        if ch == '"':
            return ('s', 'd')
        if ch == '\n' and r.random() < 0.8:
            return ('s', 'n')
        if ch == '\t' and r.random() < 0.8:
            return ('s', 't')
        if ch == '\r':
            return ('s', 'r')
        p = r.random()
        if p < 0.8:
            return C(ch)
        cp = ord(ch)
        forms = ['brace']
        if cp <= 0xFF:
            forms.append('x')
        if cp <= 0xFFFF:
            forms.append('u4')
        forms.append('U8')
        f = r.choice(forms)
        if f == 'x':
            h = '%02x' % cp
            if r.random() < 0.5:
                h = h.upper()
            return ('x', h[0], h[1])
        if f == 'u4':
            return ('u', list('%04x' % cp), 'u4')
        if f == 'U8':
            return ('u', list('%06x' % cp), 'U8')
        h = '%x' % cp
        pad = r.randint(0, 6 - len(h))
        return ('u', list('0' * pad + h), 'brace')

    def mk_lit(self, s, ins=False):
        return ('lit', ins, [self.rand_item(c) for c in s])

    def terminal(self):
        """a non-nullable terminal expression"""
        r = self.r
        p = r.random()
        if p < 0.55:
            return self.mk_lit(self.rand_lit_text())
        if p < 0.70:
            s = ''.join(r.choice('abcxyzABCXYZ019+') for _ in range(r.choice([1, 1, 2, 3])))
            return self.mk_lit(s, ins=True)
        if p < 0.92:
            return self.rand_range()
        return ('field', None, False, 'char')

    def rand_range(self):
        r = self.r
        if self.multibyte and r.random() < 0.4:
            lo, hi = r.choice([('à', 'ÿ'), ('a', 'é'), ('Α', 'Ω'), ('€', '€'), ('一', '中'), ('😀', '😏'), ('z', '中')])
        else:
            lo, hi = r.choice([('a', 'z'), ('a', 'c'), ('A', 'Z'), ('0', '9'), ('x', 'x'), ('a', 'f'), ('+', '/'), ('0', 'z')])
        return ('range', self.rand_item(lo), self.rand_item(hi))

    def nullable(self, e):
        k = e[0]
        if k == 'lit':
            return len(e[2]) == 0
        if k == 'range':
            return False
        if k in ('opt', 'star', 'neg', 'pos', 'eoi'):
            return True
        if k in ('plus', 'group'):
            return self.nullable(e[1])
        if k == 'seq':
            return all(self.nullable(p) for p in e[1])
        if k == 'choice':
            return any(self.nullable(s) for s in e[1])
        if k == 'incl':
            return self.info[e[1]]['nullable']
        if k == 'field':
            if e[3] == 'char':
                return False
            return self.info[e[3]]['nullable']
        raise ValueError(e)

    def non_nullable_body(self, body):
        """closure bodies must consume: prepend a terminal when the body could match empty"""
        if self.nullable(body):
            t = self.terminal()
            return ('choice', [('seq', [t] + s[1]) for s in body[1]])
        return body

    # ------------------------------------------------------------- expressions
    def expr_choice(self, depth, ctx):
        r = self.r
        n = 1 if r.random() < 0.55 else r.choice([2, 2, 3])
        return ('choice', [self.expr_seq(depth, ctx) for _ in range(n)])

    def expr_seq(self, depth, ctx):
        r = self.r
        n = r.choice([0, 1, 1, 2, 2, 2, 3, 3, 4]) if depth > 0 else r.choice([1, 1, 2])
        if ctx.get('first_seq_nonempty') and n == 0:
            n = 1
        return ('seq', [self.expr_delim(depth, ctx) for _ in range(n)])

    def pick_ref(self, ctx, kinds=None):
        cands = [n for n in ctx['refs'] if kinds is None or self.info[n]['kind'] in kinds]
        return self.r.choice(cands) if cands else None

    def expr_delim(self, depth, ctx):
        r = self.r
        p = r.random()
        if depth <= 0 or p < 0.30:
            return self.leaf(ctx)
        if p < 0.42:
            return ('group', self.expr_choice(depth - 1, ctx))
        if p < 0.58:
            return ('opt', self.expr_choice(depth - 1, ctx))
        if p < 0.76:
            body = self.non_nullable_body(self.expr_choice(depth - 1, dict(ctx, first_seq_nonempty=True)))
            return (r.choice(['star', 'star', 'plus']), body)
        if p < 0.86:
            inner = self.expr_delim(depth - 1, dict(ctx, nofields=True))
            return (r.choice(['neg', 'pos']), inner)
        return self.leaf(ctx)

    def leaf(self, ctx):
        r = self.r
        p = r.random()
        refs = ctx['refs']
        if refs and p < 0.45:
            typ = r.choice(refs)
            if ctx.get('nofields') or ctx.get('unnamed_only') or r.random() < 0.2:
                return ('field', None, False, typ)
            if ctx.get('override'):
                return ('field', '@', r.random() < 0.2, typ)
            name = r.choice(ctx['fieldnames'])
            if self.info[typ]['kind'] == 'char' and name in ctx.get('multi_names', ()):
                name = name + 'c'
            return ('field', name, r.random() < 0.2, typ)
        if p < 0.50 and not ctx.get('nofields') and not ctx.get('override') and not ctx.get('unnamed_only'):
            inc = [n for n in refs if self.info[n]['kind'] in ('struct', 'unit') and n != 'Whitespace']
            if inc:
                return ('incl', r.choice(inc))
        if p < 0.53:
            return ('eoi',)
        if p < 0.56:
            return self.mk_lit('')
        return self.terminal()

    # ------------------------------------------------------------- rules
    def fresh_name(self):
        while True:
            n = self.r.choice(RULE_NAMES) if self.r.random() < 0.7 else 'R%d' % self.r.randint(0, 99)
            if n not in self.info and n not in ('Whitespace', 'char'):
                return n

    def flags(self, kind, first=False):
        r = self.r
        ds = []
        if r.random() < 0.25:
            ds.append('no_skip_ws')
        if kind in ('struct', 'unit', 'ovr_enum') and (first or r.random() < 0.2):
            ds.append('export')
        if kind in ('struct', 'unit', 'string') and r.random() < 0.3:
            ds.append('position')
        if self.allow_memo and r.random() < 0.25:
            ds.append('memoize')
        if self.opts.get('checks') and r.random() < 0.35:
            ds.append(('check', [self.hooks_mod, r.choice(['chk_hash2', 'chk_hash3', 'chk_true', 'chk_budget' if self.uctx else 'chk_hash3'])]))
            while r.random() < 0.35:      # several @check directives on one rule: all are called, in order, until one fails
                ds.append(('check', [self.hooks_mod, r.choice(['chk_hash2', 'chk_hash3', 'chk_true'])]))
        r.shuffle(ds)
        return ds

    def add_rule(self, rule, kind, nullable, position=False):
        self.rules.insert(0, rule)
        skip = rule['kind'] == 'rule' and 'no_skip_ws' not in rule.get('dirs', [])
        self.info[rule['name']] = dict(kind=kind, nullable=nullable, skip=skip, position=position)

    def make_leaf_rule(self, name=None):
        r = self.r
        name = name or self.fresh_name()
        p = r.random()
        exts = self.opts.get('externs')
        if exts and p < 0.35:
            fn = r.choice(['ext_ident', 'ext_ident', 'ext_two', 'ext_num', 'ext_probe', 'ext_fail'] + (['ext_budget'] if self.uctx else []))
            ret = [self.hooks_mod, 'Num'] if fn == 'ext_num' else None
            self.add_rule(dict(kind='extern', fn=[self.hooks_mod, fn], ret=ret, name=name), 'extern', fn == 'ext_probe')
            return name
        if p < 0.55:
            # @string rule
            if r.random() < 0.2:
                # the fields of a @string rule are discarded, but they are legal (and may have several types: fix F9)
                body = self.fix_char_enum(self.expr_choice(2, dict(refs=self.ref_pool(('char', 'string', 'unit')), fieldnames=r.sample(FIELD_NAMES, 2))))
            else:
                body = self.expr_choice(2, dict(refs=self.ref_pool(('char', 'string', 'unit')), nofields=True, fieldnames=[]))
            if self.nullable(body) and r.random() < 0.8:
                body = self.non_nullable_body(body)
            ds = ['string'] + [d for d in self.flags('string') if d != 'export']
            r.shuffle(ds)
            self.add_rule(dict(kind='rule', dirs=ds, name=name, body=body), 'string', self.nullable(body), 'position' in ds)
            return name
        if p < 0.75:
            parts = []
            for _ in range(r.choice([1, 2, 2, 3])):
                q = r.random()
                if q < 0.5:
                    rg = self.rand_range()
                    parts.append(('range', rg[1], rg[2]))
                elif q < 0.85:
                    parts.append(('chr', self.rand_item(r.choice(self.alphabet()))))
                else:
                    cr = [n for n in self.info if self.info[n]['kind'] == 'char']
                    parts.append(('id', r.choice(cr) if cr and r.random() < 0.7 else 'char'))
            checks = []
            if self.opts.get('checks') and r.random() < 0.4:
                checks = [[self.hooks_mod, r.choice(['cc_vowel', 'cc_not_x', 'cc_ascii'])] for _ in range(r.choice([1, 1, 2]))]
            self.add_rule(dict(kind='char', checks=checks, name=name, parts=parts), 'char', False)
            return name
        # unit rule
        body = self.expr_choice(1, dict(refs=self.ref_pool(('char', 'string', 'unit')), nofields=True, fieldnames=[]))
        ds = self.flags('unit')
        self.add_rule(dict(kind='rule', dirs=ds, name=name, body=body), 'unit', self.nullable(body), 'position' in ds)
        return name

    def ref_pool(self, kinds=None):
        return [n for n in self.info if n != 'Whitespace' and (kinds is None or self.info[n]['kind'] in kinds)]

    def make_struct_rule(self, name=None, first=False):
        r = self.r
        name = name or self.fresh_name()
        fns = r.sample([f for f in FIELD_NAMES], r.choice([1, 2, 2, 3]))
        ctx = dict(refs=self.ref_pool(), fieldnames=fns)
        body = self.expr_choice(r.choice([1, 2, 2, 3]), ctx)
        ds = self.flags('struct', first)
        has_fields = self.has_named_fields(body)
        kind = 'struct' if has_fields else 'unit'
        body = self.fix_char_enum(body)
        self.add_rule(dict(kind='rule', dirs=ds, name=name, body=body), kind, self.nullable(body), 'position' in ds)
        return name

    def has_named_fields(self, e):
        k = e[0]
        if k == 'field':
            return e[1] is not None
        if k == 'incl':
            return self.info[e[1]]['kind'] == 'struct'
        if k in ('choice', 'seq'):
            return any(self.has_named_fields(x) for x in e[1])
        if k in ('group', 'opt', 'star', 'plus'):
            return self.has_named_fields(e[1])
        return False

    def field_types(self, e, acc):
        k = e[0]
        if k == 'field' and e[1] is not None:
            acc.setdefault(e[1], set()).add(e[3])
        elif k == 'incl':
            rule = next(x for x in self.rules if x['name'] == e[1])
            self.field_types(rule['body'], acc)
        elif k in ('choice', 'seq'):
            for x in e[1]:
                self.field_types(x, acc)
        elif k in ('group', 'opt', 'star', 'plus'):
            self.field_types(e[1], acc)
        return acc

    def fix_char_enum(self, body):
        """a multi-type field must not have a `char`-typed (or @char rule) member next to others: rename"""
        ft = self.field_types(body, {})
        bad = {n for n, ts in ft.items() if len(ts) > 1 and any(t == 'char' for t in ts)}
        if not bad:
            return body

        def rn(e):
            k = e[0]
            if k == 'field' and e[1] in bad and e[3] == 'char':
                return ('field', e[1] + '_c', e[2], e[3])
            if k in ('choice', 'seq'):
                return (k, [rn(x) for x in e[1]])
            if k in ('group', 'opt', 'star', 'plus', 'neg', 'pos'):
                return (k, rn(e[1]))
            return e
        return rn(body)

    def make_override_rule(self, name=None, first=False):
        r = self.r
        name = name or self.fresh_name()
        pool = self.ref_pool()
        if not pool:
            return self.make_leaf_rule(name)
        if r.random() < 0.5:
            # simple override: one type, any arity
            typ = r.choice(pool)
            f = ('field', '@', r.random() < 0.15, typ)
            shape = r.random()
            pre = [self.terminal()] if r.random() < 0.5 else []
            post = [self.terminal()] if r.random() < 0.3 else []
            if shape < 0.5:
                body = ('choice', [('seq', pre + [f] + post)])
            elif shape < 0.7:
                body = ('choice', [('seq', pre + [('opt', ('choice', [('seq', [f])]))] + post)])
            elif shape < 0.85:
                inner = self.non_nullable_body(('choice', [('seq', [f] + post)]))
                body = ('choice', [('seq', pre + [(r.choice(['star', 'plus']), inner)])])
            else:
                body = ('choice', [('seq', pre + [f] + post), ('seq', [self.terminal(), f])])
            ds = [d for d in self.flags('ovr_simple') if d not in ('export', 'position')]
            self.add_rule(dict(kind='rule', dirs=ds, name=name, body=body), 'ovr_simple', self.nullable(body))
        else:
            cands = [n for n in pool if self.info[n]['kind'] != 'char']
            if len(cands) < 2:
                return self.make_struct_rule(name, first)
            k = min(len(cands), r.choice([2, 2, 3]))
            typs = r.sample(cands, k)
            arms = []
            for t in typs:
                pre = [self.terminal()] if r.random() < 0.3 else []
                post = [self.terminal()] if r.random() < 0.2 else []
                arms.append(('seq', pre + [('field', '@', r.random() < 0.15, t)] + post))
            if r.random() < 0.3:
                arms.append(('seq', [self.terminal(), ('field', '@', False, r.choice(typs))]))
            body = ('choice', arms)
            ds = self.flags('ovr_enum', first)
            if 'position' in ds or r.random() < 0.3:
                if all(self.info[t]['position'] and self.info[t]['kind'] in ('struct', 'unit', 'string', 'ovr_enum') for t in typs):
                    if 'position' not in ds:
                        ds.append('position')
                else:
                    ds = [d for d in ds if d != 'position']
            self.add_rule(dict(kind='rule', dirs=ds, name=name, body=body), 'ovr_enum', self.nullable(body), 'position' in ds)
        return name

    def add_custom_whitespace(self):
        r = self.r
        cm = ('seq', [lit('#'), ('star', choice(seq(('neg', lit('\n')), ('field', None, False, 'char')))), lit('\n')])
        self.add_rule(dict(kind='rule', dirs=['no_skip_ws'], name='Comment', body=('choice', [cm])), 'unit', False)
        alts = [seq(('field', None, False, 'Comment'))] + [seq(lit(c)) for c in r.sample([' ', '\t', '\n', '_'], r.choice([1, 2, 3]))]
        r.shuffle(alts)
        body = ('choice', [('seq', [('star', ('choice', alts))])])
        self.add_rule(dict(kind='rule', dirs=['no_skip_ws'], name='Whitespace', body=body), 'unit', True)

    # ------------------------------------------------------------- families
    def build(self):
        r = self.r
        fam = self.family
        if fam == 'ws' and r.random() < 0.5 or (fam == 'mix' and r.random() < 0.1):
            self.add_custom_whitespace()
        nleaf = r.choice([1, 2, 2, 3])
        for _ in range(nleaf):
            self.make_leaf_rule()
        ncomp = r.choice([1, 2, 2, 3, 4])
        for i in range(ncomp):
            last = i == ncomp - 1
            if not last and r.random() < 0.35:
                self.make_override_rule()
            elif not last and r.random() < 0.2:
                self.make_leaf_rule()
            else:
                self.make_struct_rule(first=last)
        # the Whitespace rule (when present) is moved to a random place; order does not matter for calls
        return self.rules


def exported_rules(rules):
    return [x['name'] for x in rules if x['kind'] == 'rule' and 'export' in x['dirs']]


# ===================================================================== inputs
class Sampler:
    """derivation-guided sentences: mostly accepted inputs"""

    def __init__(self, rng, rules, multibyte=False):
        self.r = rng
        self.rules = {x['name']: x for x in rules}
        self.multibyte = multibyte
        self.custom_ws = 'Whitespace' in self.rules
        self.depth = 0

    def ws(self):
        r = self.r
        p = r.random()
        if p < 0.55:
            return ''
        if self.custom_ws:
            wsr = self.rules['Whitespace']
            return self.rule('Whitespace') if r.random() < 0.7 else ' '
        if p < 0.97:
            return ''.join(r.choice(WS_CHARS) for _ in range(r.choice([1, 1, 2])))
        return r.choice(NEAR_WS)

    def any_char(self):
        pool = ASCII_LIT + ['a', 'b', 'e', 'i', 'x', ' ', '\n'] + (MULTI if self.multibyte else ['é'])
        return self.r.choice(pool)

    def rule(self, name):
        if name == 'char':
            return self.any_char()
        x = self.rules.get(name)
        if x is None:
            return ''
        self.depth += 1
        try:
            if self.depth > 12:
                return ''
            if x['kind'] == 'extern':
                fn = x['fn'][-1]
                r = self.r
                if fn == 'ext_ident':
                    return ''.join(r.choice('abcxyz') for _ in range(r.choice([1, 2, 3])))
                if fn == 'ext_num':
                    return ''.join(r.choice('0123456789') for _ in range(r.choice([1, 2, 3])))
                if fn == 'ext_two':
                    return self.any_char() + self.any_char()
                if fn == 'ext_budget':
                    return r.choice('abc')
                return ''
            if x['kind'] == 'char':
                p = self.r.choice(x['parts'])
                if p[0] == 'range':
                    return self.in_range(p[1], p[2])
                if p[0] == 'chr':
                    return gast.item_char(p[1]) or ''
                return self.rule(p[1])
            skip = 'no_skip_ws' not in x['dirs']
            return self.expr(x['body'], skip)
        finally:
            self.depth -= 1

    def in_range(self, a, b):
        lo, hi = ord(gast.item_char(a)), ord(gast.item_char(b))
        if lo > hi:
            return chr(lo)
        r = self.r
        c = r.choice([lo, hi, r.randint(lo, hi), r.randint(lo, hi)])
        if 0xD800 <= c <= 0xDFFF:
            c = lo
        return chr(c)

    def expr(self, e, skip):
        r = self.r
        k = e[0]
        pre = self.ws() if skip else ''
        if k == 'choice':
            return self.expr(r.choice(e[1]), skip)
        if k == 'seq':
            return ''.join(self.expr(p, skip) for p in e[1])
        if k == 'group':
            return self.expr(e[1], skip)
        if k == 'opt':
            return self.expr(e[1], skip) if r.random() < 0.6 else ''
        if k in ('star', 'plus'):
            n = r.choice([0, 1, 1, 2, 3]) if k == 'star' else r.choice([1, 1, 2, 3])
            return ''.join(self.expr(e[1], skip) for _ in range(n))
        if k in ('neg', 'pos'):
            return ''
        if k == 'range':
            return pre + self.in_range(e[1], e[2])
        if k == 'lit':
            s = ''.join((gast.item_char(i) or '') for i in e[2])
            if e[1]:
                s = ''.join(c.upper() if r.random() < 0.5 else c.lower() for c in s)
            return pre + s
        if k == 'eoi':
            return pre
        if k == 'incl':
            return self.expr(self.rules[e[1]]['body'], skip)
        if k == 'field':
            return pre + self.rule(e[3])
        raise ValueError(e)


def mutate(rng, s, alphabet):
    r = rng
    if not s:
        return r.choice(alphabet)
    cs = list(s)
    op = r.random()
    i = r.randrange(len(cs))
    if op < 0.25:
        del cs[i]
    elif op < 0.5:
        cs.insert(i, r.choice(alphabet))
    elif op < 0.65:
        cs[i] = r.choice(alphabet)
    elif op < 0.75:
        cs.insert(i, cs[i])
    elif op < 0.85:
        cs = cs[:i]
    elif op < 0.93 and len(cs) > 1:
        j = r.randrange(len(cs))
        cs[i], cs[j] = cs[j], cs[i]
    else:
        cs.insert(i, r.choice(WS_CHARS + NEAR_WS))
    return ''.join(cs)


def literal_chars(rules):
    out = set()

    def walk(e):
        k = e[0]
        if k == 'lit':
            for i in e[2]:
                c = gast.item_char(i)
                if c:
                    out.add(c)
        elif k == 'range':
            for i in (e[1], e[2]):
                c = gast.item_char(i)
                if c:
                    out.add(c)
        elif k in ('choice', 'seq'):
            for x in e[1]:
                walk(x)
        elif k in ('group', 'opt', 'star', 'plus', 'neg', 'pos'):
            walk(e[1])
    for x in rules:
        if x['kind'] == 'rule':
            walk(x['body'])
        elif x['kind'] == 'char':
            for p in x['parts']:
                if p[0] == 'range':
                    walk(('range', p[1], p[2]))
                elif p[0] == 'chr':
                    c = gast.item_char(p[1])
                    if c:
                        out.add(c)
    return sorted(out)


def gen_inputs(rng, rules, rule, n, multibyte=False, maxlen=40):
    sm = Sampler(rng, rules, multibyte)
    alpha = literal_chars(rules) + [' ', 'a', '1', '\n'] + (MULTI[:4] if multibyte else ['é'])
    alpha += [c.upper() for c in alpha if c.isalpha()]
    outs = ['']
    seen = {''}
    tries = 0
    while len(outs) < n and tries < n * 6:
        tries += 1
        s = sm.rule(rule)
        p = rng.random()
        if p < 0.45:
            pass
        elif p < 0.8:
            s = mutate(rng, s, alpha)
        elif p < 0.9:
            s = mutate(rng, mutate(rng, s, alpha), alpha)
        elif p < 0.95:
            s = s + rng.choice(alpha)
        else:
            s = ''.join(rng.choice(alpha) for _ in range(rng.randint(1, 6)))
        if multibyte and rng.random() < 0.06:
            s = '\ufeff' + s          # a byte order mark is an ordinary character of the input (offsets count its 3 bytes)
        if len(s.encode()) > maxlen or s in seen:
            continue
        try:
            s.encode('utf-8')
        except UnicodeEncodeError:
            continue
        seen.add(s)
        outs.append(s)
    return outs
