fn main() {
    let out_dir = std::env::var("OUT_DIR").unwrap();
    for g in ["strict", "control"] {
        peginator_codegen::Compile::file(format!("{g}.ebnf"))
            .destination(format!("{out_dir}/{g}.rs"))
            .run_exit_on_error();
        println!("cargo:rerun-if-changed={g}.ebnf");
    }
}
