#[allow(dead_code)]
mod strict { include!(concat!(env!("OUT_DIR"), "/strict.rs")); }
#[allow(dead_code)]
mod control { include!(concat!(env!("OUT_DIR"), "/control.rs")); }
use peginator::PegParser;

fn main() {
    // Inputs that differ only in where blanks are placed. By the property, blanks (what the
    // grammar's Whitespace rule matches) are skipped before 'a', before 'b' and before $;
    // where there is no blank there is nothing to skip and the token is matched in place.
    // So every one of these must be accepted by `Pair = 'a' 'b' $;`.
    let inputs = ["ab", "a b", " ab", "ab ", " a b", "a b ", " a\tb ", "  a \t b\t "];
    let mut violations = 0;
    println!("{:<14} {:<28} {}", "input", "Whitespace = {' '|'\\t'}+", "Whitespace = {' '|'\\t'} (control)");
    for s in inputs {
        let strict = strict::Pair::parse(s);
        let control = control::Pair::parse(s);
        println!(
            "{:<14} {:<28} {}",
            format!("{s:?}"),
            match &strict { Ok(_) => "Ok".to_string(), Err(e) => format!("Err at byte {}", e.position) },
            match &control { Ok(_) => "Ok".to_string(), Err(e) => format!("Err at byte {}", e.position) },
        );
        if control.is_err() {
            println!("  unexpected: control grammar rejected {s:?}");
            violations += 1;
        }
        if strict.is_err() {
            violations += 1;
        }
    }
    // The strict Whitespace rule itself is fine as a rule: used explicitly it is a mandatory separator.
    assert!(strict::Sep::parse("a b").is_ok());
    assert!(strict::Sep::parse("ab").is_err());
    assert!(control::Sep::parse("ab").is_ok());
    if violations > 0 {
        println!("VIOLATION: {violations} input(s) of Pair = 'a' 'b' $ rejected although they differ from an accepted input only in blanks at token gaps");
        std::process::exit(1);
    }
    println!("no violation: every token is matched with optional whitespace in front of it");
}
