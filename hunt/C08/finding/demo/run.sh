#!/bin/sh
# usage: run.sh <path of a peginator checkout>
set -u
if [ $# -ne 1 ]; then echo "usage: $0 <peginator checkout>" >&2; exit 2; fi
CHECKOUT=$(cd "$1" && pwd) || exit 2
HERE=$(cd "$(dirname "$0")" && pwd)
cd "$HERE/proj" || exit 2
sed "s|@CHECKOUT@|$CHECKOUT|g" Cargo.toml.in > Cargo.toml
cp Cargo.lock.in Cargo.lock
export CARGO_NET_OFFLINE=true
export CARGO_TARGET_DIR="$HERE/target"
cargo build --offline --quiet 2>"$HERE/build.log"
if [ $? -ne 0 ]; then
    echo "build failed, see $HERE/build.log" >&2
    tail -30 "$HERE/build.log" >&2
    exit 2
fi
"$CARGO_TARGET_DIR/debug/c08_demo"
