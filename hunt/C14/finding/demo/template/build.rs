// The only difference between the two phases of the demonstration is the environment variable
// C14_WITH_CTX: when it is set, the build script configures a user context type.
use std::io::Write;

fn main() {
    println!("cargo:rerun-if-changed=src/g.ebnf");
    println!("cargo:rerun-if-changed=src/g.rs");
    println!("cargo:rerun-if-changed=build.rs");
    println!("cargo:rerun-if-env-changed=C14_WITH_CTX");
    println!("cargo:rustc-check-cfg=cfg(with_ctx)");
    let with_ctx = std::env::var_os("C14_WITH_CTX").is_some();
    let mut compile = peginator_codegen::Compile::file("src/g.ebnf").destination("src/g.rs");
    if with_ctx {
        compile = compile.user_context_type("crate::Ctx");
        println!("cargo:rustc-cfg=with_ctx");
    }
    let result = compile.run();
    // leave a trace of every run of the build script for run.sh to show
    let mut log = std::fs::OpenOptions::new()
        .create(true)
        .append(true)
        .open("build-script-runs.log")
        .unwrap();
    writeln!(
        log,
        "build script ran; user_context_type configured: {with_ctx}; Compile::run() returned {result:?}"
    )
    .unwrap();
    result.unwrap();
}
