#![allow(dead_code)]
mod g;

#[derive(Debug, Default)]
pub struct Ctx {
    pub seen: Vec<String>,
}

// ---------- phase 1: no user context type configured ----------
#[cfg(not(with_ctx))]
pub fn check_word(w: &str) -> bool {
    w != "bad"
}
#[cfg(not(with_ctx))]
pub fn tail(s: &str) -> Result<(u32, usize), &'static str> {
    Ok((s.len() as u32, s.len()))
}
#[cfg(not(with_ctx))]
fn main() {
    use peginator::PegParser;
    let r = g::Test::parse("abc 123").unwrap();
    println!("phase 1 (no user context): {r:?}");
    assert_eq!(r.a, "abc");
    assert_eq!(r.b, 3);
}

// ---------- phase 2: Compile::user_context_type("crate::Ctx") configured ----------
#[cfg(with_ctx)]
pub fn check_word(w: &str, ctx: &mut Ctx) -> bool {
    ctx.seen.push(format!("check_word({w:?})"));
    w != "bad"
}
#[cfg(with_ctx)]
pub fn tail(s: &str, ctx: &mut Ctx) -> Result<(u32, usize), &'static str> {
    ctx.seen.push(format!("tail({s:?})"));
    Ok((s.len() as u32, s.len()))
}
#[cfg(with_ctx)]
fn main() {
    use peginator::{NoopTracer, ParseSettings, PegParserAdvanced};
    let mut ctx = Ctx::default();
    let r = g::Test::parse_advanced::<NoopTracer>("abc 123", &ParseSettings::default(), &mut ctx)
        .unwrap();
    println!("phase 2 (user context configured): {r:?}; functions recorded in the context: {:?}", ctx.seen);
    assert_eq!(ctx.seen, vec!["check_word(\"abc\")".to_string(), "tail(\"123\")".to_string()]);
}
