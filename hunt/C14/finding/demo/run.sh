#!/bin/bash
# usage: run.sh <path of a peginator checkout>
# exit status: 1 = violation shown (stale parser, user context not delivered), 0 = no violation, 2 = demo could not run
set -u
[ $# -eq 1 ] || { echo "usage: $0 <peginator checkout>" >&2; exit 2; }
CHECKOUT=$(cd "$1" && pwd) || exit 2
HERE=$(cd "$(dirname "$0")" && pwd)
WORK="$HERE/work"
export CARGO_NET_OFFLINE=true
export CARGO_TARGET_DIR="$HERE/target"

rm -rf "$WORK"
mkdir -p "$WORK"
cp -r "$HERE/template/src" "$HERE/template/build.rs" "$HERE/template/Cargo.lock" "$WORK/"
sed "s|@CHECKOUT@|$CHECKOUT|g" "$HERE/template/Cargo.toml.in" > "$WORK/Cargo.toml"
cd "$WORK" || exit 2

echo "=== phase 1: build script WITHOUT user_context_type; src/g.rs does not exist yet ==="
if ! cargo run --offline --quiet 2> "$WORK/phase1.log"; then
    cat "$WORK/phase1.log"; echo "phase 1 failed: the demo itself is broken"; exit 2
fi
cp src/g.rs "$WORK/g.phase1.rs"

echo "=== phase 2: same grammar, build script now calls .user_context_type(\"crate::Ctx\") ==="
C14_WITH_CTX=1 cargo run --offline --quiet 2> "$WORK/phase2.log"
PHASE2=$?
cp src/g.rs "$WORK/g.phase2.rs"
echo "build script runs so far:"; sed 's/^/    /' build-script-runs.log
if cmp -s "$WORK/g.phase1.rs" "$WORK/g.phase2.rs"; then
    echo "src/g.rs after phase 2 is byte-identical to the one generated without a user context type"
else
    echo "src/g.rs was regenerated in phase 2"
fi
echo "extern/check calls in src/g.rs after phase 2:"
grep -o 'crate *:: *tail *([^{]*' src/g.rs | head -1
grep -o 'crate *:: *check_word *([^{]*' src/g.rs | head -1

echo "=== control: delete src/g.rs and build again with the user context type configured ==="
rm -f src/g.rs
if ! C14_WITH_CTX=1 cargo run --offline --quiet 2> "$WORK/control.log"; then
    cat "$WORK/control.log"; echo "control failed: the demo itself is broken"; exit 2
fi
echo "extern/check calls in a freshly generated src/g.rs:"
grep -o 'crate *:: *tail *([^{]*' src/g.rs | head -1
grep -o 'crate *:: *check_word *([^{]*' src/g.rs | head -1

if [ $PHASE2 -ne 0 ]; then
    echo
    echo "--- compiler errors of phase 2 (abridged) ---"
    grep -E '^error' "$WORK/phase2.log" | sort | uniq -c
    echo
    echo "VIOLATION: Compile::user_context_type(..).run() returned Ok but left the parser generated without"
    echo "a user context in place: the @extern / @check functions are still called without the context"
    echo "(and parse_advanced still takes ()), so the configured user context never reaches the functions."
    exit 1
fi
echo "no violation: configuring the user context type regenerated the parser and the functions received it"
exit 0
