// Driver for the C15 demonstration.
//   c15_driver lib <grammar>      : Grammar::from_str + CodegenGrammar::generate_code (default settings)
//   c15_driver compile <grammar>  : peginator_codegen::Compile::file(..).destination(<grammar>.out.rs).run()
// Prints one line "OK ..." / "ERR ..." and exits 0 / 1. Anything else (signal, timeout) is the
// compiler not answering.
use std::str::FromStr;

use peginator_codegen::{CodegenGrammar, CodegenSettings, Compile, Grammar};

fn main() {
    let mode = std::env::args().nth(1).expect("mode");
    let path = std::env::args().nth(2).expect("grammar file");
    let t0 = std::time::Instant::now();
    match mode.as_str() {
        "lib" => {
            let text = std::fs::read_to_string(&path).unwrap();
            let g = match Grammar::from_str(&text) {
                Ok(g) => g,
                Err(e) => {
                    println!("ERR (parse) {e}");
                    std::process::exit(1);
                }
            };
            match g.generate_code(&CodegenSettings::default()) {
                Ok(c) => println!(
                    "OK generated {} bytes of code in {:.3} s",
                    c.to_string().len(),
                    t0.elapsed().as_secs_f64()
                ),
                Err(e) => {
                    println!("ERR {e:#}");
                    std::process::exit(1);
                }
            }
        }
        "compile" => {
            match Compile::file(&path).destination(format!("{path}.out.rs")).run() {
                Ok(()) => println!("OK Compile::run in {:.3} s", t0.elapsed().as_secs_f64()),
                Err(e) => {
                    println!("ERR {e:#}");
                    std::process::exit(1);
                }
            }
        }
        _ => panic!("unknown mode"),
    }
}
