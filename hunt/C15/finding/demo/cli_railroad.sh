#!/usr/bin/env bash
# Optional side observation (not part of run.sh's verdict): `peginator-cli --railroad` panics on a grammar with an
# invalid code point instead of printing "Error: ..." (cli/src/peg_railroad.rs: String::try_from(..).unwrap()).
# Usage: cli_railroad.sh <peginator checkout>     (builds the CLI of the checkout; cargo writes the git-ignored
# Cargo.lock of the checkout's workspace if it does not exist yet)
set -u
CHECKOUT=$(cd "${1:?usage}" && pwd)
HERE=$(cd "$(dirname "$0")" && pwd)
export CARGO_NET_OFFLINE=true CARGO_TARGET_DIR="$HERE/target-cli"
cargo build --release --offline --manifest-path "$CHECKOUT/cli/Cargo.toml" >"$HERE/build-cli.log" 2>&1 || { tail "$HERE/build-cli.log"; exit 2; }
mkdir -p "$HERE/build"; printf "A = '\\\\u{110000}';\n" > "$HERE/build/badcp.ebnf"
cat "$HERE/build/badcp.ebnf"
echo "--- without --railroad:"; "$CARGO_TARGET_DIR/release/peginator-cli" "$HERE/build/badcp.ebnf"; echo "exit status $?"
echo "--- with --railroad:"; "$CARGO_TARGET_DIR/release/peginator-cli" --railroad "$HERE/build/badcp.ebnf" 2>&1 | head -4; rc=${PIPESTATUS[0]}; echo "exit status $rc"
[ "$rc" -eq 101 ] && { echo "PANIC in the command-line tool"; exit 1; }
exit 0
