#!/usr/bin/env bash
# Usage: run.sh <path of a peginator checkout>
# Exits 1 when the violation of property C15 shows (the grammar compiler does not answer), 0 when it does not.
# Exit 2: the demonstration itself could not be built.
set -u
CHECKOUT=$(cd "${1:?usage: run.sh <peginator checkout>}" && pwd)
HERE=$(cd "$(dirname "$0")" && pwd)
BUILD="$HERE/build"
TIMEOUT_HANG=${TIMEOUT_HANG:-60}     # seconds granted to a 430-byte grammar
TIMEOUT_CHAIN=${TIMEOUT_CHAIN:-120}  # seconds granted to the include chain (it crashes after ~2 s)

rm -rf "$BUILD/proj" "$BUILD/grammars"
mkdir -p "$BUILD/proj/src" "$BUILD/grammars"
sed "s|@CHECKOUT@|$CHECKOUT|" "$HERE/driver/Cargo.toml.in" > "$BUILD/proj/Cargo.toml"
cp "$HERE/driver/Cargo.lock.in" "$BUILD/proj/Cargo.lock"
cp "$HERE/driver/src/main.rs" "$BUILD/proj/src/main.rs"

export CARGO_NET_OFFLINE=true
export CARGO_TARGET_DIR="$HERE/target"
if ! (cd "$BUILD/proj" && cargo build --release --offline >"$BUILD/build.log" 2>&1); then
    echo "BUILD FAILED, see $BUILD/build.log"; tail -20 "$BUILD/build.log"; exit 2
fi
DRV="$CARGO_TARGET_DIR/release/c15_driver"

# --- grammar generators ------------------------------------------------------------------------
# nest N :  A = ((('a'|'b')|'b')|'b');     N levels of parentheses, 7 bytes per level
nest() { local n=$1 s="'a'" i; for ((i = 0; i < n; i++)); do s="($s|'b')"; done; echo "A = $s;"; }
# chain N : A0 = >A1; A1 = >A2; ... AN = 'x';   flat text, no nesting at all
chain() { local n=$1 i; for ((i = 0; i < n; i++)); do echo "A$i = >A$((i + 1));"; done; echo "A$n = 'x';"; }

violation=0
cd "$BUILD/grammars"

echo "== 1. nested choice groups: generation time doubles with every level (the output does not) =="
for n in 4 8 12 14 16 18; do
    nest $n > nest$n.ebnf
    printf 'depth %2d, %4d bytes of grammar: ' $n "$(wc -c < nest$n.ebnf)"
    timeout 300 "$DRV" lib nest$n.ebnf
done

nest 60 > nest60.ebnf
echo
echo "depth 60 ($(wc -c < nest60.ebnf) bytes of grammar; the known stack problem needs ~1000 levels):"
cat nest60.ebnf
for mode in lib compile; do
    printf 'mode %-7s with a limit of %s s: ' $mode "$TIMEOUT_HANG"
    timeout "$TIMEOUT_HANG" "$DRV" $mode nest60.ebnf
    rc=$?
    if [ $rc -eq 124 ]; then
        echo "NO ANSWER - killed after $TIMEOUT_HANG s (extrapolated from the series above: 2^42 times the depth-18 time, i.e. > 10^5 years)"
        violation=1
    else
        echo "   (exit status $rc)"
    fi
done

echo
echo "== 2. a chain of includes (flat grammar text): unbounded recursion of the generator over >rule =="
chain 8000 > chain8000.ebnf
echo "8001 rules 'A0 = >A1; A1 = >A2; ... A8000 = 'x';', $(wc -c < chain8000.ebnf) bytes, nesting depth of the text: 0"
timeout "$TIMEOUT_CHAIN" "$DRV" lib chain8000.ebnf
rc=$?
echo "   (exit status $rc)"
if [ $rc -ge 128 ]; then
    echo "THE PROCESS DIED FROM A SIGNAL ($((rc - 128))): stack overflow instead of code or an error"
    violation=1
elif [ $rc -eq 124 ]; then
    echo "no answer within $TIMEOUT_CHAIN s"
    violation=1
fi

echo
if [ $violation -ne 0 ]; then
    echo "RESULT: property C15 VIOLATED (the compiler neither produced code nor an error)"
    exit 1
fi
echo "RESULT: the compiler answered every grammar"
exit 0
