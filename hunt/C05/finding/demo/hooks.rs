// user hook used by cases/check_fn_named_cache_key.ebnf; pure, no side effects
pub fn cache_key(name: &String) -> bool {
    name != "forbidden"
}
