#!/bin/bash
# usage: run.sh <path of a peginator checkout>
# exit 0: every case behaves the same with and without @memoize
# exit 1: for some case the grammar works without @memoize but not (or differently) with it
# exit 2: set-up problem (the variant WITHOUT @memoize does not build either)
set -u
[ $# -eq 1 ] || { echo "usage: $0 <peginator checkout>"; exit 2; }
CHECKOUT=$(cd "$1" && pwd)
HERE=$(cd "$(dirname "$0")" && pwd)
export CARGO_NET_OFFLINE=true
export CARGO_TARGET_DIR="$HERE/target"
WORK="$HERE/work"
rm -rf "$WORK"
status=0

run_case() {   # name, inputs...
    local name=$1; shift
    local d="$WORK/$name"
    mkdir -p "$d/src"
    cat > "$d/Cargo.toml" <<EOT
[package]
name = "c05_demo"
version = "0.1.0"
edition = "2021"

[workspace]

[dependencies]
peginator = { path = "$CHECKOUT/runtime" }

[build-dependencies]
peginator_codegen = { path = "$CHECKOUT/codegen" }
EOT
    [ -f "$CHECKOUT/Cargo.lock" ] && cp "$CHECKOUT/Cargo.lock" "$d/Cargo.lock"
    cat > "$d/build.rs" <<'EOT'
fn main() {
    println!("cargo:rerun-if-env-changed=VARIANT");
    let v = std::env::var("VARIANT").unwrap();
    peginator_codegen::Compile::file(format!("grammar_{v}.ebnf"))
        .destination("src/grammar.rs")
        .prefix("#[allow(unused_imports)]\nuse crate::hooks::*;\n".into())
        .run_exit_on_error();
}
EOT
    cp "$HERE/cases/$name.ebnf" "$d/grammar_memo.ebnf"
    sed 's/@memoize//' "$HERE/cases/$name.ebnf" > "$d/grammar_plain.ebnf"
    cp "$HERE/main.rs" "$d/src/main.rs"
    cp "$HERE/hooks.rs" "$d/src/hooks.rs"

    echo "=================== case $name"
    local out_plain out_memo rc_plain rc_memo
    for v in plain memo; do
        rm -f "$d/src/grammar.rs"
        ( cd "$d" && VARIANT=$v cargo run --quiet --offline -- "$@" ) > "$d/out_$v.txt" 2> "$d/err_$v.txt"
        eval "rc_$v=$?"
    done
    echo "--- without @memoize (cargo exit status $rc_plain):"; cat "$d/out_plain.txt"
    if [ "$rc_plain" -ne 0 ]; then
        grep -E '^error' "$d/err_plain.txt" | head -5
        echo "SET-UP PROBLEM: the variant without @memoize does not build"; status=2; return
    fi
    echo "--- with @memoize (cargo exit status $rc_memo):"; cat "$d/out_memo.txt"
    if [ "$rc_memo" -ne 0 ]; then
        grep -E '^error|^ +(= note: +)?(expected|found) ' "$d/err_memo.txt" | cut -c1-160 | head -12
        echo "VIOLATION: adding @memoize turned a working parser into code that does not compile"
        [ $status -eq 0 ] && status=1
    elif ! cmp -s "$d/out_plain.txt" "$d/out_memo.txt"; then
        echo "VIOLATION: results differ"; [ $status -eq 0 ] && status=1
    else
        echo "same behaviour"
    fi
}

run_case rule_named_cached "cached foo" "uncached bar" "cached"
run_case rule_named_cache_key "cache_key = abc" "cache_key abc"
run_case check_fn_named_cache_key "abc" "forbidden"
echo "=================== exit status $status"
exit $status
