#![allow(non_camel_case_types, dead_code, unused_imports)]
mod grammar;
pub mod hooks;
use grammar::Entry;
use peginator::PegParser;

fn main() {
    for input in std::env::args().skip(1) {
        match Entry::parse(&input) {
            Ok(tree) => println!("{input:?} => ACCEPTED {tree:?}"),
            Err(_) => println!("{input:?} => REJECTED"),
        }
    }
}
