// Demonstration for property C18 (directory mode): a FAILING `Compile::directory` run
// (one grammar of the directory is invalid) still rewrites the existing destination of
// another grammar of the same directory, although the run returns Err.
//
// exit status: 1 = violation shown, 0 = not shown, 2 = the set-up itself did not behave as expected

use std::{
    fs,
    path::{Path, PathBuf},
    time::{Duration, SystemTime},
};

use peginator_codegen::Compile;

const VALID_A: &str = "@export A = 'a';\n";
const VALID_B: &str = "@export B = 'b';\n";
const EDITED: &str = "@export Edited = 'edited' x:Inner; Inner = 'i';\n";
const INVALID: &str = "@export Broken = = ;\n"; // syntax error

fn snapshot(p: &Path) -> (Vec<u8>, SystemTime) {
    (
        fs::read(p).expect("destination must exist"),
        fs::metadata(p).unwrap().modified().unwrap(),
    )
}

/// One scenario: both grammars compiled; then `invalid` becomes invalid and `edited` is edited
/// (still valid); the directory run is repeated. Returns the list of destinations that the
/// failing run modified.
fn scenario(root: &Path, invalid: &str, edited: &str, format: bool) -> Result<Vec<PathBuf>, String> {
    let _ = fs::remove_dir_all(root);
    fs::create_dir_all(root).unwrap();
    fs::write(root.join("a.ebnf"), VALID_A).unwrap();
    fs::write(root.join("b.ebnf"), VALID_B).unwrap();
    let mk = || {
        let c = Compile::directory(root);
        if format {
            c.format()
        } else {
            c
        }
    };
    mk().run().map_err(|e| format!("initial run failed: {e}"))?;

    fs::write(root.join(format!("{invalid}.ebnf")), INVALID).unwrap();
    fs::write(root.join(format!("{edited}.ebnf")), EDITED).unwrap();
    let dests = [root.join("a.rs"), root.join("b.rs")];
    let before: Vec<_> = dests.iter().map(|d| snapshot(d)).collect();
    std::thread::sleep(Duration::from_millis(20)); // so that a rewrite shows in the mtime too

    let result = mk().run();
    match &result {
        Ok(()) => return Err("the run over a directory with an invalid grammar returned Ok".into()),
        Err(e) => println!(
            "    run returned Err (as it must): {}",
            e.to_string().lines().next().unwrap_or("")
        ),
    }
    let mut modified = Vec::new();
    for (d, b) in dests.iter().zip(before) {
        let a = snapshot(d);
        let same = a == b;
        println!(
            "    {:<6} content {}  mtime {}",
            d.file_name().unwrap().to_string_lossy(),
            if a.0 == b.0 { "unchanged" } else { "CHANGED" },
            if a.1 == b.1 { "unchanged" } else { "CHANGED" }
        );
        if !same {
            modified.push(d.clone());
        }
    }
    Ok(modified)
}

fn main() {
    let work = PathBuf::from(std::env::args().nth(1).expect("work directory"));
    let mut violations = 0;
    // The walk order of read_dir is not specified, so both assignments are tried: in (at least)
    // one of them the edited grammar is visited before the invalid one.
    for format in [false, true] {
        for (invalid, edited) in [("a", "b"), ("b", "a")] {
            println!(
                "scenario: {invalid}.ebnf becomes invalid, {edited}.ebnf is edited (valid), format={format}"
            );
            match scenario(&work.join("grammars"), invalid, edited, format) {
                Ok(modified) => {
                    if modified.is_empty() {
                        println!("    => the failing run left every existing destination as it was");
                    } else {
                        violations += 1;
                        println!(
                            "    => VIOLATION: the failing run rewrote {:?}",
                            modified
                                .iter()
                                .map(|m| m.file_name().unwrap().to_string_lossy().into_owned())
                                .collect::<Vec<_>>()
                        );
                    }
                }
                Err(e) => {
                    println!("    set-up problem: {e}");
                    std::process::exit(2);
                }
            }
        }
    }
    if violations > 0 {
        println!("RESULT: a failing Compile::directory run modified existing destinations ({violations} scenario(s))");
        std::process::exit(1);
    }
    println!("RESULT: failing runs left all existing destinations untouched");
}
