#!/bin/bash
# usage: run.sh <path of a peginator checkout>
# exit 1: violation shown; exit 0: not shown; exit 2/3: the demonstration could not be built/run
set -u
if [ $# -ne 1 ]; then echo "usage: $0 <peginator checkout>" >&2; exit 3; fi
CHECKOUT=$(cd "$1" && pwd) || exit 3
HERE=$(cd "$(dirname "$0")" && pwd)
BUILD="$HERE/build"
mkdir -p "$BUILD/src" "$HERE/work"
cp "$HERE/crate/src/main.rs" "$BUILD/src/main.rs"
cat > "$BUILD/Cargo.toml" <<EOF
[package]
name = "c18_demo"
version = "0.1.0"
edition = "2021"

[workspace]

[dependencies]
peginator_codegen = { path = "$CHECKOUT/codegen" }
EOF
rm -f "$BUILD/Cargo.lock"
if [ -f "$CHECKOUT/Cargo.lock" ]; then cp "$CHECKOUT/Cargo.lock" "$BUILD/Cargo.lock"; fi
export CARGO_NET_OFFLINE=true
export CARGO_TARGET_DIR="$HERE/target"
if ! cargo build --offline --quiet --manifest-path "$BUILD/Cargo.toml" 2> "$HERE/work/build.log"; then
  if [ -f "$BUILD/Cargo.lock" ]; then
    # the copied lock file may not fit this tiny crate; let cargo resolve from the local registry
    rm -f "$BUILD/Cargo.lock"
    cargo build --offline --quiet --manifest-path "$BUILD/Cargo.toml" 2> "$HERE/work/build.log" || { cat "$HERE/work/build.log" >&2; exit 3; }
  else
    cat "$HERE/work/build.log" >&2; exit 3
  fi
fi
"$HERE/target/debug/c18_demo" "$HERE/work"
