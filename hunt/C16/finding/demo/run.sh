#!/bin/sh
# usage: run.sh <path of a peginator checkout>
# exit 0: property C16 holds on this scenario; exit 1: violation shown; exit 2: could not build/run.
set -u
[ $# -eq 1 ] || { echo "usage: $0 <peginator checkout>"; exit 2; }
CHECKOUT=$(cd "$1" && pwd) || exit 2
HERE=$(cd "$(dirname "$0")" && pwd)
WORK="$HERE/work"
rm -rf "$WORK"; mkdir -p "$WORK/driver/src" || exit 2
cp "$HERE/driver/src/main.rs" "$WORK/driver/src/main.rs"
sed "s|@CHECKOUT@|$CHECKOUT|g" "$HERE/driver/Cargo.toml.in" > "$WORK/driver/Cargo.toml"
[ -f "$CHECKOUT/Cargo.lock" ] && cp "$CHECKOUT/Cargo.lock" "$WORK/driver/Cargo.lock"
export CARGO_NET_OFFLINE=true CARGO_TARGET_DIR="$HERE/target"
( cd "$WORK/driver" && cargo build --offline --quiet 2>"$WORK/build.log" ) || { cat "$WORK/build.log"; echo "BUILD FAILED"; exit 2; }
D="$HERE/target/debug/c16-driver"
G="$HERE/grammar.ebnf"
cd "$WORK" || exit 2

echo "== process 1: build-script helper, derives = [Debug, Clone], destination = work/point.rs"
"$D" bs "$G" point.rs Debug Clone || exit 2
echo "== process 2: build-script helper, SAME grammar and destination, derives = [Debug, Clone, PartialEq]"
"$D" bs "$G" point.rs Debug Clone PartialEq || exit 2
echo "== process 3: build-script helper, same settings as process 2, fresh destination work/fresh.rs"
"$D" bs "$G" fresh.rs Debug Clone PartialEq || exit 2
echo "== process 4: library call, same settings as process 2"
"$D" lib "$G" Debug Clone PartialEq > lib.txt || exit 2

N=$(wc -c < lib.txt)
# the code is what follows the header and the (empty) prefix, i.e. the last N bytes of the destination
tail -c "$N" fresh.rs > fresh.body
tail -c "$N" point.rs > point.body
echo
if cmp -s fresh.body lib.txt; then
    echo "fresh destination : code identical to the library call ($N bytes)"
else
    echo "fresh destination : code DIFFERS from the library call (unexpected)"
fi
echo "derive lines in the library output      : $(grep -o '# \[derive ([^)]*)\]' lib.txt | sort -u | tr '\n' ' ')"
echo "derive lines in work/point.rs (process 2): $(grep -o '# \[derive ([^)]*)\]' point.rs | sort -u | tr '\n' ' ')"
if cmp -s point.body lib.txt; then
    echo "RESULT: work/point.rs holds the code for [Debug, Clone, PartialEq]; property holds here"
    exit 0
else
    echo "RESULT: VIOLATION - the build-script helper run with derives [Debug, Clone, PartialEq] left code in"
    echo "        work/point.rs that is not the code the library call (and the same helper on a fresh destination)"
    echo "        produces for these settings; it silently kept the output of the earlier [Debug, Clone] run."
    cmp point.body lib.txt
    exit 1
fi
