// Driver for the C16 demonstration. Each invocation is a fresh process.
//   driver bs  <grammar> <destination> <derive>...   build-script helper route (peginator_codegen::Compile)
//   driver lib <grammar> <derive>...                  library route (Grammar::generate_code), code to stdout
use std::str::FromStr;

use peginator_codegen::{CodegenGrammar, CodegenSettings, Compile, Grammar};

fn main() {
    let a: Vec<String> = std::env::args().collect();
    match a[1].as_str() {
        "bs" => {
            Compile::file(&a[2])
                .destination(&a[3])
                .derives(a[4..].to_vec())
                .run()
                .expect("Compile::run failed");
        }
        "lib" => {
            let text = std::fs::read_to_string(&a[2]).unwrap();
            let settings = CodegenSettings {
                derives: a[3..].to_vec(),
                ..Default::default()
            };
            let code = Grammar::from_str(&text)
                .expect("grammar does not parse")
                .generate_code(&settings)
                .expect("generate_code failed");
            print!("{}", code);
        }
        _ => panic!("unknown mode"),
    }
}
