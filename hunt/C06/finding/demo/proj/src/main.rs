use std::cell::RefCell;
use std::collections::BTreeMap;

use peginator::{ParseSettings, ParseState, ParseTracer, PegParserAdvanced};

mod called;
mod included;

#[derive(Debug, Clone, Default)]
pub struct Unit;

thread_local! {
    /// (observer, byte position) -> number of events
    static COUNTS: RefCell<BTreeMap<(String, usize), usize>> = RefCell::new(BTreeMap::new());
    static INPUT_LEN: RefCell<usize> = RefCell::new(0);
}

fn count(what: &str, remaining: usize) {
    let position = INPUT_LEN.with(|l| *l.borrow()) - remaining;
    COUNTS.with(|c| *c.borrow_mut().entry((what.to_string(), position)).or_insert(0) += 1);
}

/// The @extern probe placed at the start of the body of the memoized rule M. Matches the empty string.
pub fn probe(s: &str) -> Result<(Unit, usize), &'static str> {
    count("extern probe at the start of M's body", s.len());
    Ok((Unit, 0))
}

/// Counts the print_trace_start events of the rule that is called only from M's body.
#[derive(Clone, Copy)]
struct CountingTracer;
impl ParseTracer for CountingTracer {
    fn print_trace_start(&mut self, state: &ParseState, name: &str) {
        if name == "Inner" || name == "InnerC" {
            count("trace start of Inner (called only from M's body)", state.s().len());
        }
    }
    fn new() -> Self {
        CountingTracer
    }
}

fn report(label: &str) -> usize {
    let mut worst = 0;
    COUNTS.with(|c| {
        for ((what, position), n) in c.borrow().iter() {
            println!("  [{label}] {what}: {n} time(s) at byte position {position}");
            worst = worst.max(*n);
        }
        c.borrow_mut().clear();
    });
    worst
}

fn main() {
    let input = "av";
    INPUT_LEN.with(|l| *l.borrow_mut() = input.len());

    println!("control grammar (m:MC field matches), input {input:?}:");
    let r = called::Called::parse_advanced::<CountingTracer>(input, &ParseSettings::default(), ());
    println!("  parse ok: {}", r.is_ok());
    let worst_called = report("called");

    println!("grammar with `>M` includes of the @memoize rule M, input {input:?}:");
    let r = included::Included::parse_advanced::<CountingTracer>(input, &ParseSettings::default(), ());
    println!("  parse ok: {}", r.is_ok());
    let worst_included = report("included");

    println!(
        "bound claimed for an all-memoized grammar: rules x (len+1) = 3 x {} = {} body evaluations in total, 1 per rule and position",
        input.len() + 1,
        3 * (input.len() + 1)
    );
    if worst_called > 1 {
        println!("VIOLATION (control): a memoized body ran {worst_called} times at one position");
    }
    if worst_included > 1 {
        println!("VIOLATION: the body of the @memoize rule M ran {worst_included} times at one input position");
    }
    if worst_called > 1 || worst_included > 1 {
        std::process::exit(1);
    }
    println!("OK: every memoized body ran at most once per position");
}
