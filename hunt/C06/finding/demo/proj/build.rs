fn main() {
    peginator_codegen::Compile::directory("src")
        .derives(vec!["Debug".into(), "Clone".into()])
        .run_exit_on_error();
}
