#!/bin/sh
# usage: run.sh <path of a peginator checkout>
set -u
if [ $# -ne 1 ]; then echo "usage: $0 <peginator checkout>" >&2; exit 2; fi
CHECKOUT=$(cd "$1" && pwd) || exit 2
HERE=$(cd "$(dirname "$0")" && pwd)
sed "s|@CHECKOUT@|$CHECKOUT|g" "$HERE/proj/Cargo.toml.in" > "$HERE/proj/Cargo.toml"
cp "$HERE/proj/Cargo.lock.in" "$HERE/proj/Cargo.lock"
rm -f "$HERE/proj/src/included.rs" "$HERE/proj/src/called.rs"
cd "$HERE/proj" || exit 2
export CARGO_NET_OFFLINE=true
export CARGO_TARGET_DIR="$HERE/target"
cargo build --offline --quiet 2>"$HERE/build.log" || { cat "$HERE/build.log" >&2; echo "BUILD FAILED" >&2; exit 3; }
"$HERE/target/debug/c06demo"
