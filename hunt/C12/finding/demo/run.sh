#!/bin/sh
# usage: run.sh <path of a peginator checkout>
# Exits non-zero when the violation shows (respelled grammar texts are rejected).
set -u
if [ $# -ne 1 ]; then echo "usage: $0 <peginator checkout>" >&2; exit 2; fi
CHECKOUT=$(cd "$1" && pwd) || exit 2
HERE=$(cd "$(dirname "$0")" && pwd)
PROJ="$HERE/proj"
cat > "$PROJ/Cargo.toml" <<TOML
[package]
name = "c12demo"
version = "0.1.0"
edition = "2021"

[workspace]

[dependencies]
peginator = { path = "$CHECKOUT/runtime" }
peginator_codegen = { path = "$CHECKOUT/codegen" }
TOML
cp "$CHECKOUT/Cargo.lock" "$PROJ/Cargo.lock" || exit 2
cd "$PROJ" || exit 2
CARGO_NET_OFFLINE=true CARGO_TARGET_DIR="$HERE/target" cargo build --offline --quiet 2>"$HERE/build.log"
if [ $? -ne 0 ]; then echo "build failed, see $HERE/build.log" >&2; tail -20 "$HERE/build.log" >&2; exit 2; fi
"$HERE/target/debug/c12demo"
