//! Each case is a pair of grammar texts that denote the same grammar according to doc/syntax.md
//! and differ only in layout / quote style. The first text of each pair is the "reference"
//! spelling; the second is the respelling. Both must be read, and must give the same parser code.

use std::str::FromStr;

use peginator_codegen::{CodegenGrammar, CodegenSettings, Grammar};

fn code_of(text: &str) -> Result<String, String> {
    let grammar = Grammar::from_str(text).map_err(|e| format!("grammar text REJECTED: {e}"))?;
    grammar
        .generate_code(&CodegenSettings::default())
        .map(|c| c.to_string())
        .map_err(|e| format!("code generation failed: {e:#}"))
}

fn main() {
    let cases: &[(&str, &str, &str)] = &[
        (
            "A1: comment on the last line, file does not end in a newline",
            "@export A = 'a'; # the end\n",
            "@export A = 'a'; # the end",
        ),
        (
            "A2: same, comment directly after the last ';'",
            "@export A = 'a';\n",
            "@export A = 'a';#",
        ),
        (
            "B1: @char rule, characters in double quotes",
            "@char C = 'a' | 'b'; @export A = c:C;\n",
            "@char C = \"a\" | \"b\"; @export A = c:C;\n",
        ),
        (
            "B2: character range in double quotes",
            "@export A = 'a'..'z';\n",
            "@export A = \"a\"..\"z\";\n",
        ),
        (
            "B3: @char rule, range in double quotes",
            "@char C = 'a'..'z' | '_'; @export A = c:C;\n",
            "@char C = \"a\"..\"z\" | \"_\"; @export A = c:C;\n",
        ),
        // controls: respellings that are handled (must print 'same')
        (
            "control 1: string literal in double quotes",
            "@export A = 'a' 'bc';\n",
            "@export A = \"a\" \"bc\";\n",
        ),
        (
            "control 2: comment on the last line, with newline",
            "@export A = 'a';\n",
            "@export A = 'a'; # the end\n",
        ),
    ];
    let mut violations = 0;
    for (name, reference, respelled) in cases {
        println!("--- {name}");
        println!("    reference: {reference:?}");
        println!("    respelled: {respelled:?}");
        let r = code_of(reference);
        let s = code_of(respelled);
        match (&r, &s) {
            (Ok(a), Ok(b)) if a == b => println!("    same parser code"),
            (Ok(_), Ok(_)) => {
                println!("    VIOLATION: different parser code");
                violations += 1;
            }
            (Ok(_), Err(e)) => {
                println!("    VIOLATION: reference is read, respelling is not: {e}");
                violations += 1;
            }
            (Err(e), _) => println!("    (reference itself not accepted: {e})"),
        }
    }
    println!("violations: {violations}");
    std::process::exit(if violations > 0 { 1 } else { 0 });
}
