#!/bin/sh
# usage: run.sh <path of a peginator checkout>
# exit 0: parse() of the @leftrec rule returned the left-nested tree for every input tried
# exit 1: VIOLATION shown - parse() of the @leftrec rule killed the process (stack overflow) instead of returning
# exit 99: the demonstration itself could not be built / run
set -u
[ $# -eq 1 ] || { echo "usage: $0 <peginator checkout>" >&2; exit 99; }
CHECKOUT=$(cd "$1" && pwd) || exit 99
HERE=$(cd "$(dirname "$0")" && pwd)
N=${N:-8000}

WORK="$HERE/work"
mkdir -p "$WORK/src" || exit 99
sed "s|@CHECKOUT@|$CHECKOUT|g" "$HERE/Cargo.toml.in" > "$WORK/Cargo.toml" || exit 99
cp "$CHECKOUT/Cargo.lock" "$WORK/Cargo.lock" || exit 99
cp "$HERE/main.rs" "$WORK/src/main.rs" || exit 99

export CARGO_NET_OFFLINE=true
export CARGO_TARGET_DIR="$HERE/target"
export RUSTFLAGS="-Awarnings" # only silences the warnings of the checkout's own crates
# plain `cargo build`: the dev profile, i.e. what `cargo build`, `cargo run` and `cargo test` use by default
cargo build --offline --quiet --manifest-path "$WORK/Cargo.toml" || { echo "BUILD FAILED" >&2; exit 99; }
EXE="$CARGO_TARGET_DIR/debug/c07_demo"

echo "== control 1: the @leftrec rule on a short input (N=100)"
"$EXE" leftrec 100 || { echo "control 1 failed" >&2; exit 99; }
echo "== control 2: the same $((2 * N + 1))-byte input through a rule without left recursion (N=$N)"
"$EXE" list "$N" || { echo "control 2 failed" >&2; exit 99; }

echo "== the @leftrec rule on 1+1+...+1 with N=$N additions"
OUT="$WORK/out.txt"
"$EXE" leftrec "$N" > "$OUT" 2>&1
RC=$?
cat "$OUT"
echo "exit status of the parsing process: $RC"
if [ $RC -eq 0 ] && grep -q "nested to the left, depth $N" "$OUT"; then
    echo "RESULT: parse() returned the left-nested tree of the longest growth - property holds for this input"
    exit 0
fi
if ! grep -q "parse() returned" "$OUT"; then
    echo "RESULT: VIOLATION - parse() of the @leftrec rule never returned; the process was killed inside it (see message above)"
    exit 1
fi
echo "RESULT: VIOLATION - parse() returned, but not the expected tree"
exit 1
