// Demonstration for property C07 (see README.md).
//
// usage: c07_demo <leftrec|list> <N> [stack size of the parsing thread in MiB, default 2]
//
// Parses the input  "1" followed by N times "+1"  on a thread that has Rust's default thread stack
// size (2 MiB - what std::thread::spawn and every #[test] get), and reports what came back.
use peginator::PegParser;
use peginator_macro::peginate;

peginate!(
    "
# the textbook shape  A = A x | b : ONE @leftrec rule, no @memoize rule, no other left recursion
@export
@leftrec
Expr = @:Add | @:Num;
Add = left:*Expr '+' right:Num;

@string
@no_skip_ws
Num = {'0'..'9'}+;

# control: the same language without left recursion
@export
List = first:Num {'+' rest:Num} $;
"
);

/// Length of the `left` spine, computed without recursion.
fn left_depth(e: &Expr) -> usize {
    let mut n = 0;
    let mut cur = e;
    while let Expr::Add(add) = cur {
        n += 1;
        cur = &add.left;
    }
    n
}

fn run(which: String, n: usize) {
    let input = format!("1{}", "+1".repeat(n));
    let start = std::time::Instant::now();
    println!("[{which} N={n}] input is {} bytes; entering parse()", input.len());
    if which == "list" {
        let r = List::parse(&input).expect("list parse failed");
        println!("[{which} N={n}] parse() returned after {:?}: {} operands", start.elapsed(), 1 + r.rest.len());
    } else {
        let r = Expr::parse(&input);
        println!("[{which} N={n}] parse() returned after {:?}", start.elapsed());
        let r = r.expect("leftrec parse failed");
        let d = left_depth(&r);
        println!("[{which} N={n}] result is nested to the left, depth {d}");
        assert_eq!(d, n, "not the tree of the longest growth");
        // dropping such a tree recurses as well; that is the caller's business, not parse()'s
        std::mem::forget(r);
    }
}

fn main() {
    let which = std::env::args().nth(1).expect("leftrec|list");
    let n: usize = std::env::args().nth(2).expect("N").parse().expect("N");
    let mib: usize = std::env::args().nth(3).map(|s| s.parse().expect("MiB")).unwrap_or(2);
    std::thread::Builder::new()
        .stack_size(mib * 1024 * 1024) // 2 MiB = the default of std::thread
        .spawn(move || run(which, n))
        .unwrap()
        .join()
        .unwrap();
}
