// Runs the grammar compiler (the same entry points peginator-cli uses) on one grammar file.
// usage: gen <grammar.ebnf> <out.rs> [derives=A,B,...]
// exit 0: accepted, code written to <out.rs>; exit 2: the compiler rejected the grammar.
use peginator::PegParser;
use peginator_codegen::{CodegenGrammar, CodegenSettings, Grammar};

fn main() {
    let args: Vec<String> = std::env::args().collect();
    let text = std::fs::read_to_string(&args[1]).unwrap();
    let grammar = match Grammar::parse(&text) {
        Ok(g) => g,
        Err(e) => {
            println!("grammar does not parse: {e:?}");
            std::process::exit(2)
        }
    };
    let mut settings = CodegenSettings::default();
    for a in &args[3..] {
        if let Some(d) = a.strip_prefix("derives=") {
            settings.derives = d.split(',').filter(|x| !x.is_empty()).map(String::from).collect();
        }
    }
    match grammar.generate_code(&settings) {
        Ok(code) => std::fs::write(&args[2], code.to_string()).unwrap(),
        Err(e) => {
            println!("compiler rejected the grammar: {e:#}");
            std::process::exit(2)
        }
    }
}
