// The crate that holds the generated code. GEN_FILE is set by run.sh.
#![forbid(unsafe_code)]
#![allow(dead_code)]
mod generated {
    include!(env!("GEN_FILE"));
}
