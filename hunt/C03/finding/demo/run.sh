#!/bin/bash
# usage: run.sh <path of a peginator checkout>
# Exits 1 when at least one of the primary witnesses (P*) is ACCEPTED by the grammar compiler but the
# generated Rust code is then REFUSED by rustc (= property C03 violated). Exits 0 when every primary
# witness is either rejected by the grammar compiler or compiles. Exits 3 on a harness problem.
set -u
if [ $# -ne 1 ]; then echo "usage: $0 <peginator checkout>"; exit 3; fi
CHECKOUT=$(cd "$1" && pwd) || exit 3
HERE=$(cd "$(dirname "$0")" && pwd)
BUILD="$HERE/build"
export CARGO_NET_OFFLINE=true
export CARGO_TARGET_DIR="$HERE/target"
mkdir -p "$BUILD/gen/src" "$BUILD/chk/src" "$BUILD/out"

for c in gen chk; do
    sed "s|@CHECKOUT@|$CHECKOUT|g" "$HERE/$c/Cargo.toml.in" > "$BUILD/$c/Cargo.toml"
    cp "$HERE/$c/src/"*.rs "$BUILD/$c/src/"
    cp "$HERE/Cargo.lock.seed" "$BUILD/$c/Cargo.lock"
done

echo "### building the grammar-compiler driver against $CHECKOUT"
if ! (cd "$BUILD/gen" && cargo build --offline --quiet 2> "$BUILD/out/gen-build.log"); then
    cat "$BUILD/out/gen-build.log"; echo "HARNESS PROBLEM: driver does not build"; exit 3
fi
GEN="$CARGO_TARGET_DIR/debug/gen"

# verdict <grammar> [derives=..]  ->  prints one line, returns 0 = holds, 1 = violated
verdict() {
    local g="$1"; shift
    local name; name=$(basename "$g" .ebnf)
    local out="$BUILD/out/$name.rs"
    echo
    echo "--- $name $*"
    sed 's/^/      | /' "$g"
    local msg
    if ! msg=$("$GEN" "$g" "$out" "$@"); then
        echo "    grammar compiler: $msg"
        echo "    => holds (grammar not accepted)"
        return 0
    fi
    echo "    grammar compiler: ACCEPTED"
    touch "$BUILD/chk/src/lib.rs"
    if (cd "$BUILD/chk" && GEN_FILE="$out" cargo check --offline --quiet > "$BUILD/out/$name.rustc.log" 2>&1); then
        echo "    rustc: generated code compiles"
        echo "    => holds"
        return 0
    fi
    echo "    rustc: generated code DOES NOT COMPILE; first errors:"
    grep -E -A3 '^error' "$BUILD/out/$name.rustc.log" | cut -c1-220 | head -12 | sed 's/^/      /'
    echo "    => VIOLATION (accepted grammar, Rust code refused by rustc); full log: $BUILD/out/$name.rustc.log"
    return 1
}

echo
echo "### controls (same shapes, harmless names) - these must hold, otherwise the harness is broken"
for g in "$HERE"/grammars/C*.ebnf; do
    verdict "$g" || { echo "HARNESS PROBLEM: control failed"; exit 3; }
done

echo
echo "### primary witnesses: rule / field names that are Rust keywords"
primary=0
for g in "$HERE"/grammars/P*.ebnf; do
    verdict "$g" || primary=$((primary+1))
done

echo
echo "### secondary witnesses (other accepted grammars whose code does not compile; informative only)"
secondary=0
verdict "$HERE/grammars/S1_leftrec_without_Clone.ebnf" derives=Debug || secondary=$((secondary+1))
for g in "$HERE"/grammars/S[2-9]*.ebnf; do
    verdict "$g" || secondary=$((secondary+1))
done

echo
echo "### summary: $primary primary witness(es) violated, $secondary secondary witness(es) violated"
if [ "$primary" -gt 0 ]; then
    echo "PROPERTY C03 VIOLATED"
    exit 1
fi
echo "no primary violation"
exit 0
