// Demonstration for property C11: PrettyParseError::from_parse_error must never panic and must
// report line/column for every (text, boundary position), explicitly including long lines.
use peginator::{ParseError, ParseErrorSpecifics, PrettyParseError};
use std::panic::catch_unwind;

fn pretty(text: &str, position: usize, file: Option<&str>) -> Result<String, String> {
    let err = ParseError {
        position,
        specifics: ParseErrorSpecifics::ExpectedEoi,
    };
    let text = text.to_string();
    let file = file.map(|s| s.to_string());
    catch_unwind(move || {
        PrettyParseError::from_parse_error(&err, &text, file.as_deref()).to_string()
    })
    .map_err(|e| {
        e.downcast_ref::<String>()
            .cloned()
            .or_else(|| e.downcast_ref::<&str>().map(|s| s.to_string()))
            .unwrap_or_else(|| "<non-string panic payload>".into())
    })
}

fn main() {
    let mut violations = 0;
    // One long line (e.g. minified JSON / generated single-line input), error position = column N+1.
    for n in [100usize, 65_533, 65_534, 65_535, 65_536, 70_000, 1_000_000] {
        let text = "a".repeat(n);
        for file in [None, Some("input.txt")] {
            match pretty(&text, n, file) {
                Ok(s) => {
                    let expect = if file.is_some() {
                        format!("input.txt:1:{}", n + 1)
                    } else {
                        format!("Line 1 character {}", n + 1)
                    };
                    let ok = s.contains(&expect);
                    println!(
                        "line length {n:>8}, position {n:>8}, file={file:?}: ok, location {}",
                        if ok { "correct" } else { "WRONG" }
                    );
                    if !ok {
                        violations += 1;
                    }
                }
                Err(msg) => {
                    println!(
                        "line length {n:>8}, position {n:>8}, file={file:?}: PANICKED: {msg}"
                    );
                    violations += 1;
                }
            }
        }
    }
    if violations > 0 {
        println!("VIOLATION: {violations} (text, position) pairs panicked or were misreported");
        std::process::exit(1);
    }
    println!("property held on all tried pairs");
}
