#!/bin/sh
# usage: run.sh <path of a peginator checkout>
# exit status: non-zero when the violation shows (PrettyParseError::from_parse_error panics on a long line)
set -u
CHECKOUT=$(cd "$1" && pwd) || exit 2
HERE=$(cd "$(dirname "$0")" && pwd)
cd "$HERE" || exit 2
cat > Cargo.toml <<TOML
[package]
name = "c11_demo"
version = "0.0.0"
edition = "2021"

[workspace]

[dependencies]
peginator = { path = "$CHECKOUT/runtime" }
TOML
if [ -f "$CHECKOUT/Cargo.lock" ] && [ ! -f Cargo.lock ]; then cp "$CHECKOUT/Cargo.lock" Cargo.lock; fi
export CARGO_NET_OFFLINE=true
export CARGO_TARGET_DIR="$HERE/target"
export RUST_BACKTRACE=0
cargo build --offline --quiet 2>"$HERE/build.log" || { cat "$HERE/build.log"; echo "BUILD FAILED (not a demonstration)"; exit 0; }

echo "== 1. library: PrettyParseError::from_parse_error on one long line, error at its end =="
"$HERE/target/debug/c11_demo" 2>/dev/null
STATUS=$?

echo
echo "== 2. (informational, best effort) the same through peginator-cli on a one-line grammar file =="
# a copy of the checkout's manifest is NOT made; the CLI is built from the checkout with our target dir.
HAD_LOCK=no; [ -f "$CHECKOUT/Cargo.lock" ] && HAD_LOCK=yes
if cargo build --offline --quiet --manifest-path "$CHECKOUT/cli/Cargo.toml" 2>>"$HERE/build.log"; then
    awk 'BEGIN { printf "@export R = "; for (i = 0; i < 20000; i++) printf "\047a\047 "; print ";;;" }' > "$HERE/long.ebnf"
    "$HERE/target/debug/peginator-cli" "$HERE/long.ebnf" >/dev/null 2>"$HERE/cli.err"
    echo "peginator-cli exit status: $? (101 = Rust panic; a reported syntax error would be 1)"
    cut -c1-200 "$HERE/cli.err" | head -n 3
else
    echo "(peginator-cli did not build offline; skipped)"
fi
[ "$HAD_LOCK" = no ] && rm -f "$CHECKOUT/Cargo.lock"   # leave the checkout as we found it
exit $STATUS
