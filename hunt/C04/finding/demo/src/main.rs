// Demonstration for property C04: a valid UTF-8 input whose parse error lies at
// character column >= 65536 of a line makes PrettyParseError::from_parse_error
// (runtime/src/error.rs) panic with "Formatting argument out of range".
use std::panic::catch_unwind;

use peginator::{PegParser, PrettyParseError};
use peginator_macro::peginate;

peginate!(
    r#"
@export
G = {items:Item} $;
@string
Item = {'a'..'z' | 'é'}+;
"#
);

/// Returns true if rendering the error of `input` panicked.
fn pretty_error_panics(input: &str) -> bool {
    let err = G::parse(input).expect_err("the input ends in '!' so the parse must fail");
    // The generated parser itself behaves: the position is in range and on a char boundary.
    assert!(err.position <= input.len() && input.is_char_boundary(err.position));
    let col = input[..err.position].chars().count() + 1;
    let r = catch_unwind(|| PrettyParseError::from_parse_error(&err, input, None).to_string());
    println!(
        "  input of {} bytes, error at byte {} = 1-based character column {} -> {}",
        input.len(),
        err.position,
        col,
        if r.is_ok() { "rendered fine" } else { "PANIC" }
    );
    r.is_err()
}

fn main() {
    let mut violated = false;

    println!("1) user grammar (peginate!), one-line inputs \"ééé...é!\":");
    // error column 65535: fine (format width 65535 == u16::MAX)
    let ok_input = format!("{}!", "é".repeat(65534));
    let a = pretty_error_panics(&ok_input);
    // error column 65536: panics
    let bad_input = format!("{}!", "é".repeat(65535));
    let b = pretty_error_panics(&bad_input);
    violated |= a | b;

    println!("2) peginator's own (generated) grammar parser through peginator_codegen::Compile:");
    // a grammar file consisting of one long line with a syntax error at its end
    let dir = std::env::temp_dir().join(format!("c04_demo_{}", std::process::id()));
    std::fs::create_dir_all(&dir).unwrap();
    let src = dir.join("long.ebnf");
    std::fs::write(&src, format!("A = {} = ;", "'a' ".repeat(20000))).unwrap();
    let dst = dir.join("long.rs");
    let r = catch_unwind(|| {
        peginator_codegen::Compile::file(&src)
            .destination(&dst)
            .run()
            .map_err(|e| e.to_string().lines().next().unwrap_or("").to_string())
    });
    match &r {
        Ok(Ok(())) => println!("  Compile::run() returned Ok (unexpected)"),
        Ok(Err(e)) => println!("  Compile::run() returned an error as it should: {e}"),
        Err(_) => println!("  Compile::run() PANICKED instead of returning the parse error"),
    }
    violated |= r.is_err();
    let _ = std::fs::remove_dir_all(&dir);

    if violated {
        println!("VIOLATION: a panic was caused by a valid UTF-8 input (see the panic messages on stderr).");
        std::process::exit(1);
    }
    println!("no violation observed");
}
