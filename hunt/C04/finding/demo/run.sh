#!/bin/sh
# usage: run.sh <path of a peginator checkout>
# exits non-zero when the violation shows (a panic caused by a long-line input)
set -u
export RUST_BACKTRACE=0
[ $# -eq 1 ] || { echo "usage: $0 <peginator checkout>" >&2; exit 2; }
CHECKOUT=$(cd "$1" && pwd) || exit 2
HERE=$(cd "$(dirname "$0")" && pwd)
cd "$HERE" || exit 2
sed "s|@CHECKOUT@|$CHECKOUT|g" Cargo.toml.in > Cargo.toml
export CARGO_NET_OFFLINE=true
export CARGO_TARGET_DIR="$HERE/target"
cargo build --offline --quiet 2>build.log || { echo "BUILD FAILED, see $HERE/build.log" >&2; tail -20 build.log >&2; exit 2; }
"$CARGO_TARGET_DIR/debug/c04_demo"
rc=$?
if [ $rc -eq 0 ]; then echo "RESULT: property held on this checkout"; exit 0; fi
echo "RESULT: property violated on this checkout (exit code $rc)"
exit 1
