import Proto.Basic
namespace Proto

def Le (ev ev' : Expr → St → Option Res) : Prop := ∀ e s r, ev e s = some r → ev' e s = some r

theorem evalSeq_mono {ev ev'} (h : Le ev ev') :
    ∀ es s r, evalSeq ev es s = some r → evalSeq ev' es s = some r := by
  intro es
  induction es with
  | nil => intro s r hr; simpa [evalSeq] using hr
  | cons e es ih =>
    intro s r hr
    simp only [evalSeq] at hr ⊢
    split at hr
    · cases hr
    · next x hx => rw [h _ _ _ hx]; exact hr
    · next s' hx => rw [h _ _ _ hx]; exact ih _ _ hr

theorem evalAlt_mono {ev ev'} (h : Le ev ev') :
    ∀ es s r, evalAlt ev es s = some r → evalAlt ev' es s = some r := by
  intro es
  induction es with
  | nil => intro s r hr; simpa [evalAlt] using hr
  | cons e es ih =>
    intro s r hr
    simp only [evalAlt] at hr ⊢
    split at hr
    · cases hr
    · next s' hx => rw [h _ _ _ hx]; exact hr
    · next x hx => rw [h _ _ _ hx]; exact ih _ _ hr

theorem evalStar_mono {ev ev' : St → Option Res}
    (h : ∀ s r, ev s = some r → ev' s = some r) :
    ∀ n m s r, n ≤ m → evalStar ev n s = some r → evalStar ev' m s = some r := by
  intro n
  induction n with
  | zero => intro m s r _ hr; simp [evalStar] at hr
  | succ n ih =>
    intro m s r hm hr
    obtain ⟨m, rfl⟩ : ∃ k, m = k + 1 := ⟨m - 1, by omega⟩
    simp only [evalStar] at hr ⊢
    split at hr
    · cases hr
    · next x hx => rw [h _ _ hx]; exact hr
    · next s' hx => rw [h _ _ hx]; exact ih _ _ _ (by omega) hr

theorem step_mono (g : Grammar) (inp : Input) {ev ev'} (h : Le ev ev') {n m} (hnm : n ≤ m) :
    Le (step g inp ev n) (step g inp ev' m) := by
  intro e s r hr
  cases e with
  | lit l => simpa [step] using hr
  | range lo hi => simpa [step] using hr
  | eoi => simpa [step] using hr
  | call r' =>
    simp only [step] at hr ⊢
    split at hr
    · cases hr
    · exact h _ _ _ hr
  | seq es => simp only [step] at hr ⊢; exact evalSeq_mono h _ _ _ hr
  | alt es => simp only [step] at hr ⊢; exact evalAlt_mono h _ _ _ hr
  | opt e' =>
    simp only [step] at hr ⊢
    split at hr
    · cases hr
    · next s' hx => rw [h _ _ _ hx]; exact hr
    · next x hx => rw [h _ _ _ hx]; exact hr
  | star e' =>
    simp only [step] at hr ⊢
    exact evalStar_mono (fun s r => h e' s r) _ _ _ _ hnm hr
  | plus e' =>
    simp only [step] at hr ⊢
    split at hr
    · cases hr
    · next x hx => rw [h _ _ _ hx]; exact hr
    · next s' hx => rw [h _ _ _ hx]; exact evalStar_mono (fun s r => h e' s r) _ _ _ _ hnm hr
  | notp e' =>
    simp only [step] at hr ⊢
    split at hr
    · cases hr
    · next s' hx => rw [h _ _ _ hx]; exact hr
    · next x hx => rw [h _ _ _ hx]; exact hr
  | andp e' =>
    simp only [step] at hr ⊢
    split at hr
    · cases hr
    · next s' hx => rw [h _ _ _ hx]; exact hr
    · next x hx => rw [h _ _ _ hx]; exact hr

theorem eval_mono (g : Grammar) (inp : Input) : ∀ n, Le (eval g inp n) (eval g inp (n+1)) := by
  intro n
  induction n with
  | zero => intro e s r h; simp [eval] at h
  | succ n ih => exact step_mono g inp ih (Nat.le_succ n)

theorem eval_mono_le (g : Grammar) (inp : Input) {n m} (hnm : n ≤ m) : Le (eval g inp n) (eval g inp m) := by
  induction hnm with
  | refl => exact fun _ _ _ h => h
  | step _ ih => exact fun e s r h => eval_mono g inp _ _ _ _ (ih e s r h)

end Proto
