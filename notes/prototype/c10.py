import random, itertools
# mini transcription of the generated code's error bookkeeping (no ws skipping, no fields)
class St:
    __slots__=('pos','far')
    def __init__(s,pos,far): s.pos=pos; s.far=far
    def record(s,e):
        if s.far is None or s.far[0] <= e[0]: return St(s.pos,e)
        return St(s.pos,s.far)
    def report(s,spec):
        return s.record((s.pos,spec)).far
    def farthest(s):
        return s.far if s.far is not None else (s.pos,'Other')
LOG=[]  # counted attempts (pos, spec, id)
def ev(g,e,st,inp,depth):
    """returns ('ok',St) | ('err',(pos,spec)); appends attempts to LOG with lookahead discipline"""
    k=e[0]
    if k=='lit':
        if inp.startswith(e[1],st.pos): return ('ok',St(st.pos+len(e[1]),st.far))
        LOG.append((st.pos,'lit'+e[1])); return ('err',st.report('lit'+e[1]))
    if k=='eoi':
        if st.pos>=len(inp): return ('ok',st)
        LOG.append((st.pos,'eoi')); return ('err',st.report('eoi'))
    if k=='call': return ev(g,g[e[1]],st,inp,depth+1)
    if k=='seq':
        for p in e[1]:
            r=ev(g,p,st,inp,depth)
            if r[0]=='err': return r
            st=r[1]
        return ('ok',st)
    if k=='alt':
        if len(e[1])==1: return ev(g,e[1][0],st,inp,depth)
        hs=st
        for c in e[1]:
            r=ev(g,c,hs,inp,depth)
            if r[0]=='ok': return r
            hs=hs.record(r[1])
        return ('err',hs.farthest())
    if k=='opt':
        r=ev(g,e[1],st,inp,depth)
        if r[0]=='ok': return r
        return ('ok',st.record(r[1]))
    if k in('star','plus'):
        it=0
        while True:
            r=ev(g,e[1],st,inp,depth)
            if r[0]=='ok':
                if r[1].pos==st.pos: raise RuntimeError('nullable loop')
                st=r[1]; it+=1
            else:
                st=st.record(r[1]); break
        if k=='plus' and it==0: return ('err',st.farthest())
        return ('ok',st)
    if k=='not':
        n=len(LOG); r=ev(g,e[1],st,inp,depth); del LOG[n:]   # inner attempts never counted
        if r[0]=='ok':
            LOG.append((st.pos,'neg')); return ('err',st.report('neg'))
        return ('ok',st)
    if k=='and':
        n=len(LOG); r=ev(g,e[1],st,inp,depth)
        if r[0]=='ok':
            del LOG[n:]; return ('ok',st)
        return r   # inner attempts counted: the lookahead as a whole failed
def rnd_expr(rng,d,rules):
    ks=['lit','lit','lit','call','eoi'] if d==0 else ['lit','seq','seq','alt','alt','opt','star','plus','not','and','call']
    k=rng.choice(ks)
    if k=='lit': return ('lit',rng.choice(['a','b','ab','c']))
    if k=='eoi': return ('eoi',)
    if k=='call': return ('call',rng.choice(rules))
    if k in('seq','alt'): return (k,[rnd_expr(rng,d-1,rules) for _ in range(rng.randint(1,3))])
    return (k,rnd_expr(rng,d-1,rules))
import sys
sys.setrecursionlimit(300)
rng=random.Random(1); tested=0; fails=0; bad=0; skipped=0; ties=0
for gi in range(4000):
    rules=['R0','R1']
    g={r:rnd_expr(rng,3,rules[i+1:] or ['R1']) if False else rnd_expr(rng,3,rules[i+1:]) if rules[i+1:] else rnd_expr(rng,2,[]) if False else None for i,r in enumerate(rules)}
    g['R1']=rnd_expr(rng,2,['R1']) if False else ('alt',[('lit','a'),('seq',[('lit','b'),('lit','c')])])
    g['R0']=rnd_expr(rng,3,['R1'])
    for _ in range(12):
        inp=''.join(rng.choice('abc') for _ in range(rng.randint(0,5)))
        LOG.clear()
        try: r=ev(g,('call','R0'),St(0,None),inp,0)
        except (RuntimeError,RecursionError): skipped+=1; continue
        tested+=1
        if r[0]=='err':
            fails+=1
            mx=max(p for p,_ in LOG) if LOG else None
            last=[s for p,s in LOG if p==mx][-1] if LOG else None
            if mx is None or r[1][0]!=mx or r[1] not in LOG:
                bad+=1
                if bad<5: print('BAD',g['R0'],repr(inp),r,LOG)
            elif r[1][1]!=last: ties+=1
print(tested,'runs',fails,'failures',bad,'violations of far_is_max;',ties,'where the reported spec is not the LAST attempt at max;',skipped,'skipped')
