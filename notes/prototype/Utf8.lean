namespace Proto

def enc (cs : List Char) : List UInt8 := cs.flatMap String.utf8EncodeChar

theorem enc_cons (c : Char) (cs : List Char) : enc (c :: cs) = String.utf8EncodeChar c ++ enc cs := by
  simp [enc]
theorem enc_append (a b : List Char) : enc (a ++ b) = enc a ++ enc b := by simp [enc]

def IsBoundary (cs : List Char) (off : Nat) : Prop := ∃ k, k ≤ cs.length ∧ off = (enc (cs.take k)).length

theorem or_c0_ge (x : UInt8) : 128 ≤ (x &&& 0x1f ||| 0xc0) := by
  have : ∀ n : Fin 256, 128 ≤ ((UInt8.ofNat n.val) &&& 0x1f ||| 0xc0) := by decide +kernel
  simpa using this ⟨x.toNat, x.toNat_lt⟩
theorem or_e0_ge (x : UInt8) : 128 ≤ (x &&& 0x0f ||| 0xe0) := by
  have : ∀ n : Fin 256, 128 ≤ ((UInt8.ofNat n.val) &&& 0x0f ||| 0xe0) := by decide +kernel
  simpa using this ⟨x.toNat, x.toNat_lt⟩
theorem or_f0_ge (x : UInt8) : 128 ≤ (x &&& 0x07 ||| 0xf0) := by
  have : ∀ n : Fin 256, 128 ≤ ((UInt8.ofNat n.val) &&& 0x07 ||| 0xf0) := by decide +kernel
  simpa using this ⟨x.toNat, x.toNat_lt⟩

/-- the head byte of a character's encoding is < 0x80 exactly for one-byte (ASCII) characters -/
theorem head_lt_128_iff (c : Char) :
    (∃ b rest, String.utf8EncodeChar c = b :: rest ∧ b < 128) ↔ c.utf8Size = 1 := by
  constructor
  · rintro ⟨b, rest, he, hb⟩
    rcases Char.utf8Size_eq c with h1 | h2 | h3 | h4
    · exact h1
    · rw [String.utf8EncodeChar_eq_cons_cons h2] at he
      injection he with h _; subst h
      exact absurd hb (by have := or_c0_ge (c.val >>> 6).toUInt8; exact UInt8.not_lt.mpr this)
    · rw [String.utf8EncodeChar_eq_cons_cons_cons h3] at he
      injection he with h _; subst h
      exact absurd hb (by have := or_e0_ge (c.val >>> 12).toUInt8; exact UInt8.not_lt.mpr this)
    · rw [String.utf8EncodeChar_eq_cons_cons_cons_cons h4] at he
      injection he with h _; subst h
      exact absurd hb (by have := or_f0_ge (c.val >>> 18).toUInt8; exact UInt8.not_lt.mpr this)
  · intro h
    refine ⟨c.val.toUInt8, [], String.utf8EncodeChar_eq_singleton h, ?_⟩
    have hv : c.val ≤ 127 := Char.utf8Size_eq_one_iff.mp h
    have h1 : c.val.toUInt8.toNat = c.val.toNat % 2 ^ 8 := UInt32.toNat_toUInt8 _
    have h2 : c.val.toNat ≤ 127 := UInt32.le_iff_toNat_le.mp hv
    rw [UInt8.lt_iff_toNat_lt, h1]
    show c.val.toNat % 2 ^ 8 < 128
    omega

/-- advancing one byte from a boundary whose byte is ASCII lands on a boundary (all ASCII fast paths) -/
theorem boundary_succ_of_ascii (cs : List Char) (off : Nat) (hb : IsBoundary cs off)
    (b : UInt8) (hget : (enc cs)[off]? = some b) (hlt : b < 128) : IsBoundary cs (off + 1) := by
  obtain ⟨k, hk, rfl⟩ := hb
  have hsplit : enc cs = enc (cs.take k) ++ enc (cs.drop k) := by
    rw [← enc_append, List.take_append_drop]
  rw [hsplit, List.getElem?_append_right (Nat.le_refl _)] at hget
  simp only [Nat.sub_self] at hget
  cases hd : cs.drop k with
  | nil => rw [hd] at hget; simp [enc] at hget
  | cons c rest =>
    rw [hd, enc_cons] at hget
    have hne : String.utf8EncodeChar c ≠ [] := by
      intro h
      have h1 := String.length_utf8EncodeChar c
      rw [h] at h1
      have h2 := Char.utf8Size_pos c
      simp at h1; omega
    obtain ⟨b0, r0, hb0⟩ := List.exists_cons_of_ne_nil hne
    rw [hb0] at hget
    simp at hget
    subst hget
    have h1 : c.utf8Size = 1 := (head_lt_128_iff c).mp ⟨b0, r0, hb0, hlt⟩
    have hklt : k < cs.length := by
      have : (cs.drop k).length = cs.length - k := List.length_drop ..
      rw [hd] at this; simp at this; omega
    have hck : cs[k]? = some c := by
      have := List.getElem?_drop (xs := cs) (i := k) (j := 0)
      rw [hd] at this; simpa using this.symm
    refine ⟨k + 1, hklt, ?_⟩
    rw [List.take_add_one, hck, enc_append]
    simp [enc, h1]

end Proto
