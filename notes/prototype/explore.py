#!/usr/bin/env python3
"""Throw-away exploratory differential: spec-level reference (from doc/syntax.md) vs real generated parsers.
Not part of the framework."""
import random, sys, os, subprocess, json, itertools
sys.setrecursionlimit(10000)
INF = 99
WS = ' \t\n\x0c\r'

# ---------------- grammar representation ----------------
# expr: ('lit',s) ('ilit',s) ('range',a,b) ('eoi',) ('f',name|None,boxed,typ) ('seq',[..]) ('alt',[..])
#       ('opt',e) ('star',e) ('plus',e) ('not',e) ('and',e) ('grp',e)
# rule: dict(name, kind in struct/string/charrule/unit, flags set, body expr)

def pp(e, top=True):
    k = e[0]
    if k == 'lit': return "'" + e[1] + "'"
    if k == 'ilit': return "i'" + e[1] + "'"
    if k == 'range': return "'%s'..'%s'" % (e[1], e[2])
    if k == 'eoi': return '$'
    if k == 'f':
        n = e[1]
        if n is None: return e[3]
        return '%s:%s%s' % ('@' if n == '_override' else n, '*' if e[2] else '', e[3])
    if k == 'seq': return ' '.join(pp(x, False) for x in e[1])
    if k == 'alt':
        s = ' | '.join(pp(x, True) if x[0] != 'alt' else '(' + pp(x) + ')' for x in e[1])
        return s if top else '(' + s + ')'
    if k == 'opt': return '[' + pp(e[1]) + ']'
    if k == 'star': return '{' + pp(e[1]) + '}'
    if k == 'plus': return '{' + pp(e[1]) + '}+'
    if k in ('not', 'and'):
        inner = pp(e[1], False)
        if e[1][0] == 'seq': inner = '(' + pp(e[1]) + ')'
        return ('!' if k == 'not' else '&') + inner
    if k == 'grp': return '(' + pp(e[1]) + ')'
    if k == 'incl': return '>' + e[1]
    raise ValueError(k)

def rule_text(r):
    ds = ''.join('@%s\n' % f for f in sorted(r['flags']))
    if r['kind'] == 'charrule':
        return '@char\n%s = %s;\n' % (r['name'], ' | '.join(pp(x) for x in r['body'][1]))
    return '%s%s = %s;\n' % (ds, r['name'], pp(r['body']))

# ---------------- static analysis (spec side: documented mapping) ----------------
def occ(g, e, f):
    k = e[0]
    if k == 'f': return (1, 1) if e[1] == f else (0, 0)
    if k in ('lit', 'ilit', 'range', 'eoi', 'not', 'and'): return (0, 0)
    if k == 'seq':
        lo = hi = 0
        for p in e[1]:
            a, b = occ(g, p, f); lo += a; hi = min(INF, hi + b)
        return lo, hi
    if k == 'alt':
        rs = [occ(g, c, f) for c in e[1]]
        return min(r[0] for r in rs), max(r[1] for r in rs)
    if k == 'grp': return occ(g, e[1], f)
    if k == 'incl': return occ(g, g[e[1]]['body'], f)
    if k == 'opt': return 0, occ(g, e[1], f)[1]
    if k == 'star': return 0, (INF if occ(g, e[1], f)[1] > 0 else 0)
    if k == 'plus':
        a, b = occ(g, e[1], f); return a, (INF if b > 0 else 0)

GD = {}
def field_names(e, out):
    k = e[0]
    if k == 'incl': return field_names(GD[e[1]]['body'], out)
    if k == 'f':
        if e[1] is not None and e[1] not in out: out.append(e[1])
    elif k in ('seq', 'alt'):
        for x in e[1]: field_names(x, out)
    elif k in ('opt', 'star', 'plus', 'grp'):
        field_names(e[1], out)
    return out

def field_types(e, f, out):
    k = e[0]
    if k == 'incl': return field_types(GD[e[1]]['body'], f, out)
    if k == 'f':
        if e[1] == f:
            out.setdefault(e[3], False)
            out[e[3]] = out[e[3]] or e[2]
    elif k in ('seq', 'alt'):
        for x in e[1]: field_types(x, f, out)
    elif k in ('opt', 'star', 'plus', 'grp'):
        field_types(e[1], f, out)
    return out

def arity(g, e, f):
    lo, hi = occ(g, e, f)
    if hi >= 2: return 'many'
    return 'one' if lo == 1 else 'opt'

# ---------------- reference semantics ----------------
class Fail(Exception): pass
def spec_lit(t):
    if len(t) == 1: return "ExpectedCharacter { c: '%s' }" % t
    return 'ExpectedString { s: "%s" }' % t

class Ref:
    def __init__(self, g, inp):
        self.g = {r['name']: r for r in g}; self.inp = inp; self.attempts = []; self.steps = 0
        GD.clear(); GD.update(self.g); self.env = {}
        self.boff = [len(inp[:i].encode()) for i in range(len(inp) + 1)]
    def skip(self, p, on):
        if not on: return p
        while p < len(self.inp) and self.inp[p] in WS: p += 1
        return p
    def att(self, p, what): self.attempts.append((p, what))
    # returns (pos, matches) or None
    def ev(self, e, p, ws):
        self.steps += 1
        if self.steps > 200000: raise RecursionError
        k = e[0]; inp = self.inp
        if k == 'lit':
            p = self.skip(p, ws)
            if inp.startswith(e[1], p): return p + len(e[1]), []
            self.att(p, spec_lit(e[1])); return None
        if k == 'ilit':
            p = self.skip(p, ws)
            if inp[p:p + len(e[1])].lower() == e[1].lower() and len(inp) - p >= len(e[1]): return p + len(e[1]), []
            self.att(p, spec_lit(e[1].lower())); return None
        if k == 'range':
            p = self.skip(p, ws)
            if p < len(inp) and e[1] <= inp[p] <= e[2]: return p + 1, []
            self.att(p, "ExpectedCharacterRange { from: '%s', to: '%s' }" % (e[1], e[2])); return None
        if k == 'eoi':
            p = self.skip(p, ws)
            if p >= len(inp): return p, []
            self.att(p, 'ExpectedEoi'); return None
        if k == 'f':
            p = self.skip(p, ws)
            r = self.rule(e[3], p)
            if r is None: return None
            q, v = r
            return q, ([(e[1], e[3], v)] if e[1] is not None else [])
        if k == 'seq':
            ms = []
            for x in e[1]:
                r = self.ev(x, p, ws)
                if r is None: return None
                p, m = r; ms += m
            return p, ms
        if k == 'alt':
            for x in e[1]:
                r = self.ev(x, p, ws)
                if r is not None: return r
            return None
        if k == 'grp': return self.ev(e[1], p, ws)
        if k == 'incl': return self.ev(self.g[e[1]]['body'], p, ws)
        if k == 'opt':
            r = self.ev(e[1], p, ws)
            return r if r is not None else (p, [])
        if k in ('star', 'plus'):
            ms = []; n = 0
            while True:
                r = self.ev(e[1], p, ws)
                if r is None: break
                if r[0] == p: raise RecursionError  # nullable loop
                p, m = r; ms += m; n += 1
            if k == 'plus' and n == 0: return None
            return p, ms
        if k == 'not':
            n = len(self.attempts); r = self.ev(e[1], p, ws); del self.attempts[n:]
            if r is None: return p, []
            self.att(p, 'NegativeLookaheadFailed'); return None
        if k == 'and':
            n = len(self.attempts); r = self.ev(e[1], p, ws)
            if r is None: return None
            del self.attempts[n:]; return p, []
        raise ValueError(k)
    def rule(self, name, p):
        inp = self.inp
        if name == 'char':
            if p < len(inp): return p + 1, ('chr', inp[p])
            self.att(p, 'ExpectedAnyCharacter'); return None
        r = self.g[name]
        if r['kind'] == 'charrule':
            n = len(self.attempts)
            for x in r['body'][1]:
                if x[0] == 'lit': ok = inp.startswith(x[1], p)
                elif x[0] == 'range': ok = p < len(inp) and x[1] <= inp[p] <= x[2]
                if ok: del self.attempts[n:]; return p + 1, ('chr', inp[p])
            del self.attempts[n:]; self.att(p, 'ExpectedCharacterClass { name: "%s" }' % name); return None
        if 'leftrec' in r['flags'] and not getattr(self, '_inbody', False):
            key = (name, p)
            if key in self.env: return self.env[key]
            seed = None
            while True:
                self.env[key] = seed
                self._inbody = True
                try: cand = self.rule_body(name, p)
                finally: self._inbody = False
                if cand is not None and (seed is None or cand[0] > seed[0]): seed = cand; continue
                break
            del self.env[key]
            return seed
        self._inbody = False
        return self.rule_body(name, p)
    def rule_body(self, name, p):
        inp = self.inp
        r = self.g[name]
        self._inbody = False
        ws = 'no_skip_ws' not in r['flags']
        res = self.ev(r['body'], p, ws)
        if res is None: return None
        q, ms = res
        pos = (self.boff[p], self.boff[q]) if 'position' in r['flags'] else None
        if 'string' in r['flags']:
            s = ('str', inp[p:q])
            return q, (('node', name, [('string', s)], pos) if pos else s)
        names = field_names(r['body'], [])
        if names == ['_override']:
            types = field_types(r['body'], '_override', {})
            vals = [(t, v) for (n, t, v) in ms]
            ar = arity(self.g, r['body'], '_override')
            wrapped = [(('variant', t, v) if len(types) > 1 else v) for t, v in vals]
            return q, shape(ar, wrapped)
        fields = []
        for f in names:
            types = field_types(r['body'], f, {})
            vals = [(('variant', t, v) if len(types) > 1 else v) for (n, t, v) in ms if n == f]
            fields.append((f, shape(arity(self.g, r['body'], f), vals)))
        return q, ('node', name, fields, pos)

def shape(ar, vals):
    if ar == 'one':
        assert len(vals) == 1, vals
        return vals[0]
    if ar == 'opt':
        assert len(vals) <= 1
        return ('some', vals[0]) if vals else ('none',)
    return ('vec', vals)

def esc(s, q):
    out = ''
    for c in s:
        if c == '\n': out += '\\n'
        elif c == '\t': out += '\\t'
        elif c == '\r': out += '\\r'
        elif c == '\\': out += '\\\\'
        elif c == q: out += '\\' + c
        elif c == '\x0c': out += '\\u{c}'
        elif c == '\x0b': out += '\\u{b}'
        else: out += c
    return out

def dbg(v):
    k = v[0]
    if k == 'str': return '"' + esc(v[1], '"') + '"'
    if k == 'chr': return "'" + esc(v[1], "'") + "'"
    if k == 'some': return 'Some(' + dbg(v[1]) + ')'
    if k == 'none': return 'None'
    if k == 'vec': return '[' + ', '.join(dbg(x) for x in v[1]) + ']'
    if k == 'variant': return v[1] + '(' + dbg(v[2]) + ')'
    if k == 'node':
        parts = ['%s: %s' % (n, dbg(x)) for n, x in v[2]]
        if v[3]: parts.append('position: %d..%d' % v[3])
        if not parts: return v[1]
        return v[1] + ' { ' + ', '.join(parts) + ' }'
    raise ValueError(v)

# ---------------- generator ----------------
LEAVES = [
    {'name': 'Id', 'kind': 'string', 'flags': {'string', 'no_skip_ws'}, 'body': ('plus', ('range', 'a', 'c'))},
    {'name': 'Num', 'kind': 'string', 'flags': {'string', 'no_skip_ws'}, 'body': ('plus', ('range', '0', '1'))},
    {'name': 'Kw', 'kind': 'unit', 'flags': set(), 'body': ('lit', 'x')},
    {'name': 'Op', 'kind': 'charrule', 'flags': set(), 'body': ('alt', [('lit', '+'), ('range', '0', '0')])},
    {'name': 'PId', 'kind': 'string', 'flags': {'string', 'no_skip_ws', 'position'}, 'body': ('plus', ('range', 'a', 'b'))},
    {'name': 'Sk', 'kind': 'string', 'flags': {'string'}, 'body': ('seq', [('lit', '('), ('star', ('range', 'a', 'c')), ('lit', ')')])},
]
LEAVES.append({'name': 'Uni', 'kind': 'string', 'flags': {'string', 'no_skip_ws', 'position'}, 'body': ('plus', ('alt', [('range', '\u00e1', '\u0171'), ('lit', '\u2700')]))})
LEAFT = ['Id', 'Num', 'Kw', 'Op', 'PId', 'Sk', 'char', 'Uni']
LITS = ['a', 'b', 'x', '(', ')', ',', '+', 'ab', '0', 'xx', '\u00e9', '\u2700b', '\U0001F600']

def first_consuming(e):
    """conservative: can e succeed without consuming? True if surely consumes"""
    k = e[0]
    if k in ('lit', 'ilit', 'range'): return True
    if k == 'f': return True   # all leaf/struct rules here consume (ensured by construction)
    if k == 'incl': return True
    if k in ('eoi', 'not', 'and', 'opt', 'star'): return False
    if k == 'plus' or k == 'grp': return first_consuming(e[1])
    if k == 'seq': return any(first_consuming(x) for x in e[1])
    if k == 'alt': return all(first_consuming(x) for x in e[1])

def gen_expr(rng, d, fields, subrules, allow_fields=True):
    ks = ['lit'] * 3 + ['ilit', 'range', 'f', 'f', 'f', 'ref'] + (['incl'] if INCL[0] else [])
    if d > 0: ks += ['seq'] * 4 + ['alt'] * 3 + ['opt'] * 2 + ['star', 'plus', 'not', 'and', 'grp']
    k = rng.choice(ks)
    if k == 'incl': return ('incl', rng.choice(INCL[0])) if allow_fields else ('lit', 'a')
    if k == 'lit': return ('lit', rng.choice(LITS))
    if k == 'ilit': return ('ilit', rng.choice(['a', 'AB', 'xA']))
    if k == 'range': return ('range', 'a', rng.choice('bc'))
    if k == 'ref': return ('f', None, False, rng.choice(LEAFT + subrules))
    if k == 'f':
        if not allow_fields: return ('lit', rng.choice(LITS))
        return ('f', rng.choice(fields), rng.random() < 0.2, rng.choice(LEAFT + subrules))
    if k in ('seq', 'alt'):
        n = rng.randint(2, 3) if k == 'seq' else rng.randint(2, 3)
        xs = [gen_expr(rng, d - 1, fields, subrules, allow_fields) for _ in range(n)]
        if k == 'alt' and rng.random() < 0.15: xs.append(('seq', []))
        return (k, xs)
    if k in ('not', 'and'): return (k, gen_expr(rng, d - 1, fields, subrules, False))
    if k in ('star', 'plus'):
        for _ in range(20):
            b = gen_expr(rng, d - 1, fields, subrules, allow_fields)
            if first_consuming(b): return (k, b)
        return (k, ('lit', 'a'))
    return (k, gen_expr(rng, d - 1, fields, subrules, allow_fields))

def consuming_rule_body(rng, d, fields, subrules):
    for _ in range(50):
        b = gen_expr(rng, d, fields, subrules)
        if first_consuming(b) and b[0] in ('seq', 'alt'): return b
    return ('seq', [('lit', 'a'), ('f', 'f0', False, 'Id')])

INCL = [[]]
KIND = {}
def gen_override(rng, name, subs):
    ts = rng.sample(['Id', 'Num', 'Kw', 'PId', 'Uni', 'char'] + subs, rng.randint(1, 3))
    arms = []
    for t in ts:
        pre = [('lit', rng.choice(LITS))] if rng.random() < 0.5 else []
        post = [('lit', rng.choice(LITS))] if rng.random() < 0.3 else []
        arms.append(('seq', pre + [('f', '_override', rng.random() < 0.3, t)] + post))
    body = ('alt', arms) if len(arms) > 1 else arms[0]
    fl = set()
    if rng.random() < 0.3: fl.add('memoize')
    return {'name': name, 'kind': 'ovr', 'flags': fl, 'body': body}

def gen_grammar(rng):
    rules = []
    n = rng.randint(1, 4)
    names = ['R%d' % i for i in range(n)]
    KIND.clear()
    for i in reversed(range(n)):
        subs = names[i + 1:]
        flags = set()
        if rng.random() < 0.5: flags.add('position')
        if rng.random() < 0.25: flags.add('no_skip_ws')
        if i == 0: flags.add('export')
        elif rng.random() < 0.3: flags.add('memoize')
        INCL[0] = [x for x in names[i + 1:] if KIND.get(x) == 'struct']
        if i > 0 and rng.random() < 0.35:
            rules.append(gen_override(rng, names[i], subs)); KIND[names[i]] = 'ovr'; continue
        KIND[names[i]] = 'struct'
        body = consuming_rule_body(rng, 3 if i == 0 else 2, ['f0', 'f1', 'f2'][:rng.randint(1, 3)], subs)
        rules.append({'name': names[i], 'kind': 'struct', 'flags': flags, 'body': body})
    rules.reverse()
    return rules + LEAVES

def gen_leftrec_grammar(rng):
    ops = rng.sample(['+', ',', 'x', 'ab', '\u00e9'], 3)
    def fl(extra=()):
        f = set(extra)
        if rng.random() < 0.4: f.add('position')
        if rng.random() < 0.2: f.add('no_skip_ws')
        return f
    two = rng.random() < 0.6
    T = 'T' if two else 'A'
    e_arms = [('seq', [('f', 'l', True, 'E'), ('lit', ops[0]), ('f', 'r', False, T)])]
    if rng.random() < 0.5: e_arms.append(('seq', [('f', 'l', True, 'E'), ('lit', ops[1]), ('f', 'r', False, T)]))
    if rng.random() < 0.2: e_arms.append(('seq', [('f', 'l', True, 'E'), ('not', ('lit', ops[1])), ('f', 'r', False, T)]))
    base = ('f', 't', False, T)
    if rng.random() < 0.15: base = ('seq', [('not', ('f', None, False, 'E')), ('f', 't', False, T)])
    if rng.random() < 0.75: e_arms.append(base)
    else: e_arms.insert(rng.randrange(len(e_arms) + 1), base)
    rules = []
    style = rng.random()
    if style < 0.5:
        rules.append({'name': 'E', 'kind': 'struct', 'flags': fl({'leftrec'}), 'body': ('alt', e_arms)})
    else:
        # calculator style: enum override over helper rules
        rules.append({'name': 'E', 'kind': 'ovr', 'flags': {'leftrec'}, 'body': ('alt', [('f', '_override', False, 'Bin'), ('f', '_override', False, T)] if rng.random() < 0.8 else [('f', '_override', False, T), ('f', '_override', False, 'Bin')])})
        rules.append({'name': 'Bin', 'kind': 'struct', 'flags': fl(), 'body': ('seq', [('f', 'l', True, 'E'), ('lit', ops[0]), ('f', 'r', False, T)])})
    if two:
        t_arms = [('seq', [('f', 'l', True, 'T'), ('lit', ops[2]), ('f', 'r', False, 'A')]), ('f', 'a', False, 'A')]
        if rng.random() < 0.2: t_arms.reverse()
        tf = fl({'leftrec'}) if rng.random() < 0.8 else fl()
        if 'leftrec' not in tf: t_arms = [('seq', [('f', 'a', False, 'A'), ('star', ('seq', [('lit', ops[2]), ('f', 'r', False, 'A')]))])]
        rules.append({'name': 'T', 'kind': 'struct', 'flags': tf, 'body': ('alt', t_arms) if len(t_arms) > 1 else t_arms[0]})
    af = fl({'memoize'}) if rng.random() < 0.5 else fl()
    rules.append({'name': 'A', 'kind': 'struct', 'flags': af, 'body': ('alt', [('f', 'n', False, 'Num'), ('seq', [('lit', '('), ('f', 'e', True, 'E'), ('lit', ')')]), ('f', 'i', False, 'Id')])})
    r0 = ('seq', [('f', 'e', False, 'E')] + ([('eoi',)] if rng.random() < 0.5 else []))
    if rng.random() < 0.3: r0 = ('alt', [('seq', [('f', 'e', False, 'E'), ('lit', ops[1])]), ('seq', [('f', 'e', False, 'E'), ('lit', ops[0])]), r0])
    g = [{'name': 'R0', 'kind': 'struct', 'flags': {'export'}, 'body': r0}] + rules + LEAVES
    g[0]['_ops'] = ops
    return g

def gen_leftrec_inputs(rng, g, n):
    ops = g[0]['_ops']; outs = set()
    for _ in range(n):
        k = rng.randint(0, 5); s = ''
        for i in range(k):
            s += rng.choice(['1', '0', 'a', 'b', '(1)', '(a' + ops[0] + '1)', '10']) + rng.choice(['', ' '])
            if i < k - 1 or rng.random() < 0.3: s += rng.choice(ops + ops + ['', '+']) + rng.choice(['', ' '])
        outs.add(s)
    return sorted(outs)

def gen_inputs(rng, g, n):
    outs = set()
    alpha = 'aabbcx01(),+ \n\tAB\u00e9\u0171\u2700\U0001F600'
    for _ in range(n):
        L = rng.randint(0, 8)
        outs.add(''.join(rng.choice(alpha) for _ in range(L)))
    return sorted(outs)

def derive(rng, g, e, depth=0):
    """random string likely matching e"""
    G = {r['name']: r for r in g}
    k = e[0]
    sp = rng.choice(['', '', ' ', '\n'])
    if k == 'lit': return sp + e[1]
    if k == 'ilit': return sp + ''.join(rng.choice([c.lower(), c.upper()]) for c in e[1])
    if k == 'range': return sp + rng.choice([c for c in 'abc01\u00e9\u0171' if e[1] <= c <= e[2]] or [e[1]])
    if k == 'eoi': return ''
    if k == 'f':
        t = e[3]
        if t == 'char': return sp + rng.choice('abx\u00e9\U0001F600')
        r = G[t]
        if r['kind'] == 'charrule': return sp + rng.choice('+0')
        return sp + derive(rng, g, r['body'], depth + 1)
    if k == 'seq': return ''.join(derive(rng, g, x, depth) for x in e[1])
    if k == 'alt': return derive(rng, g, rng.choice(e[1]), depth)
    if k == 'grp': return derive(rng, g, e[1], depth)
    if k == 'opt': return derive(rng, g, e[1], depth) if rng.random() < 0.6 else ''
    if k in ('star', 'plus'):
        n = rng.randint(0 if k == 'star' else 1, 3)
        return ''.join(derive(rng, g, e[1], depth) for _ in range(n))
    if k in ('not', 'and'): return ''
    if k == 'incl': return derive(rng, g, G[e[1]]['body'], depth + 1)
    return ''

def valid_types(g):
    """reject grammars whose types would be invalid (here: no recursion, so only same-named field/position clashes)"""
    return True

MODE = os.environ.get('MODE', '')
def main():
    seed = int(sys.argv[1]); N = int(sys.argv[2]); out = sys.argv[3]
    rng = random.Random(seed)
    os.makedirs(out + '/src', exist_ok=True)
    cases = []
    cli = '/tmp/scratch/tgt/debug/peginator-cli'
    i = 0
    while len(cases) < N:
        i += 1
        g = gen_leftrec_grammar(rng) if MODE == 'leftrec' else gen_grammar(rng)
        text = ''.join(rule_text(r) for r in g)
        open(out + '/g.ebnf', 'w').write(text)
        p = subprocess.run([cli, out + '/g.ebnf'], capture_output=True, text=True)
        if p.stdout.startswith('\x1b') or 'Error' in p.stdout[:40] or p.returncode != 0:
            print('GENFAIL', p.stdout[:300].replace('\n', ' | '), '\n', text); continue
        inputs = gen_inputs(rng, g, 12) if MODE != 'leftrec' else gen_leftrec_inputs(rng, g, 40)
        for _ in range(14 if MODE != 'leftrec' else 0):
            s = derive(rng, g, g[0]['body'])
            inputs.append(s)
            if s and rng.random() < 0.7:
                j = rng.randrange(len(s));
                inputs.append(s[:j] + rng.choice(['', ' ', 'a', 'x', '\t']) + s[j + 1:])
        inputs = sorted(set(inputs))
        idx = len(cases)
        open(out + '/src/case_%d.rs' % idx, 'w').write(p.stdout)
        cases.append({'g': g, 'text': text, 'inputs': inputs})
    # main.rs
    m = ['#![allow(warnings)]', 'use peginator::PegParser;']
    for idx in range(len(cases)): m.append('mod case_%d;' % idx)
    m.append('fn main(){ let cases: Vec<Vec<String>> = serde_free::load(); ')
    m.append('  for (ci, inputs) in cases.iter().enumerate() { for (ii, inp) in inputs.iter().enumerate() { let r = std::panic::catch_unwind(|| match ci {')
    for idx in range(len(cases)):
        m.append('    %d => match case_%d::R0::parse(inp) { Ok(v) => format!("OK {:?}", v), Err(e) => format!("ERR {} {:?}", e.position, e.specifics) },' % (idx, idx))
    m.append('    _ => unreachable!() }); println!("{} {} {}", ci, ii, r.unwrap_or_else(|_| "PANIC".into())); } } }')
    m.append('mod serde_free { pub fn load() -> Vec<Vec<String>> { let s = std::fs::read_to_string("inputs.txt").unwrap(); s.lines().map(|l| l.split(\'|\').skip(1).map(|h| String::from_utf8((0..h.len()/2).map(|i| u8::from_str_radix(&h[2*i..2*i+2],16).unwrap()).collect()).unwrap()).collect()).collect() } }')
    open(out + '/src/main.rs', 'w').write('\n'.join(m))
    with open(out + '/inputs.txt', 'w') as f:
        for c in cases: f.write('c|' + '|'.join(x.encode().hex() for x in c['inputs']) + '\n')
    open(out + '/Cargo.toml', 'w').write('[package]\nname="explore"\nversion="0.0.0"\nedition="2021"\n[workspace]\n[dependencies]\npeginator={path="/repo/runtime"}\n[profile.dev]\ndebug=0\n')
    subprocess.run(['cp', '/repo/Cargo.lock', out + '/Cargo.lock'])
    import pickle; pickle.dump(cases, open(out + '/cases.pkl', 'wb'))
    print('generated', len(cases), 'cases after', i, 'attempts')

def compare():
    out = sys.argv[2]
    import pickle; cases = pickle.load(open(out + '/cases.pkl', 'rb'))
    res = {}
    for line in open(out + '/impl.txt', encoding='utf-8', errors='replace'):
        line = line.rstrip('\n')
        a, b, rest = line.split(' ', 2)
        res[(int(a), int(b))] = rest
    tot = acc = mism = 0; kinds = {}; SPEC = [0, 0]
    for ci, c in enumerate(cases):
        for ii, inp in enumerate(c['inputs']):
            ref = Ref(c['g'], inp)
            try:
                r = ref.rule('R0', 0)
            except RecursionError:
                continue
            except AssertionError as ex:
                exp = 'SPEC-ASSERT %s' % (ex,)
                r = 'assert'
            tot += 1
            if r == 'assert': pass
            elif r is None:
                mx = ref.boff[max(p for p, _ in ref.attempts)]
                exp = 'ERR %d' % mx
                expspec = [w for q, w in ref.attempts if ref.boff[q] == mx][-1]
                SPEC[0] += 1
                gotfull = res.get((ci, ii), '')
                if gotfull.startswith('ERR %d ' % mx) and gotfull.split(' ', 2)[2] != expspec and '@leftrec' not in c['text'] and '@memoize' not in c['text']:
                    SPEC[1] += 1
                    if SPEC[1] <= 5: print('SPECIFICS differ:', repr(inp), 'spec', expspec, 'impl', gotfull); print(c['text'].split('@no_skip_ws\n@string\nId')[0])
            else:
                acc += 1
                exp = 'OK ' + dbg(r[1])
            got = res.get((ci, ii), 'MISSING')
            g2 = got
            if got.startswith('ERR'): g2 = ' '.join(got.split(' ')[:2])
            if '@leftrec' in c['text'] and exp.startswith('ERR') and g2.startswith('ERR'): g2 = exp
            if g2 != exp:
                mism += 1
                key = (exp.split(' ')[0], g2.split(' ')[0])
                kinds[key] = kinds.get(key, 0) + 1
                if kinds[key] <= 4:
                    print('---- MISMATCH case', ci, 'input', repr(inp)); print(c['text'].split('@char')[0].split('@no_skip_ws\n@string\nId')[0]); print(' spec:', exp); print(' impl:', got)
    print('total', tot, 'accepted', acc, 'mismatches', mism, kinds, 'rejected', SPEC[0], 'specifics differing (non-memo grammars)', SPEC[1])

if __name__ == '__main__':
    if sys.argv[1] == 'compare': compare()
    else: main()
