import itertools, sys
ONE, OPT, MUL = 1, 2, 3
INF = 99
def comb_choice(l, r):
    return max(l, r)  # table in choice.rs is max on One<Optional<Multiple (checked by reading)
# expression forms: ('f',name) ('seq',[..]) ('alt',[..]) ('opt',e) ('star',e) ('plus',e) ('tok',)
def get_fields(e):
    k = e[0]
    if k == 'f': return [(e[1], ONE)]
    if k == 'tok': return []
    if k == 'seq':
        out = []
        for p in e[1]:
            for (n, a) in get_fields(p):
                for i, (n2, a2) in enumerate(out):
                    if n2 == n:
                        out[i] = (n, MUL); break
                else:
                    out.append((n, a))
        return out
    if k == 'alt':
        allf = []; first = True
        for c in e[1]:
            new = get_fields(c)
            if not first:
                for i, (n, a) in enumerate(allf):
                    if a == ONE and not any(n2 == n for n2, _ in new):
                        allf[i] = (n, OPT)
            for (n, a) in new:
                for i, (n2, a2) in enumerate(allf):
                    if n2 == n:
                        allf[i] = (n, comb_choice(a2, a)); break
                else:
                    if first or a != ONE: allf.append((n, a))
                    else: allf.append((n, OPT))
            first = False
        return allf
    if k == 'opt': return [(n, OPT if a == ONE else a) for n, a in get_fields(e[1])]
    if k in ('star', 'plus'): return [(n, MUL) for n, a in get_fields(e[1])]
def occ(e, f):
    k = e[0]
    if k == 'f': return (1, 1) if e[1] == f else (0, 0)
    if k == 'tok': return (0, 0)
    if k == 'seq':
        lo = hi = 0
        for p in e[1]:
            a, b = occ(p, f); lo += a; hi = min(INF, hi + b)
        return lo, hi
    if k == 'alt':
        rs = [occ(c, f) for c in e[1]]
        return min(r[0] for r in rs), max(r[1] for r in rs)
    if k == 'opt':
        a, b = occ(e[1], f); return 0, b
    if k == 'star':
        a, b = occ(e[1], f); return 0, (INF if b > 0 else 0)
    if k == 'plus':
        a, b = occ(e[1], f); return a, (INF if b > 0 else 0)
def classify(lo, hi):
    if hi == 0: return None
    if hi >= 2: return MUL
    return ONE if lo == 1 else OPT
def gen(d):
    yield ('tok',); yield ('f', 'a'); yield ('f', 'b')
    if d == 0: return
    subs = list(gen(d - 1))
    for s in subs:
        yield ('opt', s); yield ('star', s); yield ('plus', s)
    for n in (0, 1, 2, 3):
        for c in itertools.product(subs, repeat=n):
            if n <= 2 or d <= 1:
                yield ('seq', list(c))
                if n >= 1: yield ('alt', list(c))
bad = 0; total = 0; kinds = {}
for e in gen(2):
    total += 1
    gf = dict(get_fields(e))
    for f in ('a', 'b'):
        c = classify(*occ(e, f))
        if gf.get(f) != c:
            bad += 1
            key = (gf.get(f), c)
            if kinds.setdefault(key, 0) < 3: print("MISMATCH", e, f, "get_fields", gf.get(f), "classify", c, occ(e, f))
            kinds[key] += 1
print(total, "exprs;", bad, "mismatches", kinds)
