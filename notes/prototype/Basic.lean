/-! Scratch prototype: calibrating the PEG model / proof style. -/
namespace Proto

abbrev Name := String

inductive Expr where
  | lit (s : List Char)
  | range (lo hi : Char)
  | eoi
  | call (r : Name)
  | seq (es : List Expr)
  | alt (es : List Expr)
  | opt (e : Expr)
  | star (e : Expr)
  | plus (e : Expr)
  | notp (e : Expr)
  | andp (e : Expr)
deriving Repr, Inhabited

structure Grammar where
  rules : List (Name × Expr)

def Grammar.find (g : Grammar) (n : Name) : Option Expr :=
  (g.rules.find? (·.1 == n)).map (·.2)

/-- input is a list of chars; position = index into it (char-level in this prototype) -/
abbrev Input := List Char

/-- textbook PEG semantics: outcome none = fail, some k = success consuming up to absolute pos k -/
inductive Sem (g : Grammar) (inp : Input) : Expr → Nat → Option Nat → Prop where
  | lit_ok {s p} : (inp.drop p).take s.length = s → Sem g inp (.lit s) p (some (p + s.length))
  | lit_fail {s p} : (inp.drop p).take s.length ≠ s → Sem g inp (.lit s) p none
  | range_ok {lo hi p c} : inp[p]? = some c → lo ≤ c → c ≤ hi → Sem g inp (.range lo hi) p (some (p+1))
  | range_fail_eoi {lo hi p} : inp[p]? = none → Sem g inp (.range lo hi) p none
  | range_fail {lo hi p c} : inp[p]? = some c → ¬ (lo ≤ c ∧ c ≤ hi) → Sem g inp (.range lo hi) p none
  | eoi_ok {p} : inp.length ≤ p → Sem g inp .eoi p (some p)
  | eoi_fail {p} : p < inp.length → Sem g inp .eoi p none
  | call {r e p o} : g.find r = some e → Sem g inp e p o → Sem g inp (.call r) p o
  | seq_nil {p} : Sem g inp (.seq []) p (some p)
  | seq_cons_ok {e es p q o} : Sem g inp e p (some q) → Sem g inp (.seq es) q o → Sem g inp (.seq (e :: es)) p o
  | seq_cons_fail {e es p} : Sem g inp e p none → Sem g inp (.seq (e :: es)) p none
  | alt_nil {p} : Sem g inp (.alt []) p none
  | alt_cons_ok {e es p q} : Sem g inp e p (some q) → Sem g inp (.alt (e :: es)) p (some q)
  | alt_cons_fail {e es p o} : Sem g inp e p none → Sem g inp (.alt es) p o → Sem g inp (.alt (e :: es)) p o
  | opt_ok {e p q} : Sem g inp e p (some q) → Sem g inp (.opt e) p (some q)
  | opt_fail {e p} : Sem g inp e p none → Sem g inp (.opt e) p (some p)
  | star_stop {e p} : Sem g inp e p none → Sem g inp (.star e) p (some p)
  | star_step {e p q o} : Sem g inp e p (some q) → Sem g inp (.star e) q o → Sem g inp (.star e) p o
  | plus_fail {e p} : Sem g inp e p none → Sem g inp (.plus e) p none
  | plus_step {e p q o} : Sem g inp e p (some q) → Sem g inp (.star e) q o → Sem g inp (.plus e) p o
  | notp_ok {e p} : Sem g inp e p none → Sem g inp (.notp e) p (some p)
  | notp_fail {e p q} : Sem g inp e p (some q) → Sem g inp (.notp e) p none
  | andp_ok {e p q} : Sem g inp e p (some q) → Sem g inp (.andp e) p (some p)
  | andp_fail {e p} : Sem g inp e p none → Sem g inp (.andp e) p none

/-- "implementation-like" state: position + farthest error position -/
structure St where
  pos : Nat
  far : Option Nat
deriving Repr, DecidableEq

def St.record (s : St) (e : Nat) : St :=
  match s.far with
  | some f => if f ≤ e then { s with far := some e } else s
  | none => { s with far := some e }

def St.report (s : St) : Nat := (s.record s.pos).far.getD s.pos
def St.farthest (s : St) : Nat := s.far.getD s.pos

abbrev Res := Except Nat St  -- error carries farthest error position

def evalSeq (ev : Expr → St → Option Res) : List Expr → St → Option Res
  | [], s => some (.ok s)
  | e :: es, s =>
    match ev e s with
    | none => none
    | some (.error x) => some (.error x)
    | some (.ok s') => evalSeq ev es s'

def evalAlt (ev : Expr → St → Option Res) : List Expr → St → Option Res
  | [], s => some (.error s.farthest)
  | e :: es, s =>
    match ev e s with
    | none => none
    | some (.ok s') => some (.ok s')
    | some (.error x) => evalAlt ev es (s.record x)

def evalStar (ev : St → Option Res) : Nat → St → Option Res
  | 0, _ => none
  | n+1, s =>
    match ev s with
    | none => none
    | some (.error x) => some (.ok (s.record x))
    | some (.ok s') => evalStar ev n s'

def step (g : Grammar) (inp : Input) (rec : Expr → St → Option Res) (n : Nat) (e : Expr) (s : St) : Option Res :=
    match e with
    | .lit l =>
      if (inp.drop s.pos).take l.length = l then some (.ok { s with pos := s.pos + l.length })
      else some (.error s.report)
    | .range lo hi =>
      match inp[s.pos]? with
      | none => some (.error s.report)
      | some c => if lo ≤ c ∧ c ≤ hi then some (.ok { s with pos := s.pos + 1 }) else some (.error s.report)
    | .eoi => if inp.length ≤ s.pos then some (.ok s) else some (.error s.report)
    | .call r =>
      match g.find r with
      | none => none
      | some e' => rec e' s
    | .seq es => evalSeq rec es s
    | .alt es => evalAlt rec es s
    | .opt e' =>
      match rec e' s with
      | none => none
      | some (.ok s') => some (.ok s')
      | some (.error x) => some (.ok (s.record x))
    | .star e' => evalStar (rec e') n s
    | .plus e' =>
      match rec e' s with
      | none => none
      | some (.error x) => some (.error (s.record x).farthest)
      | some (.ok s') => evalStar (rec e') n s'
    | .notp e' =>
      match rec e' s with
      | none => none
      | some (.ok _) => some (.error s.report)
      | some (.error _) => some (.ok s)
    | .andp e' =>
      match rec e' s with
      | none => none
      | some (.ok _) => some (.ok s)
      | some (.error x) => some (.error x)

def eval (g : Grammar) (inp : Input) : Nat → Expr → St → Option Res
  | 0 => fun _ _ => none
  | n+1 => step g inp (eval g inp n) n

def Res.out : Res → Option Nat
  | .ok s => some s.pos
  | .error _ => none

@[simp] theorem record_pos (s : St) (x : Nat) : (s.record x).pos = s.pos := by
  unfold St.record; split <;> (try split) <;> rfl

theorem evalSeq_sound {g inp} (ev : Expr → St → Option Res)
    (h : ∀ e s r, ev e s = some r → Sem g inp e s.pos r.out) :
    ∀ es s r, evalSeq ev es s = some r → Sem g inp (.seq es) s.pos r.out := by
  intro es
  induction es with
  | nil => intro s r hr; simp [evalSeq] at hr; subst hr; exact .seq_nil
  | cons e es ih =>
    intro s r hr
    simp only [evalSeq] at hr
    split at hr
    · cases hr
    · next x hx => cases hr; exact .seq_cons_fail (h _ _ _ hx)
    · next s' hx => exact .seq_cons_ok (h _ _ _ hx) (ih _ _ hr)

theorem evalAlt_sound {g inp} (ev : Expr → St → Option Res)
    (h : ∀ e s r, ev e s = some r → Sem g inp e s.pos r.out) :
    ∀ es s r, evalAlt ev es s = some r → Sem g inp (.alt es) s.pos r.out := by
  intro es
  induction es with
  | nil => intro s r hr; simp [evalAlt] at hr; subst hr; exact .alt_nil
  | cons e es ih =>
    intro s r hr
    simp only [evalAlt] at hr
    split at hr
    · cases hr
    · next s' hx => cases hr; exact .alt_cons_ok (h _ _ _ hx)
    · next x hx =>
      have := ih _ _ hr
      simp at this
      exact .alt_cons_fail (h _ _ _ hx) this

theorem evalStar_sound {g inp} (e : Expr) (ev : St → Option Res)
    (h : ∀ s r, ev s = some r → Sem g inp e s.pos r.out) :
    ∀ n s r, evalStar ev n s = some r → Sem g inp (.star e) s.pos r.out := by
  intro n
  induction n with
  | zero => intro s r hr; simp [evalStar] at hr
  | succ n ih =>
    intro s r hr
    simp only [evalStar] at hr
    split at hr
    · cases hr
    · next x hx => cases hr; simpa [Res.out] using Sem.star_stop (h _ _ hx)
    · next s' hx => exact .star_step (h _ _ hx) (ih _ _ hr)

theorem step_sound (g : Grammar) (inp : Input) (rec : Expr → St → Option Res) (n : Nat)
    (ih : ∀ e s r, rec e s = some r → Sem g inp e s.pos r.out) :
    ∀ e s r, step g inp rec n e s = some r → Sem g inp e s.pos r.out := by
    intro e s r h
    cases e with
    | lit l =>
      simp only [step] at h
      split at h <;> cases h
      · exact .lit_ok ‹_›
      · exact .lit_fail ‹_›
    | range lo hi =>
      simp only [step] at h
      split at h
      · cases h; exact .range_fail_eoi ‹_›
      · split at h <;> cases h
        · next hc => exact .range_ok ‹_› hc.1 hc.2
        · exact .range_fail ‹_› ‹_›
    | eoi =>
      simp only [step] at h
      split at h <;> cases h
      · exact .eoi_ok ‹_›
      · exact .eoi_fail (by omega)
    | call r =>
      simp only [step] at h
      split at h
      · cases h
      · exact .call ‹_› (ih _ _ _ h)
    | seq es => exact evalSeq_sound _ (ih) _ _ _ (by simpa [step] using h)
    | alt es => exact evalAlt_sound _ (ih) _ _ _ (by simpa [step] using h)
    | opt e' =>
      simp only [step] at h
      split at h
      · cases h
      · next s' hx => cases h; exact .opt_ok (ih _ _ _ hx)
      · next x hx => cases h; simpa [Res.out] using Sem.opt_fail (ih _ _ _ hx)
    | star e' =>
      simp only [step] at h
      exact evalStar_sound e' _ (fun s r => ih e' s r) _ _ _ h
    | plus e' =>
      simp only [step] at h
      split at h
      · cases h
      · next x hx => cases h; exact .plus_fail (ih _ _ _ hx)
      · next s' hx => exact .plus_step (ih _ _ _ hx) (evalStar_sound e' _ (fun s r => ih e' s r) _ _ _ h)
    | notp e' =>
      simp only [step] at h
      split at h
      · cases h
      · next s' hx => cases h; exact .notp_fail (ih _ _ _ hx)
      · next x hx => cases h; exact .notp_ok (ih _ _ _ hx)
    | andp e' =>
      simp only [step] at h
      split at h
      · cases h
      · next s' hx => cases h; exact .andp_ok (ih _ _ _ hx)
      · next x hx => cases h; exact .andp_fail (ih _ _ _ hx)

theorem eval_sound (g : Grammar) (inp : Input) :
    ∀ n e s r, eval g inp n e s = some r → Sem g inp e s.pos r.out := by
  intro n
  induction n with
  | zero => intro e s r h; simp [eval] at h
  | succ n ih => exact step_sound g inp _ n ih

end Proto
