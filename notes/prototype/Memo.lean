import Proto.Basic
namespace Proto

abbrev Cache := List ((Name × Nat) × Res)
abbrev RC := Res × Cache

def seqM (ev : Expr → St → Cache → Option RC) : List Expr → St → Cache → Option RC
  | [], s, c => some (.ok s, c)
  | e :: es, s, c =>
    match ev e s c with
    | none => none
    | some (.error x, c') => some (.error x, c')
    | some (.ok s', c') => seqM ev es s' c'

def altM (ev : Expr → St → Cache → Option RC) : List Expr → St → Cache → Option RC
  | [], s, c => some (.error s.farthest, c)
  | e :: es, s, c =>
    match ev e s c with
    | none => none
    | some (.ok s', c') => some (.ok s', c')
    | some (.error x, c') => altM ev es (s.record x) c'

def starM (ev : St → Cache → Option RC) : Nat → St → Cache → Option RC
  | 0, _, _ => none
  | n+1, s, c =>
    match ev s c with
    | none => none
    | some (.error x, c') => some (.ok (s.record x), c')
    | some (.ok s', c') => starM ev n s' c'

def stepM (g : Grammar) (memo : Name → Bool) (inp : Input)
    (rec : Expr → St → Cache → Option RC) (n : Nat) (e : Expr) (s : St) (c : Cache) : Option RC :=
  match e with
  | .lit l =>
    if (inp.drop s.pos).take l.length = l then some (.ok { s with pos := s.pos + l.length }, c)
    else some (.error s.report, c)
  | .range lo hi =>
    match inp[s.pos]? with
    | none => some (.error s.report, c)
    | some ch => if lo ≤ ch ∧ ch ≤ hi then some (.ok { s with pos := s.pos + 1 }, c) else some (.error s.report, c)
  | .eoi => if inp.length ≤ s.pos then some (.ok s, c) else some (.error s.report, c)
  | .call r =>
    match g.find r with
    | none => none
    | some e' =>
      if memo r then
        match c.lookup (r, s.pos) with
        | some res => some (res, c)                       -- cache hit: stale `far`, as in the code
        | none =>
          match rec e' s c with
          | none => none
          | some (res, c') => some (res, ((r, s.pos), res) :: c')
      else rec e' s c
  | .seq es => seqM rec es s c
  | .alt es => altM rec es s c
  | .opt e' =>
    match rec e' s c with
    | none => none
    | some (.ok s', c') => some (.ok s', c')
    | some (.error x, c') => some (.ok (s.record x), c')
  | .star e' => starM (rec e') n s c
  | .plus e' =>
    match rec e' s c with
    | none => none
    | some (.error x, c') => some (.error (s.record x).farthest, c')
    | some (.ok s', c') => starM (rec e') n s' c'
  | .notp e' =>
    match rec e' s c with
    | none => none
    | some (.ok _, c') => some (.error s.report, c')
    | some (.error _, c') => some (.ok s, c')
  | .andp e' =>
    match rec e' s c with
    | none => none
    | some (.ok _, c') => some (.ok s, c')
    | some (.error x, c') => some (.error x, c')

def evalM (g : Grammar) (memo : Name → Bool) (inp : Input) : Nat → Expr → St → Cache → Option RC
  | 0 => fun _ _ _ => none
  | n+1 => stepM g memo inp (evalM g memo inp n) n

/-- every cached entry is a PEG-derivable outcome of that rule at that offset -/
def CacheOk (g : Grammar) (inp : Input) (c : Cache) : Prop :=
  ∀ r p res, c.lookup (r, p) = some res → Sem g inp (.call r) p res.out

def SoundM (g : Grammar) (inp : Input) (ev : Expr → St → Cache → Option RC) : Prop :=
  ∀ e s c r c', CacheOk g inp c → ev e s c = some (r, c') → Sem g inp e s.pos r.out ∧ CacheOk g inp c'

theorem seqM_sound {g inp ev} (h : SoundM g inp ev) :
    ∀ es s c r c', CacheOk g inp c → seqM ev es s c = some (r, c') →
      Sem g inp (.seq es) s.pos r.out ∧ CacheOk g inp c' := by
  intro es
  induction es with
  | nil => intro s c r c' hc hr; simp [seqM] at hr; obtain ⟨rfl, rfl⟩ := hr; exact ⟨.seq_nil, hc⟩
  | cons e es ih =>
    intro s c r c' hc hr
    simp only [seqM] at hr
    split at hr
    · cases hr
    · next x c1 hx =>
      cases hr
      obtain ⟨h1, h2⟩ := h _ _ _ _ _ hc hx
      exact ⟨.seq_cons_fail h1, h2⟩
    · next s' c1 hx =>
      obtain ⟨h1, h2⟩ := h _ _ _ _ _ hc hx
      obtain ⟨h3, h4⟩ := ih _ _ _ _ h2 hr
      exact ⟨.seq_cons_ok h1 h3, h4⟩

theorem altM_sound {g inp ev} (h : SoundM g inp ev) :
    ∀ es s c r c', CacheOk g inp c → altM ev es s c = some (r, c') →
      Sem g inp (.alt es) s.pos r.out ∧ CacheOk g inp c' := by
  intro es
  induction es with
  | nil => intro s c r c' hc hr; simp [altM] at hr; obtain ⟨rfl, rfl⟩ := hr; exact ⟨.alt_nil, hc⟩
  | cons e es ih =>
    intro s c r c' hc hr
    simp only [altM] at hr
    split at hr
    · cases hr
    · next s' c1 hx =>
      cases hr
      obtain ⟨h1, h2⟩ := h _ _ _ _ _ hc hx
      exact ⟨.alt_cons_ok h1, h2⟩
    · next x c1 hx =>
      obtain ⟨h1, h2⟩ := h _ _ _ _ _ hc hx
      obtain ⟨h3, h4⟩ := ih _ _ _ _ h2 hr
      simp at h3
      exact ⟨.alt_cons_fail h1 h3, h4⟩

theorem starM_sound {g inp} (e : Expr) (ev : St → Cache → Option RC)
    (h : ∀ s c r c', CacheOk g inp c → ev s c = some (r, c') → Sem g inp e s.pos r.out ∧ CacheOk g inp c') :
    ∀ n s c r c', CacheOk g inp c → starM ev n s c = some (r, c') →
      Sem g inp (.star e) s.pos r.out ∧ CacheOk g inp c' := by
  intro n
  induction n with
  | zero => intro s c r c' _ hr; simp [starM] at hr
  | succ n ih =>
    intro s c r c' hc hr
    simp only [starM] at hr
    split at hr
    · cases hr
    · next x c1 hx =>
      cases hr
      obtain ⟨h1, h2⟩ := h _ _ _ _ hc hx
      exact ⟨by simpa [Res.out] using Sem.star_stop h1, h2⟩
    · next s' c1 hx =>
      obtain ⟨h1, h2⟩ := h _ _ _ _ hc hx
      obtain ⟨h3, h4⟩ := ih _ _ _ _ h2 hr
      exact ⟨.star_step h1 h3, h4⟩

theorem cacheOk_insert {g inp c r p res} (hc : CacheOk g inp c)
    (h : Sem g inp (.call r) p res.out) : CacheOk g inp (((r, p), res) :: c) := by
  intro r' p' res' hl
  simp only [List.lookup] at hl
  split at hl
  · next heq =>
    cases hl
    have : (r', p') = (r, p) := by simpa using heq
    cases this; exact h
  · exact hc _ _ _ hl

theorem stepM_sound (g : Grammar) (memo) (inp : Input) (rec) (n : Nat)
    (ih : SoundM g inp rec) : SoundM g inp (stepM g memo inp rec n) := by
  intro e s c r c' hc h
  cases e with
  | lit l =>
    simp only [stepM] at h
    split at h <;> cases h
    · exact ⟨.lit_ok ‹_›, hc⟩
    · exact ⟨.lit_fail ‹_›, hc⟩
  | range lo hi =>
    simp only [stepM] at h
    split at h
    · cases h; exact ⟨.range_fail_eoi ‹_›, hc⟩
    · split at h <;> cases h
      · next hcnd => exact ⟨.range_ok ‹_› hcnd.1 hcnd.2, hc⟩
      · exact ⟨.range_fail ‹_› ‹_›, hc⟩
  | eoi =>
    simp only [stepM] at h
    split at h <;> cases h
    · exact ⟨.eoi_ok ‹_›, hc⟩
    · exact ⟨.eoi_fail (by omega), hc⟩
  | call r' =>
    simp only [stepM] at h
    split at h
    · cases h
    · next e' hf =>
      split at h
      · split at h
        · next res hl => cases h; exact ⟨hc _ _ _ hl, hc⟩
        · split at h
          · cases h
          · next res c1 hx =>
            cases h
            obtain ⟨h1, h2⟩ := ih _ _ _ _ _ hc hx
            have hs : Sem g inp (.call r') s.pos r.out := .call hf h1
            exact ⟨hs, cacheOk_insert h2 hs⟩
      · obtain ⟨h1, h2⟩ := ih _ _ _ _ _ hc h
        exact ⟨.call hf h1, h2⟩
  | seq es => exact seqM_sound ih _ _ _ _ _ hc (by simpa [stepM] using h)
  | alt es => exact altM_sound ih _ _ _ _ _ hc (by simpa [stepM] using h)
  | opt e' =>
    simp only [stepM] at h
    split at h
    · cases h
    · next s' c1 hx => cases h; obtain ⟨h1, h2⟩ := ih _ _ _ _ _ hc hx; exact ⟨.opt_ok h1, h2⟩
    · next x c1 hx =>
      cases h; obtain ⟨h1, h2⟩ := ih _ _ _ _ _ hc hx
      exact ⟨by simpa [Res.out] using Sem.opt_fail h1, h2⟩
  | star e' =>
    simp only [stepM] at h
    exact starM_sound e' _ (fun s c r c' => ih e' s c r c') _ _ _ _ _ hc h
  | plus e' =>
    simp only [stepM] at h
    split at h
    · cases h
    · next x c1 hx => cases h; obtain ⟨h1, h2⟩ := ih _ _ _ _ _ hc hx; exact ⟨.plus_fail h1, h2⟩
    · next s' c1 hx =>
      obtain ⟨h1, h2⟩ := ih _ _ _ _ _ hc hx
      obtain ⟨h3, h4⟩ := starM_sound e' _ (fun s c r c' => ih e' s c r c') _ _ _ _ _ h2 h
      exact ⟨.plus_step h1 h3, h4⟩
  | notp e' =>
    simp only [stepM] at h
    split at h
    · cases h
    · next s' c1 hx => cases h; obtain ⟨h1, h2⟩ := ih _ _ _ _ _ hc hx; exact ⟨.notp_fail h1, h2⟩
    · next x c1 hx => cases h; obtain ⟨h1, h2⟩ := ih _ _ _ _ _ hc hx; exact ⟨.notp_ok h1, h2⟩
  | andp e' =>
    simp only [stepM] at h
    split at h
    · cases h
    · next s' c1 hx => cases h; obtain ⟨h1, h2⟩ := ih _ _ _ _ _ hc hx; exact ⟨.andp_ok h1, h2⟩
    · next x c1 hx => cases h; obtain ⟨h1, h2⟩ := ih _ _ _ _ _ hc hx; exact ⟨.andp_fail h1, h2⟩

theorem evalM_sound (g : Grammar) (memo) (inp : Input) : ∀ n, SoundM g inp (evalM g memo inp n) := by
  intro n
  induction n with
  | zero => intro e s c r c' _ h; simp [evalM] at h
  | succ n ih => exact stepM_sound g memo inp _ n ih

/-- PEG semantics is deterministic -/
theorem Sem_det {g : Grammar} {inp : Input} {e p o} (h : Sem g inp e p o) :
    ∀ o', Sem g inp e p o' → o = o' := by
  induction h with
  | lit_ok hl => intro o' h'; cases h' <;> simp_all
  | lit_fail hl => intro o' h'; cases h' <;> simp_all
  | range_ok hc h1 h2 => intro o' h'; cases h' <;> simp_all
  | range_fail_eoi hc => intro o' h'; cases h' <;> simp_all
  | range_fail hc hn =>
    intro o' h'
    cases h' with
    | range_ok hc' h1 h2 => rw [hc] at hc'; cases hc'; exact absurd ⟨h1, h2⟩ hn
    | range_fail_eoi hc' => rfl
    | range_fail hc' _ => rfl
  | eoi_ok hl => intro o' h'; cases h' <;> first | rfl | omega
  | eoi_fail hl => intro o' h'; cases h' <;> first | rfl | omega
  | call hf _ ih => intro o' h'; cases h' with | call hf' hs => rw [hf] at hf'; cases hf'; exact ih _ hs
  | seq_nil => intro o' h'; cases h'; rfl
  | seq_cons_ok _ _ ih1 ih2 =>
    intro o' h'
    cases h' with
    | seq_cons_ok a b => have := ih1 _ a; cases this; exact ih2 _ b
    | seq_cons_fail a => have := ih1 _ a; cases this
  | seq_cons_fail _ ih1 =>
    intro o' h'
    cases h' with
    | seq_cons_ok a b => have := ih1 _ a; cases this
    | seq_cons_fail a => rfl
  | alt_nil => intro o' h'; cases h'; rfl
  | alt_cons_ok _ ih1 =>
    intro o' h'
    cases h' with
    | alt_cons_ok a => exact ih1 _ a
    | alt_cons_fail a b => have := ih1 _ a; cases this
  | alt_cons_fail _ _ ih1 ih2 =>
    intro o' h'
    cases h' with
    | alt_cons_ok a => have := ih1 _ a; cases this
    | alt_cons_fail a b => exact ih2 _ b
  | opt_ok _ ih1 =>
    intro o' h'
    cases h' with
    | opt_ok a => exact ih1 _ a
    | opt_fail a => have := ih1 _ a; cases this
  | opt_fail _ ih1 =>
    intro o' h'
    cases h' with
    | opt_ok a => have := ih1 _ a; cases this
    | opt_fail a => rfl
  | star_stop _ ih1 =>
    intro o' h'
    cases h' with
    | star_stop a => rfl
    | star_step a b => have := ih1 _ a; cases this
  | star_step _ _ ih1 ih2 =>
    intro o' h'
    cases h' with
    | star_stop a => have := ih1 _ a; cases this
    | star_step a b => have := ih1 _ a; cases this; exact ih2 _ b
  | plus_fail _ ih1 =>
    intro o' h'
    cases h' with
    | plus_fail a => rfl
    | plus_step a b => have := ih1 _ a; cases this
  | plus_step _ _ ih1 ih2 =>
    intro o' h'
    cases h' with
    | plus_fail a => have := ih1 _ a; cases this
    | plus_step a b => have := ih1 _ a; cases this; exact ih2 _ b
  | notp_ok _ ih1 =>
    intro o' h'
    cases h' with
    | notp_ok a => rfl
    | notp_fail a => have := ih1 _ a; cases this
  | notp_fail _ ih1 =>
    intro o' h'
    cases h' with
    | notp_ok a => have := ih1 _ a; cases this
    | notp_fail a => rfl
  | andp_ok _ ih1 =>
    intro o' h'
    cases h' with
    | andp_ok a => rfl
    | andp_fail a => have := ih1 _ a; cases this
  | andp_fail _ ih1 =>
    intro o' h'
    cases h' with
    | andp_ok a => have := ih1 _ a; cases this
    | andp_fail a => rfl

/-- C05 on the mini-model: any two memoization choices give the same outcome whenever both runs terminate -/
theorem memo_transparent (g : Grammar) (inp : Input) (memo memo' : Name → Bool)
    {n n' e s r c r' c'}
    (h : evalM g memo inp n e s [] = some (r, c))
    (h' : evalM g memo' inp n' e s [] = some (r', c')) : r.out = r'.out := by
  have ok : CacheOk g inp [] := by intro r p res hl; simp [List.lookup] at hl
  exact Sem_det (evalM_sound g memo inp n _ _ _ _ _ ok h).1 _ (evalM_sound g memo' inp n' _ _ _ _ _ ok h').1

end Proto
